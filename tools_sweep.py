#!/venv/bin/python
"""dev helper (not a registered check): first-order mutation sweep.

Generates small AST-located edits of the package (comparison operators, integer constants, and/or, dropped
`not`, dropped call statements / attribute stores), keeps those the 209-test suite still accepts, and runs the
checks that analyse the touched file against each surviving tree (`./check Cxx --root <scratch copy>`).
A mutant that no check reports is a candidate gap to be triaged by hand (equivalent, outside every property, or a
missing rule).  usage: tools_sweep.py <out.jsonl> [file ...]
"""
import ast, json, os, shutil, subprocess, sys
from concurrent.futures import ProcessPoolExecutor

REPO = "/repo"
PKG = "circuitpython_nrf24l01"
CHECKS = {
    "rf24.py": ["C01", "C02", "C03", "C08", "C09", "C10"],
    "rf24_lite.py": ["C20"],
    "fake_ble.py": ["C18", "C19", "C09"],
    "network/structs.py": ["C06", "C11", "C12", "C05", "C15"],
    "network/mixins.py": ["C04", "C05", "C13", "C14", "C11", "C07", "C15"],
    "rf24_network.py": ["C05", "C11", "C13", "C07", "C15"],
    "rf24_mesh.py": ["C16", "C17", "C07", "C15"],
}
SWAP = {ast.Lt: "<=", ast.LtE: "<", ast.Gt: ">=", ast.GtE: ">", ast.Eq: "!=", ast.NotEq: "=="}
SKIP_FUNCS = {"print_details", "print_pipes", "to_string", "__repr__"}


def mutants(rel):
    src = open(os.path.join(REPO, PKG, rel)).read()
    lines = src.splitlines(keepends=True)
    offs = [0]
    for l in lines:
        offs.append(offs[-1] + len(l.encode()))
    bsrc = src.encode()
    tree = ast.parse(src)

    def span(n):
        return offs[n.lineno - 1] + n.col_offset, offs[n.end_lineno - 1] + n.end_col_offset

    out = []

    def emit(kind, a, b, new, func, line):
        out.append({"file": rel, "kind": kind, "func": func, "line": line, "old": bsrc[a:b].decode()[:80], "new": new[:80],
                    "a": a, "b": b, "text": new})

    def walk(node, func):
        for ch in ast.iter_child_nodes(node):
            f = func
            if isinstance(ch, (ast.FunctionDef, ast.ClassDef)):
                f = (func + "." if func else "") + ch.name
                if ch.name in SKIP_FUNCS:
                    continue
            if isinstance(ch, ast.Expr) and isinstance(ch.value, ast.Constant):
                continue  # docstring
            if isinstance(ch, ast.Compare) and len(ch.ops) == 1 and type(ch.ops[0]) in SWAP:
                a = span(ch.left)[1]
                b = span(ch.comparators[0])[0]
                emit("cmp", a, b, " " + SWAP[type(ch.ops[0])] + " ", f, ch.lineno)
            if isinstance(ch, ast.Constant) and type(ch.value) is int and func and not isinstance(node, ast.Subscript):
                a, b = span(ch)
                emit("const+1", a, b, str(ch.value + 1), f, ch.lineno)
                if ch.value > 1:
                    emit("const-1", a, b, str(ch.value - 1), f, ch.lineno)
            if isinstance(ch, ast.BoolOp):
                a = span(ch.values[0])[1]
                b = span(ch.values[1])[0]
                seg = bsrc[a:b].decode()
                new = seg.replace(" and ", " or ") if isinstance(ch.op, ast.And) else seg.replace(" or ", " and ")
                if new != seg:
                    emit("boolop", a, b, new, f, ch.lineno)
            if isinstance(ch, ast.UnaryOp) and isinstance(ch.op, ast.Not):
                a, b = span(ch)
                x, y = span(ch.operand)
                emit("dropnot", a, b, "(" + bsrc[x:y].decode() + ")", f, ch.lineno)
            if func and isinstance(ch, ast.Expr) and isinstance(ch.value, ast.Call):
                a, b = span(ch)
                emit("dropcall", a, b, "pass", f, ch.lineno)
            if func and isinstance(ch, (ast.Assign, ast.AugAssign)):
                tg = ch.targets[0] if isinstance(ch, ast.Assign) else ch.target
                if isinstance(tg, (ast.Attribute, ast.Subscript)):
                    a, b = span(ch)
                    emit("dropstore", a, b, "pass", f, ch.lineno)
            walk(ch, f)

    walk(tree, "")
    return bsrc, out


def work(args):
    k, rel, bsrc, m = args
    wt = "/tmp/sweep_w%d" % (os.getpid() % 100000)
    if not os.path.isdir(wt):
        shutil.copytree(REPO, wt, ignore=shutil.ignore_patterns(".git", "docs", "examples", "__pycache__", ".pytest_cache"))
    path = os.path.join(wt, PKG, rel)
    new = bsrc[:m["a"]] + m["text"].encode() + bsrc[m["b"]:]
    res = {k2: m[k2] for k2 in ("file", "kind", "func", "line", "old", "new")}
    try:
        try:
            ast.parse(new.decode())
        except SyntaxError:
            res["suite"] = "syntax"
            return res
        open(path, "wb").write(new)
        p = subprocess.run("cd %s && timeout 60 /venv/bin/python -m pytest -q -x -p no:cacheprovider 2>&1 | tail -1" % wt, shell=True, capture_output=True, text=True)
        ok = "208 passed" in p.stdout and " failed" not in p.stdout and "error" not in p.stdout
        res["suite"] = "pass" if ok else "fail"
        if ok:
            env = dict(os.environ, NRFSA_EVIDENCE_DIR="/tmp/sweep_ev_%d" % os.getpid())
            os.makedirs(env["NRFSA_EVIDENCE_DIR"], exist_ok=True)
            res["checks"] = {}
            for c in CHECKS[rel]:
                q = subprocess.run("cd /verif && timeout 300 ./check %s --root %s 2>&1 | grep -v WARN" % (c, wt), shell=True, capture_output=True, text=True, env=env)
                code = 1 if "VIOLATION" in q.stdout else (2 if "ANALYSIS-ERROR" in q.stdout else 0)
                res["checks"][c] = code
                if code == 1 and not os.environ.get("SWEEP_ALL"):
                    break
            res["detected"] = any(v == 1 for v in res["checks"].values())
    finally:
        open(path, "wb").write(bsrc)
    return res


if __name__ == "__main__":
    outp = sys.argv[1]
    files = sys.argv[2:] or list(CHECKS)
    jobs = []
    for rel in files:
        bsrc, ms = mutants(rel)
        only = os.environ.get("SWEEP_FUNCS")
        for i, m in enumerate(ms):
            if only and not any(m["func"].endswith(x) for x in only.split(",")):
                continue
            jobs.append((i, rel, bsrc, m))
    print(len(jobs), "mutants", file=sys.stderr)
    with ProcessPoolExecutor(int(os.environ.get("SWEEP_JOBS", "12"))) as ex, open(outp, "w") as fo:
        for r in ex.map(work, jobs, chunksize=4):
            fo.write(json.dumps(r) + "\n")
            fo.flush()
    for d in os.listdir("/tmp"):
        if d.startswith("sweep_w") or d.startswith("sweep_ev_"):
            shutil.rmtree("/tmp/" + d, ignore_errors=True)
