#!/venv/bin/python
"""dev helper: re-run, for every archived seeded change, the checks that are recorded as detecting it (scratch worktree /tmp/seed_<pid>)"""
import glob, json, os, subprocess, sys
from concurrent.futures import ThreadPoolExecutor
only = sys.argv[1:]
env = dict(os.environ)
jobs = {}
for d in sorted(glob.glob("/verif/seeded/*/")):
    name = os.path.basename(d.rstrip("/"))
    pid = name.split("-")[0]
    if only and name not in only and pid not in only:
        continue
    jobs.setdefault(pid, []).append(name)


def run_pid(pid):
    out = []
    wt = "/tmp/seed_%s" % pid
    for name in jobs[pid]:
        meta = json.load(open("/verif/seeded/%s/meta.json" % name))
        subprocess.run(["git", "-C", wt, "checkout", "-q", "--", "."])
        r = subprocess.run(["git", "-C", wt, "apply", "/verif/seeded/%s/patch.diff" % name], capture_output=True, text=True)
        if r.returncode:
            out.append("%s APPLY FAILED %s" % (name, r.stderr[:100]))
            continue
        res = []
        for p in meta.get("detected_by", [pid]):
            e = dict(env, NRFSA_EVIDENCE_DIR="/tmp/seed_evidence/%s" % pid)
            os.makedirs(e["NRFSA_EVIDENCE_DIR"], exist_ok=True)
            c = subprocess.run(["/verif/check", p, "--root", wt], capture_output=True, text=True, env=e)
            res.append("%s=%d" % (p, c.returncode))
        subprocess.run(["git", "-C", wt, "checkout", "-q", "--", "."])
        bad = [x for x in res if not x.endswith("=1")]
        out.append("%s %s %s" % (name, " ".join(res), "   <-- LOST" if bad else ""))
    return out


with ThreadPoolExecutor(10) as ex:
    for lines in ex.map(run_pid, sorted(jobs)):
        for l in lines:
            print(l)
