#!/bin/bash
# dev helper: ./tools_seed_round.sh C11 [sibling pids]   renames SEED/a,b -> g,h (round 4) and evaluates both
pid=$1; shift
d=/tmp/seed_$pid/SEED
L1=${L1:-g}; L2=${L2:-h}; [ -d $d/a ] && mv $d/a $d/$L1; [ -d $d/b ] && mv $d/b $d/$L2
export NRFSA_EVIDENCE_DIR=/tmp/seed_evidence
for w in $L1 $L2; do
  echo "== $pid $w"
  /verif/tools_seed_eval.py $pid $w "$@" 2>&1 | grep -v WARN | /venv/bin/python -c "
import json,sys
r=json.load(sys.stdin); print('valid',r['valid'],r['suite'][18:60])
for k,v in r['checks'].items(): print(k,v['exit'],*[x[:330] for x in v['reports'][:3]],sep='\n   ')"
done
