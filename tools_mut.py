#!/venv/bin/python
"""dev helper: ./tools_mut.py Cxx file 'old' 'new'  -> findings introduced by the edit (in-memory overlay)"""
import sys, importlib
sys.path.insert(0, "/verif")
from nrfsa import selftest, report
from nrfsa.model import Program
pid, rel, old, new = sys.argv[1:5]
mod = importlib.import_module("nrfsa.rules." + pid.lower())
ck0 = report.Checker(pid, Program("/repo"), "quick", "/repo"); mod.run(ck0)
base = {o.rule + " " + o.func + " :: " + o.construct for o in ck0.obls if not o.ok}
name, status, fails = selftest._one(("/repo", mod.__name__, pid, {"name": "adhoc", "file": rel, "old": old, "new": new, "nth": int(sys.argv[5]) if len(sys.argv) > 5 else 0}))
print(status, sorted({f.split(" :: ")[0] for f in fails if f not in base}))
