#!/bin/bash
# dev helper: ./tools_patch_check.sh neutral/n4-03 C02 [C20 ..]   applies an archived patch in a scratch worktree and runs the named checks
d=$1; shift
wt=/tmp/pcheck_wt
[ -d $wt ] || git -C /repo worktree add -q --detach $wt HEAD
git -C $wt checkout -q --detach $(git -C /repo rev-parse HEAD); git -C $wt checkout -q -- .
git -C $wt apply /verif/$d/patch.diff || { echo APPLY FAILED; exit 1; }
for p in "$@"; do NRFSA_EVIDENCE_DIR=/tmp/seed_evidence /verif/check $p --root $wt 2>&1 | grep -v WARN | grep "\[R\|ANALYSIS\|tier=" | cut -c1-${COLS:-700}; done
git -C $wt checkout -q -- .
