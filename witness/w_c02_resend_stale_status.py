"""Witness for C02/R02.9 (not part of any check): resend() tests IRQ flags in the STATUS
byte that was clocked out *during* the write that clears them (datasheet 8.3.1), so right
after a failed send() it skips its wait loop and reports False although the retransmission
it has just started succeeds.  Run: /venv/bin/python witness/w_c02_resend_stale_status.py"""
import sys
sys.path.insert(0, "/repo")
from circuitpython_nrf24l01.rf24 import RF24


class Pin:
    def __init__(self, radio=None):
        self._v, self.radio = False, radio

    def switch_to_output(self, value=False):
        self.value = value

    @property
    def value(self):
        return self._v

    @value.setter
    def value(self, v):
        rising = bool(v) and not self._v
        self._v = bool(v)
        if rising and self.radio is not None:
            self.radio.ce_rising()


class ScriptedSpiDev:
    """STATUS is shifted out while the command byte is shifted in: every transfer returns the
    status as it was *before* the command takes effect."""

    def __init__(self):
        self.regs = {i: bytearray([0]) for i in range(0x20)}
        for r in (0x0A, 0x0B, 0x10):
            self.regs[r] = bytearray(5)
        self.status, self.tx_fifo, self.peer_acks = 0x0E, [], False
        self.no_cs = True

    def open(self, *a):
        pass

    def close(self):
        pass

    def ce_rising(self):
        if self.tx_fifo and not self.regs[0][0] & 1:
            if self.peer_acks:
                self.tx_fifo.pop(0)
                self.status |= 0x20
            else:
                self.status |= 0x10

    def xfer2(self, out, _baud):
        before = self.status
        cmd = out[0]
        resp = bytearray(len(out))
        resp[0] = before
        if cmd < 0x20:
            data = self.regs[cmd] if cmd != 7 else bytearray([before])
            if cmd == 0x17:
                data = bytearray([(0x10 if not self.tx_fifo else 0) | 1])
            resp[1:1 + len(data)] = data[:len(out) - 1]
        elif cmd < 0x40:
            if cmd & 0x1F == 7:
                self.status &= ~(out[1] & 0x70)
            else:
                self.regs[cmd & 0x1F] = bytearray(out[1:])
        elif cmd in (0xA0, 0xB0):
            self.tx_fifo.append(bytes(out[1:]))
        elif cmd == 0xE1:
            self.tx_fifo.clear()
        return list(resp)


spi = ScriptedSpiDev()
ce = Pin(spi)
nrf = RF24(spi, Pin(), ce)
nrf.listen = False
spi.peer_acks = False
print("send() with the peer deaf      ->", nrf.send(b"hello", send_only=True))
spi.peer_acks = True
r = nrf.resend(send_only=True)
print("resend() with the peer answering ->", r, "| TX FIFO now:", spi.tx_fifo, "| STATUS: 0x%02X" % spi.status)
ok = bool(r) is True
print("OK" if ok else "DEFECT: the payload was delivered (FIFO empty, TX_DS set) but resend() said False")
sys.exit(0 if ok else 1)
