"""C06 witness (real code): multicast() re-uses frame_buf.header, so every multicast message of a node carries the SAME frame id (whatever
the buffer last held).  A receiver that got only the FIRST fragment of message X and then - the FIRST of Y lost - the MORE and LAST
fragments of message Y cannot tell them apart (same origin, same id, matching counters): it delivers X.first + Y.more + Y.last, a message
nobody sent.  With a fresh header (fresh id) per message, as RF24Network.write()/send() and TMRh20's multicast() use, Y's fragments are
discarded."""
import struct, sys, os
root = os.environ.get("W_ROOT", "/repo")
sys.path.insert(0, root)
sys.path.insert(0, os.path.join(root, "tests"))
import conftest  # noqa: F401
from circuitpython_nrf24l01.rf24_network import RF24Network
from circuitpython_nrf24l01.network.structs import FrameQueueFrag, RF24NetworkFrame

spi, csn, ce = conftest.ShimSpiDev(), conftest.ShimDigitalIO(), conftest.ShimDigitalIO()
n = RF24Network(spi, csn, ce, 0o2)
sent = []
n._rf24.send = lambda buf, *a, **k: (sent.append(bytes(buf)), True)[1]
n._rf24.resend = lambda *a, **k: True
X, Y = bytes(range(0x10, 0x10 + 60)), bytes(range(0x80, 0x80 + 60))
n.multicast(X, 84, 1)
n.multicast(Y, 84, 1)
ids = [struct.unpack("HHHBB", f[:8])[2] for f in sent]
print("frame ids on air:", ids)
q = FrameQueueFrag()
for k in (0, 4, 5):           # X.first, Y.more, Y.last  (X.more, X.last and Y.first were lost)
    fr = RF24NetworkFrame()
    fr.unpack(sent[k])
    q.enqueue(fr)
got = q.dequeue()
if got is not None and bytes(got.message) not in (X, Y):
    print("delivered a message nobody sent: %d bytes %s...%s" % (len(got.message), bytes(got.message[:2]).hex(), bytes(got.message[-2:]).hex()))
    sys.exit(1)
print("OK: nothing bogus delivered")
