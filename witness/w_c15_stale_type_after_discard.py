"""C15 witness (real code): two frames in the RX FIFO during ONE update() of a mesh master.
  1. a valid multicast frame (to 0o100) of type MESH_ADDR_LOOKUP (196) with a 1-byte payload: queued, its type is remembered
  2. a frame with an invalid origin (from_node = 0o7): discarded - but it now sits in frame_buf
_net_update() then returns the stale 196; RF24Mesh.update() answers the "lookup" using frame_buf = the discarded frame, i.e. sends
to the invalid address 0o7, and _pipe_address() raises IndexError (address_suffix[7]).  C15: update() never raises."""
import struct, sys, os
root = os.environ.get("W_ROOT", "/repo")
sys.path.insert(0, root)
sys.path.insert(0, os.path.join(root, "tests"))
import conftest  # noqa: F401  (installs the SPI / pin shims)
from circuitpython_nrf24l01.rf24_mesh import RF24Mesh
spi, csn, ce = conftest.ShimSpiDev(), conftest.ShimDigitalIO(), conftest.ShimDigitalIO()
m = RF24Mesh(spi, csn, ce, 0)
frames = [struct.pack("HHHBB", 0o1, 0o100, 1, 196, 0) + b"\x05",
          struct.pack("HHHBB", 0o7, 0o0, 2, 65, 0) + b"garbage"]
m._rf24.read = lambda length=None: frames.pop(0) if frames else None
m._rf24.send = lambda *a, **k: True
m._rf24.resend = lambda *a, **k: True
try:
    t = m.update()
    print("update() returned", t, "- OK")
except Exception as exc:  # noqa
    print("update() raised %r" % (exc,))
    sys.exit(1)
