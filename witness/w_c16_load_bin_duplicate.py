"""C16 witness: load_dhcp(as_bin=True) into a live table maps two IDs to one address (the JSON branch evicts the other holder).
history: ID 2 leased 0o5; save (binary); 2 releases; ID 6 is leased the freed 0o5; load (binary).  Run: /venv/bin/python witness/w_c16_load_bin_duplicate.py [repo root]"""
import os, sys, tempfile
root = sys.argv[1] if len(sys.argv) > 1 else "/repo"
sys.path.insert(0, root)
sys.path.insert(0, os.path.join(root, "tests"))
from conftest import ShimSpiDev, ShimDigitalIO  # noqa
from circuitpython_nrf24l01.rf24_mesh import RF24Mesh

mesh = RF24Mesh(ShimSpiDev(), ShimDigitalIO(), ShimDigitalIO(), 0)
bad = []
for as_bin in (False, True):
    mesh.dhcp_dict.clear()
    mesh.set_address(2, 0o5)
    path = os.path.join(tempfile.mkdtemp(), "dhcp")
    mesh.save_dhcp(path, as_bin=as_bin)
    del mesh.dhcp_dict[2]                 # node 2 released its address
    mesh.set_address(6, 0o5)              # ... and ID 6 was leased the freed address
    mesh.load_dhcp(path, as_bin=as_bin)
    addrs = list(mesh.dhcp_dict.values())
    print("as_bin=%r -> %r" % (as_bin, {k: oct(v) for k, v in mesh.dhcp_dict.items()}))
    if len(addrs) != len(set(addrs)):
        bad.append(as_bin)
assert not bad, "two IDs on one address after load_dhcp(as_bin=%r)" % bad
print("OK")
