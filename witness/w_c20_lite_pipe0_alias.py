"""C20/C08 witness (real code, rf24_lite): open_rx_pipe(0, addr) remembers the caller's bytearray itself.  An application that re-uses one
scratch buffer to open several pipes (or simply changes the buffer afterwards) changes the address pipe 0 is restored to on the next
`listen = True`: pipe 0 then listens on an address the user never gave it.  The full driver keeps a private copy (address[:5])."""
import sys, os
root = os.environ.get("W_ROOT", "/repo")
sys.path.insert(0, root)
sys.path.insert(0, os.path.join(root, "tests"))
import conftest  # noqa: F401
from circuitpython_nrf24l01.rf24_lite import RF24

class Spi:
    """busio-style SPI with a register file (rf24_lite talks to busio only)"""
    def __init__(self):
        self.reg = {i: bytearray(5) for i in range(0x20)}
    def try_lock(self): return True
    def unlock(self): pass
    def configure(self, **k): pass
    def write_readinto(self, out, inp, out_end=None, in_end=None):
        cmd = out[0]
        if cmd < 0x20:
            data = self.reg[cmd]
            for i in range(1, len(inp)):
                inp[i] = data[i - 1] if i - 1 < len(data) else 0
        elif cmd < 0x40:
            r = cmd & 0x1F
            new = bytearray(out[1:out_end] if out_end else out[1:])
            self.reg[r][:len(new)] = new
        inp[0] = 0x0E

class Pin:
    value = False
    def switch_to_output(self, value=False): self.value = value

try:
    import adafruit_bus_device.spi_device  # noqa
except Exception:
    pass
spi = Spi()
try:
    radio = RF24(spi, Pin(), Pin())
except Exception as exc:  # the lite driver needs adafruit_bus_device; fall back to reading the stored attribute only
    print("cannot drive rf24_lite here (%r): checking the stored object instead" % (exc,))
    radio = RF24.__new__(RF24)
    radio._pipe0_read_addr = None
    radio._reg_write_bytes = lambda *a: None
    radio._reg_write = lambda *a: None
    radio._reg_read = lambda *a: 0
scratch = bytearray(b"0Node")
radio.open_rx_pipe(0, scratch)
scratch[0] = ord("5")
radio.open_rx_pipe(5, scratch)
kept = bytes(radio._pipe0_read_addr)
print("address remembered for pipe 0:", kept)
if kept != b"0Node":
    print("pipe 0 will be restored to an address the user never opened it on")
    sys.exit(1)
print("OK")
