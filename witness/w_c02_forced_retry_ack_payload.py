"""Witness for C02/R02.3+R02.9 (not part of any check): with ACK payloads on, a send() whose first attempt fails and whose
forced retry is acknowledged with an ACK payload returns None instead of the payload: resend() already fetched it, and
send() fetches again because the STATUS byte cached by read()'s flag-clearing write still shows RX_DR (datasheet SPI timing).
Run: /venv/bin/python witness/w_c02_forced_retry_ack_payload.py"""
import sys
sys.path.insert(0, "/repo")
from circuitpython_nrf24l01.rf24 import RF24


class Pin:
    def __init__(self, radio=None):
        self._v, self.radio = False, radio

    def switch_to_output(self, value=False):
        self.value = value

    @property
    def value(self):
        return self._v

    @value.setter
    def value(self, v):
        rising = bool(v) and not self._v
        self._v = bool(v)
        if rising and self.radio is not None:
            self.radio.ce_rising()


class ScriptedSpiDev:
    """every transfer returns STATUS as it was before the command took effect"""

    def __init__(self):
        self.regs = {i: bytearray([0]) for i in range(0x20)}
        for r in (0x0A, 0x0B, 0x10):
            self.regs[r] = bytearray(5)
        self.flags, self.tx_fifo, self.rx_fifo, self.script = 0, [], [], []
        self.no_cs = True

    def open(self, *a):
        pass

    def close(self):
        pass

    @property
    def status(self):
        return self.flags | ((0 if self.rx_fifo else 7) << 1) | (1 if len(self.tx_fifo) >= 3 else 0)

    def ce_rising(self):
        if self.tx_fifo and not self.regs[0][0] & 1:
            ok, ackpl = self.script.pop(0) if self.script else (False, None)
            if ok:
                self.tx_fifo.pop(0)
                self.flags |= 0x20
                if ackpl is not None:
                    self.rx_fifo.append(ackpl)
                    self.flags |= 0x40
            else:
                self.flags |= 0x10

    def xfer2(self, out, _baud):
        before = self.status
        cmd = out[0]
        resp = bytearray(len(out))
        resp[0] = before
        if cmd < 0x20:
            data = self.regs[cmd]
            if cmd == 0x17:
                data = bytearray([(0x10 if not self.tx_fifo else 0) | (0 if self.rx_fifo else 1)])
            resp[1:1 + len(data)] = data[:len(out) - 1]
        elif cmd < 0x40:
            if cmd & 0x1F == 7:
                self.flags &= ~(out[1] & 0x70)
            else:
                self.regs[cmd & 0x1F] = bytearray(out[1:])
        elif cmd in (0xA0, 0xB0):
            self.tx_fifo.append(bytes(out[1:]))
        elif cmd == 0x60:
            resp[1] = len(self.rx_fifo[0]) if self.rx_fifo else 0
        elif cmd == 0x61:
            if self.rx_fifo:
                p = self.rx_fifo.pop(0)
                resp[1:1 + len(p)] = p[:len(out) - 1]
        elif cmd == 0xE1:
            self.tx_fifo.clear()
        elif cmd == 0xE2:
            self.rx_fifo.clear()
        return list(resp)


spi = ScriptedSpiDev()
nrf = RF24(spi, Pin(), Pin(spi))
nrf.ack = True
nrf.listen = False
spi.script = [(False, None), (True, b"ACK!")]      # first attempt lost, forced retry acknowledged with an ACK payload
r = nrf.send(b"hello", force_retry=1)
print("send(force_retry=1) ->", r)
ok = r == bytearray(b"ACK!")
print("OK" if ok else "DEFECT: the retry was delivered and acknowledged with b'ACK!', send() returned %r" % (r,))
sys.exit(0 if ok else 1)
