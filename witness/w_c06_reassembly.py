"""Witnesses for C06 (not part of any check). Run: /venv/bin/python witness/w_c06_reassembly.py
exit status = number of defective behaviours still present (known finding R06.2 stays)."""
import sys
sys.path.insert(0, "/repo")
from circuitpython_nrf24l01.network.structs import RF24NetworkFrame, RF24NetworkHeader, FrameQueueFrag
from circuitpython_nrf24l01.network.constants import MSG_FRAG_FIRST, MSG_FRAG_MORE, MSG_FRAG_LAST


def frag(frm, fid, typ, reserved, body, to=0o5):
    h = RF24NetworkHeader(to, typ)
    h.from_node, h.frame_id, h.reserved = frm, fid, reserved
    return RF24NetworkFrame(h, body)


bad = 0
# R06.1: two senders, same frame id: FIRST from 0o1, LAST from 0o2
q = FrameQueueFrag()
q.enqueue(frag(0o1, 7, MSG_FRAG_FIRST, 2, b"a" * 24))
q.enqueue(frag(0o2, 7, MSG_FRAG_LAST, 65, b"b" * 16))
m = q.dequeue()
print("R06.1 two senders spliced:", None if m is None else (oct(m.header.from_node), bytes(m.message)[:3], len(m.message)))
bad += m is not None
# R06.4: LAST delivered twice
q = FrameQueueFrag()
q.enqueue(frag(0o1, 8, MSG_FRAG_FIRST, 2, b"a" * 24))
q.enqueue(frag(0o1, 8, MSG_FRAG_LAST, 65, b"b" * 16))
q.dequeue()
q.enqueue(frag(0o1, 8, MSG_FRAG_LAST, 65, b"b" * 16))
m = q.dequeue()
print("R06.4 repeated LAST delivers again:", None if m is None else len(m.message))
bad += m is not None
# R06.3: stray LAST on a fresh queue whose cache happens to carry the same frame id
q = FrameQueueFrag()
fid = q._frags.header.frame_id
q.enqueue(frag(0o7777, fid, MSG_FRAG_LAST, 65, b"z" * 5, to=q._frags.header.to_node))
m = q.dequeue()
print("R06.3 stray LAST with no FIRST delivered:", None if m is None else bytes(m.message))
bad += m is not None
# R06.2 (known finding): FIRST(3), LAST with the MORE fragment lost
q = FrameQueueFrag()
q.enqueue(frag(0o1, 9, MSG_FRAG_FIRST, 3, b"a" * 24))
q.enqueue(frag(0o1, 9, MSG_FRAG_LAST, 65, b"c" * 12))
m = q.dequeue()
print("R06.2 message with a hole delivered:", None if m is None else len(m.message), "(sent: 60 bytes)")
bad += m is not None
sys.exit(bad)
