"""Witnesses for the rf24_lite defects reported by C20 (not part of any check).
Run: /venv/bin/python witness/w_c20_lite.py   (exit 1 while any defect is present)"""
import sys
sys.path.insert(0, "/repo")
from circuitpython_nrf24l01.rf24_lite import RF24


class Pin:
    def __init__(self):
        self.value = False

    def switch_to_output(self, value=False, **kw):
        self.value = value


class FakeBus:
    """busio.SPI look-alike; STATUS is returned as it was before the command took effect"""

    def __init__(self):
        self.regs = {i: bytearray([0]) for i in range(0x20)}
        for r in (0x0A, 0x0B, 0x10):
            self.regs[r] = bytearray(5)
        self.status, self.tx, self.log = 0x0E, [], []

    def try_lock(self):
        return True

    def unlock(self):
        pass

    def configure(self, **kw):
        pass

    def write(self, *a, **k):
        pass

    def write_readinto(self, out, inb, **kw):
        cmd = out[0]
        self.log.append(bytes(out))
        inb[0] = self.status
        if cmd < 0x20:
            data = self.regs[cmd]
            for i in range(1, len(inb)):
                inb[i] = data[i - 1] if i - 1 < len(data) else 0
        elif cmd < 0x40:
            if cmd & 0x1F == 7:
                self.status &= ~(out[1] & 0x70)
            else:
                self.regs[cmd & 0x1F] = bytearray(out[1:])
        elif cmd in (0xA0, 0xB0) or 0xA8 <= cmd <= 0xAD:
            self.tx.append(bytes(out))


bad = 0
bus = FakeBus()
nrf = RF24(bus, Pin(), Pin())

# 1. load_ack: accepts an empty buffer, rejects a full 32-byte one
bus.tx.clear()
r0, r32 = nrf.load_ack(b"", 1), nrf.load_ack(b"x" * 32, 1)
print("load_ack(b'', 1) ->", r0, "| load_ack(32 bytes, 1) ->", r32, "| TX FIFO:", bus.tx)
bad += (r0 is not False) + (r32 is not True)

# 2. write(): static payloads pad the caller's bytearray in place
nrf.dynamic_payloads = False
nrf.payload_length = 8
b = bytearray(b"abc")
nrf.write(b)
print("caller's buffer after write():", b)
bad += b != bytearray(b"abc")

# 3. close_rx_pipe(0) does not forget the user's pipe-0 address
nrf.open_rx_pipe(0, b"1Node")
nrf.close_rx_pipe(0)
nrf.listen = False      # TX entry opens pipe 0 for ACKs
nrf.listen = True       # RX entry must close pipe 0 again: the user closed it
print("EN_RXADDR after close_rx_pipe(0); listen=False; listen=True: 0x%02X" % bus.regs[2][0])
bad += bus.regs[2][0] & 1
print("OK" if not bad else "DEFECTS: %d" % bad)
sys.exit(1 if bad else 0)
