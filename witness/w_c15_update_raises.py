"""Witnesses for C15/C17 (not part of any check): frames that make update() raise.
Run: /venv/bin/python witness/w_c15_update_raises.py ; exit status = number of crashes still present"""
import sys, struct
sys.path.insert(0, "/repo/tests"); sys.path.insert(0, "/repo")
from conftest import ShimSpiDev, ShimDigitalIO, RadioState
from circuitpython_nrf24l01.rf24_mesh import RF24Mesh
from circuitpython_nrf24l01.rf24_network import RF24Network
from circuitpython_nrf24l01.network.structs import RF24NetworkHeader, is_address_valid
from circuitpython_nrf24l01.network.constants import MESH_ADDR_LOOKUP, MESH_ID_LOOKUP


def feed(node, spi, hdr, msg):
    frames = [hdr.pack() + msg]
    def fake_read(length=None):
        return bytearray(frames.pop(0)) if frames else None
    node._rf24.read = fake_read
    node._rf24.send = lambda buf, ask_no_ack=False, send_only=False: True
    node._rf24.resend = lambda send_only=False: True


def attempt(label, fn):
    try:
        fn()
        print("ok      ", label)
        return 0
    except Exception as exc:  # noqa
        print("RAISES  ", label, "->", type(exc).__name__, exc)
        return 1


bad = 0
print("is_address_valid(0o11111) =", is_address_valid(0o11111))
spi = ShimSpiDev(); net = RF24Network(spi, ShimDigitalIO(), ShimDigitalIO(), 0o1111)
h = RF24NetworkHeader(0o11111 & 0xFFF, 1); h.from_node = 0o1
# a 5-digit destination cannot be packed into 12 bits by our own header; craft the raw bytes like a foreign node would
raw = struct.pack("<HHHBB", 0o1, 0o11111, 7, 1, 0)
frames = [raw]
net._rf24.read = lambda length=None: bytearray(frames.pop(0)) if frames else None
net._rf24.send = lambda buf, ask_no_ack=False, send_only=False: True
net._rf24.resend = lambda send_only=False: True
bad += attempt("node 0o1111: frame for 0o11111 (5 octal digits)", net.update)

for label, typ, msg in (("master: MESH_ADDR_LOOKUP with empty message", MESH_ADDR_LOOKUP, b""),
                        ("master: MESH_ID_LOOKUP with 1-byte message", MESH_ID_LOOKUP, b"\x01"),
                        ("master: MESH_ADDR_LOOKUP of unknown id 9", MESH_ADDR_LOOKUP, b"\x09"),
                        ("master: MESH_ID_LOOKUP of unknown address 0o5", MESH_ID_LOOKUP, struct.pack("<H", 0o5))):
    RadioState.rx_fifo.clear()
    spi = ShimSpiDev(); mesh = RF24Mesh(spi, ShimDigitalIO(), ShimDigitalIO(), 0)
    h = RF24NetworkHeader(0, typ); h.from_node = 0o1
    feed(mesh, spi, h, msg)
    bad += attempt(label, mesh.update)
sys.exit(bad)
