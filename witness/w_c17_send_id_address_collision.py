"""C17 witness: RF24MeshNoMaster.send() compares the looked-up *address* of the destination with the sender's own node *ID*.
A node with ID 5 that sends to ID 9 - whose leased address happens to be 0o5 (decimal 5) - takes the destination for itself and
writes the message to its own address: it lands in the sender's own queue, send() returns True, node 9 never gets it.
Run: /venv/bin/python witness/w_c17_send_id_address_collision.py [repo root]   (exit 1 = defect present)"""
import sys, os
root = sys.argv[1] if len(sys.argv) > 1 else os.environ.get("W_ROOT", "/repo")
sys.path.insert(0, root)
sys.path.insert(0, os.path.join(root, "tests"))
import conftest  # noqa: E402,F401  (installs the suite's fake SPI / pin shims)
from circuitpython_nrf24l01.rf24_mesh import RF24MeshNoMaster  # noqa: E402

node = RF24MeshNoMaster(conftest.ShimSpiDev(), conftest.ShimDigitalIO(), conftest.ShimDigitalIO(), node_id=5)
node._begin(0o12)                                    # pretend the node holds the lease 0o12
node.lookup_address = lambda node_id=None: 0o5       # the master says: ID 9 lives at 0o5
written = []
node.write = lambda to_node, message_type, message: written.append(to_node) or True
node.send(9, "T", b"hello")
print("send(to ID 9 at address 0o5) from node ID 5 wrote to address", oct(written[0]))
if written[0] != 0o5:
    print("DEFECT: the destination's address 0o5 equals the sender's ID 5 numerically and was replaced by the sender's own address")
    sys.exit(1)
print("OK")
