"""Witnesses for C19 (not part of any check). exit status = number of defects present."""
import sys
sys.path.insert(0, "/repo/tests"); sys.path.insert(0, "/repo")
from conftest import ShimSpiDev, ShimDigitalIO
from circuitpython_nrf24l01.fake_ble import FakeBLE, QueueElement, TemperatureServiceData, chunk
bad = 0
t = TemperatureServiceData()
t.data = -1.0
print("temperature -1.0 decodes as", t.data)
bad += abs(t.data + 1.0) > 0.005
ble = FakeBLE(ShimSpiDev(), ShimDigitalIO(), ShimDigitalIO())
pkt = ble._make_payload(chunk(b"\x09", 0x16))      # CRC-valid packet with a 2-byte service-data structure: 02 16 09
try:
    q = QueueElement(pkt[:-3])
    print("truncated service data kept as raw chunk:", q.data)
except Exception as exc:  # noqa
    print("QueueElement raises", type(exc).__name__, exc)
    bad += 1
sys.exit(bad)
