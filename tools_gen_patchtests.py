#!/venv/bin/python
"""dev helper: selftest_data/patches.json from the archived real-world patches: /verif/seeded/* (armed: must be reported by the checks
listed in meta.detected_by) and /verif/neutral/* (behaviour-preserving refactorings by independent sub-agents: every check must stay
silent).  The thorough tier applies them in memory (nrfsa.selftest.apply_unified) to the tree under analysis."""
import glob, json, os, re
out = []
for d in sorted(glob.glob("/verif/seeded/*/")):
    name = os.path.basename(d.rstrip("/"))
    meta = json.load(open(d + "meta.json"))
    exp = {}
    for p, c in meta.get("checks_run", {}).items():
        m = re.search(r"\[(R[0-9.]+)\]", c.get("first_report", ""))
        if c["exit"] == 1 and m:
            exp[p] = m.group(1)
    out.append({"name": "seed-" + name, "kind": "armed", "pids": sorted(exp), "expect": exp, "diff": open(d + "patch.diff").read()})
for d in sorted(glob.glob("/verif/neutral/*/")):
    name = os.path.basename(d.rstrip("/"))
    kind = "refused" if os.path.exists(d + "REFUSED") else "neutral"
    out.append({"name": "neutral-" + name, "kind": kind, "pids": "all", "expect": {}, "diff": open(d + "patch.diff").read()})
json.dump(out, open("/verif/selftest_data/patches.json", "w"), indent=1)
print(len(out), "patch variants;", sum(1 for o in out if o["kind"] == "armed"), "armed")
