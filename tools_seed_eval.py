#!/venv/bin/python
"""dev helper: validate a sub-agent's seeded change in its scratch worktree and run the checks against it.
usage: tools_seed_eval.py C03 a [extra property ids to run]"""
import json, os, subprocess, sys, shutil
pid, which = sys.argv[1], sys.argv[2]
extra = sys.argv[3:]
wt = "/tmp/seed_%s" % pid
sd = "%s/SEED/%s" % (wt, which)
def sh(cmd, **kw):
    p = subprocess.run(cmd, shell=True, capture_output=True, text=True, **kw)
    return p.returncode, (p.stdout + p.stderr)
res = {}
sh("git -C %s checkout -- circuitpython_nrf24l01" % wt)
rc, out = sh("cd %s && /venv/bin/python SEED/%s/demo.py" % (wt, which)); res["demo_clean_exit"] = rc
rc, out = sh("git -C %s apply SEED/%s/patch.diff" % (wt, which)); res["apply"] = rc
rc, out = sh("cd %s && /venv/bin/python -m pytest -q -p no:cacheprovider 2>&1 | tail -1" % wt); res["suite"] = out.strip()
rc, out = sh("cd %s && /venv/bin/python SEED/%s/demo.py" % (wt, which)); res["demo_patched_exit"] = rc; res["demo_patched_tail"] = out.strip()[-300:]
env = dict(os.environ, NRFSA_EVIDENCE_DIR="/tmp/seed_evidence")
det = {}
for p in [pid] + extra:
    rc, out = sh("cd /verif && ./check %s --root %s" % (p, wt), env=env)
    lines = [l for l in out.splitlines() if l.startswith("circuitpython") or l.startswith("ANALYSIS") or l.startswith("NOTE")]
    det[p] = {"exit": rc, "reports": [l[:260] for l in lines[:4]]}
res["checks"] = det
sh("git -C %s checkout -- circuitpython_nrf24l01" % wt)
res["valid"] = res["demo_clean_exit"] == 0 and res["apply"] == 0 and "208 passed" in res["suite"] and res["demo_patched_exit"] != 0
print(json.dumps(res, indent=1))
