#!/venv/bin/python
"""dev helper: apply each behaviour-preserving patch of /tmp/neut_<i>/NEUTRAL/<nn> in its worktree and run all checks against it;
any non-zero exit is a false alarm (1) or an analyser that cannot cope with the rewrite (2)"""
import subprocess, sys, os, glob, json
from concurrent.futures import ThreadPoolExecutor
PIDS = ["C%02d" % i for i in range(1, 21)]
env = dict(os.environ, NRFSA_EVIDENCE_DIR="/tmp/seed_evidence")
os.makedirs("/tmp/seed_evidence", exist_ok=True)
which = sys.argv[1:]


def run_check(args):
    pid, root = args
    p = subprocess.run(["/verif/check", pid, "--root", root], capture_output=True, text=True, env=dict(env, NRFSA_EVIDENCE_DIR="/tmp/seed_evidence/%s" % os.path.basename(root)))
    lines = [l for l in p.stdout.splitlines() + p.stderr.splitlines() if "[R" in l or "ANALYSIS-ERROR" in l]
    return pid, p.returncode, lines[:3]


EVAL_WT = "/tmp/neval_wt"      # the patches are applied in a scratch worktree of our own, never in a sub-agent's (it may still be working)
if not os.path.isdir(EVAL_WT):
    subprocess.run(["git", "-C", "/repo", "worktree", "add", "-q", "--detach", EVAL_WT, "HEAD"], check=True)
subprocess.run(["git", "-C", EVAL_WT, "checkout", "-q", "--detach", subprocess.run(["git", "-C", "/repo", "rev-parse", "HEAD"], capture_output=True, text=True).stdout.strip()])
for src in sorted(glob.glob("/tmp/neut_*")):
    for pd in sorted(glob.glob(src + "/NEUTRAL/*/patch.diff")):
        tag = "%s/%s" % (os.path.basename(src), os.path.basename(os.path.dirname(pd)))
        if which and tag not in which and os.path.basename(src) not in which:
            continue
        wt = EVAL_WT
        subprocess.run(["git", "-C", wt, "checkout", "-q", "--", "."])
        r = subprocess.run(["git", "-C", wt, "apply", pd], capture_output=True, text=True)
        if r.returncode:
            print(tag, "APPLY FAILED", r.stderr[:200])
            continue
        os.makedirs("/tmp/seed_evidence/%s" % os.path.basename(wt), exist_ok=True)
        if not which:
            raise SystemExit("name the worktrees / patches to evaluate (e.g. neut_13 or neut_13/02)")
        with ThreadPoolExecutor(16) as ex:
            res = list(ex.map(run_check, [(p, wt) for p in PIDS]))
        subprocess.run(["git", "-C", wt, "checkout", "-q", "--", "."])
        bad = [(p, c, l) for p, c, l in res if c != 0]
        print(tag, "OK" if not bad else "ALARMS")
        for p, c, l in bad:
            print("   ", p, "exit", c)
            for x in l:
                print("        ", x[:400])
