#!/bin/bash
# dev helper: ./tools_seed_r6.sh C19 [siblings]  -> renames SEED/a,b to k,l, validates + archives both, prints who detects
pid=$1; shift
d=/tmp/seed_$pid/SEED
[ -d $d/a ] && mv $d/a $d/k; [ -d $d/b ] && mv $d/b $d/l
export NRFSA_EVIDENCE_DIR=/tmp/seed_evidence
for w in k l; do
  /verif/tools_seed_keep.py $pid $w "$@" 2>&1 | grep -v WARN
  /venv/bin/python - <<PY 2>&1 | grep -v WARN
import json
m=json.load(open('/verif/seeded/$pid-$w/meta.json')); m['round']=6
json.dump(m,open('/verif/seeded/$pid-$w/meta.json','w'),indent=1)
for p,d in m['checks_run'].items(): print('  ',p,d['exit'],d['first_report'][:300])
PY
done
