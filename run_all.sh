#!/bin/bash
# runs the quick command of every claimed property; prints one line each
cd /verif
for p in $(/venv/bin/python -c "import json;print(' '.join(c['property_id'] for c in json.load(open('MANIFEST.json'))['checks']))"); do
  out=$(./check $p --tier ${1:-quick} 2>&1); code=$?
  echo "$(echo "$out" | tail -1) exit=$code"
done
