#!/venv/bin/python
"""dev helper: prints the markdown table of seeded changes (from seeded/*/meta.json) for DESIGN.md section 10.5"""
import json, glob, os, re
rows = []
for d in sorted(glob.glob("/verif/seeded/*/meta.json")):
    m = json.load(open(d))
    name = os.path.basename(os.path.dirname(d))
    rules = []
    for p, c in m.get("checks_run", {}).items():
        r = re.search(r"\[(R[0-9.]+)\]", c.get("first_report", ""))
        if c["exit"] == 1:
            rules.append("%s (%s)" % (p, r.group(1) if r else "?"))
    s = " ".join(m.get("summary", "").split())
    if len(s) > 230:
        s = s[:227] + "..."
    s = s.replace("|", "\\|")
    hist = m.get("strengthened", "")
    rows.append("| %s | %s | %s | %s |" % (name, s, ", ".join(rules) or "**missed**", hist.replace("|", "\\|")))
print("| seed | change | caught by (first rule reporting) | strengthening needed |")
print("|---|---|---|---|")
print("\n".join(rows))
