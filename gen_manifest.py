#!/venv/bin/python
"""regenerates /verif/MANIFEST.json from the table below (keeps it valid at all times)"""
import json
import os

HERE = os.path.dirname(os.path.abspath(__file__))
NOTE = ("Trusted base: python's ast module, the nrfsa analyser in /verif/nrfsa and its oracle tables (nRF24L01+ datasheet register map, "
        "docs/ contract, TMRh20 wire constants, BLE constants). Assumptions: closed world (no getattr/eval/lambda/**kwargs - re-checked "
        "every run); the radio stores what is written and returns STATUS in MISO byte 0; little-endian targets; private methods are not "
        "overridden by users; address_prefix/suffix keep their documented shapes. Static analysis only: no repository code is imported "
        "or executed, no solver is used. Clauses that quantify over the air, a second node, the silicon or numerical results are declined "
        "(listed in coverage.not_decided of the evidence file).")

CLAIMS = {
    "C03": dict(
        technique="path-sensitive abstract interpretation (known-bits domain with per-bit provenance) of every configuration method from a symbolic inductive invariant; comparison with a datasheet/docs reference model",
        text="Decides, for every configuration method of rf24.RF24 and for all register contents (symbolic), that the method preserves the "
             "invariant 'shadow == register, reserved bits 0, legal field values', writes exactly the documented encoding into exactly the bits "
             "the attribute owns, rejects/clamps out-of-domain arguments as documented, and that getters decode the inverse. By induction over "
             "methods this covers every call sequence, which no finite test sequence can. Argument values are table-driven (domain, boundary, "
             "beyond); the clause 'the silicon stores what is written' is assumed.",
        ref="DESIGN.md section 5 C03"),
    "C01": dict(
        technique="abstract interpretation of write()/send()/read() with symbolic buffer length (guard regions, linear length forms, alias tracking), SPI framing analysis of the primitives",
        text="Decides the clauses of C01 that are visible in the driver's code for all payload lengths and buffer types: the region of lengths that "
             "reaches W_TX_PAYLOAD under dynamic payloads is exactly [1,32] and every other length raises ValueError before any SPI/CE effect; with "
             "static payloads the loaded value has exactly the configured length and is buf, buf+zeros or buf[:P]; no public method mutates a caller's "
             "buffer in place; command bytes, flag clearing, CE pulse, SPI framing, read() protocol, list handling. Delivery on air (exactly once, "
             "in order, pipe attribution) needs two radios and is declined. The same rules are applied to the sibling driver rf24_lite.RF24, and the "
             "rules of the layers the clauses rest on are re-run (cached configuration R03.x, pipe-0 discipline R08.x, `with` restore R09.1/2, status accessors R10.x).",
        ref="DESIGN.md section 5 C01, section 10.5 rounds 6-7"),
    "C02": dict(
        technique="path-sensitive abstract interpretation with a fresh symbolic STATUS byte per SPI transaction (bit roles by (transaction, bit)), exhaustive over the 128 cached STATUS values for the prologue, typestate on flag freshness",
        text="Decides which STATUS bit of which SPI transaction controls every decision of send()/resend() on all paths: wait-loop mask, result bit, "
             "ACK-payload fetch guard, flush prologue for every cached STATUS value, force-retry loop bound and argument passing, resend() "
             "preconditions/ordering, RX_P_NO isolation, and that no flag is tested in the STATUS byte clocked out by the write that clears it. "
             "Truth of the result with respect to the air and the wall-clock bound depend on the silicon and are declined. The same rules are applied to "
             "the sibling driver rf24_lite.RF24; the pipe-0 appropriation rules R08.x (the auto-ack is heard on pipe 0) are re-run.",
        ref="DESIGN.md section 5 C02, section 10.5 rounds 6-7"),
    "C08": dict(
        technique="inductive per-method abstract interpretation over pinned combinations of user pipe-0 address / RX_ADDR_P0 content / EN_RXADDR.0 / EN_AA.0; writer whitelist for the user-address field and the CE pin",
        text="Decides for every previous content of RX_ADDR_P0 and every user pipe-0 state that RX entry restores the user's address or closes pipe 0, "
             "that open_tx_pipe programs TX_ADDR and (with auto-ack on pipe 0) RX_ADDR_P0, CE ordering around the CONFIG write, TX entry opening "
             "pipe 0, and who may store the user's address or drive CE. Each method preserves these facts, so they hold for every call sequence. "
             "Probe-packet observations need a peer and are declined.",
        ref="DESIGN.md section 5 C08"),
    "C09": dict(
        technique="abstract interpretation of __enter__/__exit__ with unconstrained register contents against the shadow<->register pairing; constructor base case; delegation and shared-state scans",
        text="Decides that, whatever another object left in the radio, __enter__ writes every configuration register of the datasheet table with "
             "exactly the value its shadow stands for (PWR_UP forced on), that __exit__ powers down with CE low and swallows nothing, that every "
             "wrapper/subclass context manager reaches the same effects, that constructors establish shadow == register, and that no class- or "
             "module-level mutable object carries configuration. With C03 (setters keep shadows current) this gives the property for every "
             "interleaving of blocks.",
        ref="DESIGN.md section 5 C09"),
    "C10": dict(
        technique="abstract interpretation of each accessor with STATUS (all 128 values) / FIFO_STATUS / OBSERVE_TX pinned, compared with the datasheet decode table; bit-dependence check of pipe-number tests",
        text="Decides that every status/FIFO accessor decodes exactly the datasheet's bits for every STATUS / FIFO_STATUS value, that clear_status_flags, "
             "read, flush_rx/tx, update and interrupt_config issue exactly the documented register values/commands for all argument combinations, and "
             "that every pipe-number test depends on RX_P_NO only. Agreement with the real FIFO contents after traffic is silicon behaviour and declined.",
        ref="DESIGN.md section 5 C10"),
    "C20": dict(
        technique="the C01/C02/C03/C08/C10 analyses re-targeted at rf24_lite.RF24 with one shared oracle (sibling agreement) plus guard-region analysis of load_ack()",
        text="Applies the rule sets of C01, C02, C03, C08 and C10 to the lite driver (which no test imports) with the same datasheet/docs reference "
             "tables restricted to the documented reductions, and decides that load_ack() reaches W_ACK_PAYLOAD exactly for len in [1,32] and pipe in "
             "[0,5] and otherwise leaves the radio untouched. On-air interoperation is declined.",
        ref="DESIGN.md section 5 C20"),
    "C06": dict(
        technique="path-condition analysis of FrameQueueFrag.enqueue by abstract interpretation with a symbolic cache and fragment; re-analysis from completed states",
        text="Decides necessary conditions of C06 for all fragment field values: bytes are spliced/delivered only on paths whose condition contains "
             "equality of origin and frame id with the cache and the counter relation 'previous - 1' (LAST: the cached counter must decide); no "
             "sentinel test that cannot fail; after a completed message no fragment can be spliced or delivered again (re-analysis from the completed "
             "abstract state); cache and queue hold decoded copies; delivered type and byte order. One genuine defect is recorded as a known finding "
             "(LAST fragment exempt from sequencing). Enumeration of delivery histories is a different family and is declined.",
        ref="DESIGN.md section 5 C06"),
    "C07": dict(
        technique="interprocedural typestate by path-sensitive abstract interpretation with state merging; verified assume/guarantee summaries for send/resend/read, _write, _net_update, _begin; call-graph discovery of entry points",
        text="Decides that every normal return of every public network/mesh entry point (discovered from the call graph of the four concrete classes) "
             "leaves the abstract radio listening: PRIM_RX and PWR_UP set, CE high, EN_AA=0x3E, six pipes open, dynamic payloads on, RX_ADDR_P0 equal to "
             "the remembered own pipe-0 address - over every combination of failed hop, fragment abort, NETWORK_ACK emit/wait/timeout, loop-back, "
             "multicast and forwarding, because those are branches of the analysed code. Exits by exception are out of the statement.",
        ref="DESIGN.md section 5 C07"),
    "C12": dict(
        technique="classification of every use of the queue storage + abstract interpretation of enqueue/dequeue/peek/move constructors on symbolic queues (capacity grid, path atoms, allocation identity)",
        text="Decides FIFO discipline (who may append/pop/index the storage list, anywhere in the package), private copies (allocation identity and "
             "provenance of the stored object), duplicate suppression atoms, the capacity guard on the exact max x len grid for order comparisons, "
             "return value <=> stored, and order/capacity preservation of the move constructors and the fragmentation setter.",
        ref="DESIGN.md section 5 C12"),
    "C04": dict(
        technique="abstract interpretation of the routing arithmetic with a symbolic 12-bit address carrying per-bit provenance; syntactic who-translates check",
        text="Decides the structural clauses of C04 for all addresses at once: _begin's paths are exactly the five digit counts and on each the masks, "
             "parent (address without top digit), parent pipe (top digit) and level are read off bit by bit; _logi_2_phys picks pipe 0 / pipe 5 / the "
             "parent pipe and cuts the destination after exactly one more digit, with bit-aligned comparisons; one logical->physical translator feeds "
             "every address programmed into the radio; the pipes of a node share bytes 1-4 and differ in byte 0; table bytes distinct. All-pairs "
             "reachability within 8 hops and global uniqueness of the 781x6 physical addresses are arithmetic facts over runtime values and are declined.",
        ref="DESIGN.md section 5 C04"),
    "C05": dict(
        technique="abstract interpretation with linear length algebra and guard regions (frame size, validation gate) and path-condition analysis of the receive dispatch",
        text="Decides, inside one node, that every frame handed to the radio is at most 32 bytes and starts with the packed header, that "
             "_validate_msg_len has exactly the documented raise/False/True regions and gates every public sender (with fragmentation off at most the "
             "first 24 bytes are sent), and that a received frame is queued only on paths establishing to_node == own address or == 0o100, after both "
             "address validations, at most once, while frames for other nodes are forwarded and not queued. Delivery over a topology is declined.",
        ref="DESIGN.md section 5 C05"),
    "C11": dict(
        technique="abstract interpretation of header pack/unpack with unconstrained fields (format, argument provenance, guard region) and of the fragment loop for lengths around every boundary; constant table comparison",
        text="Decides the wire format for all field values: HHHBB without big-endian prefix, argument i depends on exactly TMRh20 field i and is masked "
             "into its code's range, unpack stores value i into field i from buffer[0:8], refuses exactly lengths 0..7, sizes coherent (8 = 32 - 24); "
             "frame = header + unmodified message; 30 protocol constants equal TMRh20's; for message lengths around every fragment boundary every "
             "emitted radio payload is checked (count, first/more/last, reserved countdown with type in the last, shared id, contiguous 24-byte "
             "partition, <= 32 bytes, type restored on every exit incl. abort). Running a reference reassembler is declined.",
        ref="DESIGN.md section 5 C11"),
    "C13": dict(
        technique="exhaustive abstract evaluation of is_ack_type over all 256 types; path-condition analysis of _write by value identity for emit/wait paths over types x send types",
        text="Decides that acknowledged types are exactly 65..191, that a NETWORK_ACK is emitted only on paths establishing success of the first "
             "transmission, an acknowledged type, next hop == destination and origin != self - exactly once, addressed to the origin, routed by a second "
             "next-hop computation, only for TX_ROUTED; that a NETWORK_ACK is awaited only when next hop != destination, only by the origin's routed "
             "write, and the wait ends only on a received NETWORK_ACK (True) or a clock test derived from route_timeout (False); that a received "
             "NETWORK_ACK is returned and never queued. Arrival on air and the wall-clock bound are declined.",
        ref="DESIGN.md section 5 C13"),
    "C14": dict(
        technique="abstract interpretation of multicast()/multicast_level over the level domain, of the multicast receive branch over its configuration space, of the EN_AA register at every radio send, and bit-provenance dependence analysis of _pipe_address",
        text="Decides the level clamp agreement (0..4, own level by default) between multicast() and the multicast_level setter, that multicast frames "
             "are sent with EN_AA.0 = 0 on a pipe-0 address, that a received multicast is queued once and re-broadcast exactly once to (level "
             "address << 3) iff relay, that polls are answered at most once, physically, never queued and never by an unconnected node, and that the "
             "shared pipe-0 address depends on the node address only through its digit count while ordinary addresses depend digit-wise. Which nodes "
             "actually receive is declined.",
        ref="DESIGN.md section 5 C14"),
    "C15": dict(
        technique="exception-escape analysis: compositional abstract interpretation of update() x node classes on an arbitrary payload with collected raise-capable sites discharged by abstract values/guard facts/frozen table; validator grammar from a symbolic 16-bit run; loop variant classification",
        text="Decides that no subscript, struct.pack/unpack, bytes([..]) or raise reachable from update() of the four node classes can fire for an "
             "arbitrary received payload (sites are discharged by value ranges and guard facts; three index sites into the 6-byte suffix table are "
             "frozen with reasons tied to the validator grammar), that the validator accepts exactly 0, the three reserved addresses and 1-4 octal digits "
             "each in 1..5 (derived from its code for all 65536 values at once), that the translator cannot raise for any admitted address, that both "
             "validations dominate queueing/forwarding, and that every reachable loop has a bounded variant.",
        ref="DESIGN.md section 5 C15"),
    "C16": dict(
        technique="abstract interpretation of the allocator with a symbolic lease table (dict iteration on fresh (ID, address) symbols): candidate enumeration per relay, path atoms by value role, writer/reader agreement of the persistence formats",
        text="Decides the structure of the master's allocator: the candidates handed to set_address for direct and relayed requests are exactly the "
             "relay's children (digit 5/4..1, descending), never 0 or 0o4444; an address is leased only after the scan of the table ran to exhaustion "
             "and every scanned entry is excluded by 'other address' or 'same ID'; one lease per request keyed by ID; the reply (type, destination, "
             "reserved = ID, payload = '<H' of the leased address, physical vs routed); no iteration continues after the table was modified; binary "
             "and JSON persistence writer/reader agreement; release deletes exactly the matching entry; update() arms the allocator only for requests "
             "carrying an ID. Enumeration of request/release histories is declined.",
        ref="DESIGN.md section 5 C16"),
    "C17": dict(
        technique="abstract interpretation of the lookup/join API with scripted update() summaries: return-code table, writer/reader agreement of the four lookup wire formats, clock-exit analysis of the blocking loops",
        text="Decides that lookup_address/lookup_node_id of both mesh classes return the documented constants on the documented paths, ask the master "
             "exactly once, that the master answers exactly once from the right table column or with -2, that the four request/reply formats agree "
             "end to end and can carry -2 and -1, that renew_address / lookups / mesh send end through their clock tests with None / -1 / False and "
             "never raise when nobody answers, and the release_address / check_connection constants. Join success and address distinctness across "
             "nodes need multi-node schedules and are declined.",
        ref="DESIGN.md section 5 C17"),
    "C18": dict(
        technique="linear length algebra and part-provenance of the assembled packet (symbolic name/payload lengths), guard region of the ValueError, paired-update analysis of (whitening index, RF_CH) over all methods that tune the radio",
        text="Decides for all name/payload lengths that the assembled length is 2+6+3+3[pa]+(N+2)[name]+P+3, that ValueError is raised exactly when it "
             "exceeds 32 (before anything reaches the radio), that len_available() == 32 - total identically, the field order and AD constants, CRC "
             "coverage, the order CRC -> whiten -> bit-reverse -> send, and that after hop_channel(), every `channel = x` and construction the tuned "
             "frequency is BLE_FREQ[whitening index] with seed (37+index)|0x40. The numerics of CRC-24 / whitening / bit reversal are declined.",
        ref="DESIGN.md section 5 C18"),
    "C19": dict(
        technique="exception-escape analysis of FakeBLE.available() on 32 arbitrary bytes (collected raise-capable sites discharged by guard facts), dominance of length/CRC tests, encoder/decoder offset and signedness agreement, queue discipline scan",
        text="Decides that no subscript, struct.unpack or conversion reachable from available() can raise for any 32 received bytes, that decoding and "
             "queueing are dominated by end < 30 and a successful CRC comparison, that the decoder takes UUID/data/TX power from the offsets the "
             "encoders write them to, that a truncated two's-complement value is sign-extended by its decoder, and that rx_queue is tail-appended only "
             "by available() and head-consumed only by read(). Value round trips and bit-flip enumeration are declined.",
        ref="DESIGN.md section 5 C19"),
}

NOT_APPLICABLE_REASON = "check not built yet (build in progress, see DESIGN.md section 9)"


def main():
    props = [json.loads(l) for l in open(os.path.join(HERE, "properties.jsonl"))]
    checks = []
    for p in props:
        pid = p["id"]
        if pid not in CLAIMS:
            continue
        c = CLAIMS[pid]
        checks.append({
            "property_id": pid,
            "quick_cmd": "./check %s --tier quick" % pid,
            "thorough_cmd": "./check %s --tier thorough" % pid,
            "evidence_file": "/verif/evidence/%s.json" % pid,
            "replay_cmd_template": "./check %s --explain {path}" % pid,
            "engine": "nrfsa",
            "level_claimed": {"category": "other", "text": c["text"] + " The check also re-runs the rules of the layers below that this property relies on (listed with the rules added after the seeding rounds in DESIGN.md 10.2 and 10.5); what each run covered is in the evidence file.", "design_ref": c["ref"] + "; section 10.2, 10.5"},
            "level_note": NOTE,
            "technique": c["technique"],
        })
    m = {
        "version": 1,
        "setup_cmd": "true",
        "hooks": {
            "guard": "NRF24_CIRCUITPYTHON_NRF24L01_VERIF",
            "enable": "none needed: the checks only parse /repo sources; no instrumentation exists in /repo",
            "baseline_off_cmd": "cd /repo && /venv/bin/python -m pytest -ra -q -p no:cacheprovider --timeout=900 --continue-on-collection-errors",
            "source_commits": [],
            "add_only": True,
        },
        "engines": [{"name": "nrfsa", "path": "/verif/nrfsa", "serves_properties": sorted(CLAIMS),
                     "kind_free_text": "repository-specific static analyser (python ast only): resolved program model, path-sensitive abstract "
                                       "interpreter (known-bits with provenance, intervals, linear length forms), SPI/CE effect model, guard regions, "
                                       "typestate, exception-site discharge, oracle tables"}],
        "checks": checks,
        "notes": "Every check: exit 0 held / only KNOWN-FINDING lines; exit 1 with VIOLATION lines; exit 2 ANALYSIS-ERROR (analyser could not do its job - never a verdict).",
        "not_applicable": [{"property_id": p["id"], "reason": NOT_APPLICABLE_REASON} for p in props if p["id"] not in CLAIMS],
    }
    with open(os.path.join(HERE, "MANIFEST.json"), "w") as fh:
        json.dump(m, fh, indent=1)


if __name__ == "__main__":
    main()
