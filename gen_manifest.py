#!/venv/bin/python
"""regenerates /verif/MANIFEST.json from the table below (keeps it valid at all times)"""
import json
import os

HERE = os.path.dirname(os.path.abspath(__file__))
NOTE = ("Trusted base: python's ast module, the nrfsa analyser in /verif/nrfsa and its oracle tables (nRF24L01+ datasheet register map, "
        "docs/ contract, TMRh20 wire constants, BLE constants). Assumptions: closed world (no getattr/eval/lambda/**kwargs - re-checked "
        "every run); the radio stores what is written and returns STATUS in MISO byte 0; little-endian targets; private methods are not "
        "overridden by users; address_prefix/suffix keep their documented shapes. Static analysis only: no repository code is imported "
        "or executed, no solver is used. Clauses that quantify over the air, a second node, the silicon or numerical results are declined "
        "(listed in coverage.not_decided of the evidence file).")

CLAIMS = {
    "C03": dict(
        technique="path-sensitive abstract interpretation (known-bits domain with per-bit provenance) of every configuration method from a symbolic inductive invariant; comparison with a datasheet/docs reference model",
        text="Decides, for every configuration method of rf24.RF24 and for all register contents (symbolic), that the method preserves the "
             "invariant 'shadow == register, reserved bits 0, legal field values', writes exactly the documented encoding into exactly the bits "
             "the attribute owns, rejects/clamps out-of-domain arguments as documented, and that getters decode the inverse. By induction over "
             "methods this covers every call sequence, which no finite test sequence can. Argument values are table-driven (domain, boundary, "
             "beyond); the clause 'the silicon stores what is written' is assumed.",
        ref="DESIGN.md section 5 C03"),
}

NOT_APPLICABLE_REASON = "check not built yet (build in progress, see DESIGN.md section 9)"


def main():
    props = [json.loads(l) for l in open(os.path.join(HERE, "properties.jsonl"))]
    checks = []
    for p in props:
        pid = p["id"]
        if pid not in CLAIMS:
            continue
        c = CLAIMS[pid]
        checks.append({
            "property_id": pid,
            "quick_cmd": "./check %s --tier quick" % pid,
            "thorough_cmd": "./check %s --tier thorough" % pid,
            "evidence_file": "/verif/evidence/%s.json" % pid,
            "replay_cmd_template": "./check %s --explain {path}" % pid,
            "engine": "nrfsa",
            "level_claimed": {"category": "other", "text": c["text"], "design_ref": c["ref"]},
            "level_note": NOTE,
            "technique": c["technique"],
        })
    m = {
        "version": 1,
        "setup_cmd": "true",
        "hooks": {
            "guard": "NRF24_CIRCUITPYTHON_NRF24L01_VERIF",
            "enable": "none needed: the checks only parse /repo sources; no instrumentation exists in /repo",
            "baseline_off_cmd": "cd /repo && /venv/bin/python -m pytest -ra -q -p no:cacheprovider --timeout=900 --continue-on-collection-errors",
            "source_commits": [],
            "add_only": True,
        },
        "engines": [{"name": "nrfsa", "path": "/verif/nrfsa", "serves_properties": sorted(CLAIMS),
                     "kind_free_text": "repository-specific static analyser (python ast only): resolved program model, path-sensitive abstract "
                                       "interpreter (known-bits with provenance, intervals, linear length forms), SPI/CE effect model, guard regions, "
                                       "typestate, exception-site discharge, oracle tables"}],
        "checks": checks,
        "notes": "Every check: exit 0 held / only KNOWN-FINDING lines; exit 1 with VIOLATION lines; exit 2 ANALYSIS-ERROR (analyser could not do its job - never a verdict).",
        "not_applicable": [{"property_id": p["id"], "reason": NOT_APPLICABLE_REASON} for p in props if p["id"] not in CLAIMS],
    }
    with open(os.path.join(HERE, "MANIFEST.json"), "w") as fh:
        json.dump(m, fh, indent=1)


if __name__ == "__main__":
    main()
