#!/venv/bin/python
"""dev helper: turns selftest_src/m*.sh (ad-hoc mutant commands) into selftest_data/Cxx.json, recording for each variant
the rule that reports it today (armed) or that it is silent (neutral twin)."""
import glob, json, shlex, sys, os, importlib
sys.path.insert(0, "/verif")
from nrfsa import selftest, report
from nrfsa.model import Program
import multiprocessing as mp

def job(args):
    pid, v = args
    mod = importlib.import_module("nrfsa.rules." + pid.lower())
    return selftest._one(("/repo", mod.__name__, pid, v))

def main():
    only = sys.argv[1:]
    os.makedirs("/verif/selftest_data", exist_ok=True)
    for path in sorted(glob.glob("/verif/selftest_src/m*.sh")):
        toks = shlex.split(open(path).read())
        cmds, cur = [], []
        for t in toks:
            if t == "./tools_mut.py":
                if cur:
                    cmds.append(cur)
                cur = []
            else:
                cur.append(t)
        if cur:
            cmds.append(cur)
        pid = cmds[0][0]
        if only and pid not in only:
            continue
        mod = importlib.import_module("nrfsa.rules." + pid.lower())
        ck0 = report.Checker(pid, Program("/repo"), "quick", "/repo"); mod.run(ck0)
        base = {o.rule + " " + o.func + " :: " + o.construct for o in ck0.obls if not o.ok}
        variants = []
        for k, c in enumerate(cmds):
            v = {"name": "%s-m%02d" % (pid, k), "file": c[1], "old": c[2], "new": c[3]}
            if len(c) > 4:
                v["nth"] = int(c[4])
            variants.append(v)
        with mp.get_context("fork").Pool(min(16, len(variants))) as pool:
            res = pool.map(job, [(pid, v) for v in variants])
        out = []
        for v, (name, status, fails) in zip(variants, res):
            new = sorted({f.split(" ")[0] for f in fails if f not in base})
            if status == "skipped":
                print("SKIPPED (anchor text not found):", name, repr(v["old"][:50]))
                continue
            v["expect"] = new[0] if new else None
            if status == "error":
                v["expect"], v["error_ok"] = "ERR", True
            v["kind"] = "armed" if v["expect"] else "neutral"
            out.append(v)
        json.dump(out, open("/verif/selftest_data/%s.json" % pid, "w"), indent=1)
        print(pid, "armed", sum(1 for v in out if v["expect"]), "neutral", sum(1 for v in out if not v["expect"]))

main()
