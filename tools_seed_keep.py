#!/venv/bin/python
"""dev helper: archive a validated seeded change under /verif/seeded/<id>/ (patch.diff, demo.py, meta.json)"""
import json, os, shutil, subprocess, sys
pid, which = sys.argv[1], sys.argv[2]
extra = sys.argv[3:]
src = "/tmp/seed_%s/SEED/%s" % (pid, which)
out = subprocess.run(["/verif/tools_seed_eval.py", pid, which] + extra, capture_output=True, text=True).stdout
ev = json.loads(out[out.index("{"):])
if not ev["valid"]:
    print("NOT VALID", pid, which, ev)
    sys.exit(1)
name = "%s-%s" % (pid, which)
dst = "/verif/seeded/%s" % name
os.makedirs(dst, exist_ok=True)
shutil.copy(src + "/patch.diff", dst + "/patch.diff")
shutil.copy(src + "/demo.py", dst + "/demo.py")
meta = json.load(open(src + "/meta.json"))
meta["origin"] = "written by an independent sub-agent that saw only the property text and a scratch worktree (no access to /verif)"
meta["validated"] = {
    "how": "scratch worktree of /repo HEAD: demo on the clean tree, `git apply patch.diff`, full suite, demo again, `git checkout`",
    "suite_with_change": ev["suite"], "demo_exit_clean": ev["demo_clean_exit"], "demo_exit_with_change": ev["demo_patched_exit"],
    "demo_output_with_change": ev["demo_patched_tail"],
}
meta["checks_run"] = {p: {"cmd": "./check %s --root <scratch worktree with the patch>" % p, "exit": d["exit"], "first_report": (d["reports"] or [""])[0]} for p, d in ev["checks"].items()}
meta["detected_by"] = [p for p, d in ev["checks"].items() if d["exit"] == 1]
if os.path.exists(dst + "/meta.json"):
    prev = json.load(open(dst + "/meta.json"))
    for k in ("checks_before_seeding", "strengthened"):
        if k in prev:
            meta[k] = prev[k]
json.dump(meta, open(dst + "/meta.json", "w"), indent=1)
print(name, "kept; detected by", meta["detected_by"])
