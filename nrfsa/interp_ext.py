"""models of builtins / stdlib calls / methods of builtin containers"""
import ast
from .absval import (V, Const, Unknown, Sym, Seq, BitV, Lin, Bytes, as_bitv, as_lin, const_of, norm,
                     from_int, interval, with_range, lin_add, lin_norm, lin_scale, bv_and, NBITS, term_deps)
from .interp import Ref, Raised, path_text
from .interp_expr import deps_of, ty_of

STRUCT_CODES = {  # code -> (size, lo, hi)   (standard sizes; native == standard for these on supported targets)
    "x": (1, None, None), "b": (1, -128, 127), "B": (1, 0, 255), "h": (2, -32768, 32767), "H": (2, 0, 65535),
    "i": (4, -2 ** 31, 2 ** 31 - 1), "I": (4, 0, 2 ** 32 - 1), "l": (4, -2 ** 31, 2 ** 31 - 1), "L": (4, 0, 2 ** 32 - 1),
    "q": (8, -2 ** 63, 2 ** 63 - 1), "Q": (8, 0, 2 ** 64 - 1), "?": (1, 0, 1), "c": (1, None, None),
}


def parse_fmt(fmt):
    """-> (byteorder char or '', [codes])  or None if not understood"""
    order = ""
    if fmt and fmt[0] in "<>=!@":
        order, fmt = fmt[0], fmt[1:]
    codes, num = [], ""
    for ch in fmt:
        if ch.isdigit():
            num += ch
            continue
        if ch.isspace():
            continue
        if ch not in STRUCT_CODES:
            return None
        codes.extend([ch] * (int(num) if num else 1))
        num = ""
    return order, codes


def fmt_size(fmt):
    p = parse_fmt(fmt)
    if p is None:
        return None
    order, codes = p
    if order in ("", "@"):
        # native alignment: emulate C struct padding
        off = 0
        for c in codes:
            sz = STRUCT_CODES[c][0]
            if off % sz:
                off += sz - off % sz
            off += sz
        return off
    return sum(STRUCT_CODES[c][0] for c in codes)


EXC_NAMES = {"TypeError", "ValueError", "IndexError", "RuntimeError", "AttributeError", "NotImplementedError",
             "OSError", "KeyError", "Exception", "UnicodeError", "AssertionError"}


class ExtMixin:
    def mk_len(self, v, st, fr, node):
        ln = self.length_of(v, st)
        if ln is not None:
            return norm(ln)
        v = norm(v)
        if isinstance(v, Ref) and v.kind == "obj" and v.cls is not None:
            hit = v.cls.lookup("__len__")
            if hit and hit[0] == "method":
                return ("call", hit[1], v)
        if isinstance(v, Ref) and v.kind in ("list", "dict", "set", "bytearray"):
            nm = ("len", v.label or v.ident)
            rngs = dict(st.extra.get("symrng", {}))
            rngs.setdefault(nm, (0, None))
            st.extra["symrng"] = rngs
            return Sym(nm, "int", rng=(0, None))
        if isinstance(v, (Sym, Unknown)):
            nm = ("len", getattr(v, "name", st.fresh_name("anon")))
            rngs = dict(st.extra.get("symrng", {}))
            rngs.setdefault(nm, (0, None))
            st.extra["symrng"] = rngs
            return Sym(nm, "int", rng=(0, None))
        return Unknown(ty="int", why="len")

    def to_bool_value(self, v, st, fr):
        v = norm(v)
        t = self.truth(v, st, fr)
        if t is not None:
            return Const(bool(t))
        b = as_bitv(v)
        if b is None and isinstance(v, Sym) and v.ty == "bool":
            return v
        if b is not None:
            live = [x for x in b.bits + (b.hi,) if x != 0]
            if len(live) == 1:
                return BitV((live[0],) + (0,) * (NBITS - 1), 0, (0, 1))
            d = set()
            for x in live:
                d |= term_deps(x)
            return BitV((("m", frozenset(d)),) + (0,) * (NBITS - 1), 0, (0, 1))
        if isinstance(v, Sym):
            return BitV((("s", (v.name, "t"), False),) + (0,) * (NBITS - 1), 0, (0, 1))
        d = deps_of(v) or {("unknown",)}
        return BitV((("m", frozenset(d)),) + (0,) * (NBITS - 1), 0, (0, 1))

    def minmax(self, is_min, a, b, st):
        a, b = norm(a), norm(b)
        ca, cb = const_of(a), const_of(b)
        if ca is not None and cb is not None:
            return Const(min(ca, cb) if is_min else max(ca, cb))
        la, lb = as_lin(a), as_lin(b)
        if la is not None and lb is not None:
            sgn = self.lin_sign(lin_add(la, lb, -1), st)  # a - b
            if sgn in (">0", ">=0", "==0"):
                return lin_norm(lb if is_min else la)
            if sgn in ("<0", "<=0"):
                return lin_norm(la if is_min else lb)
        ia, ib = interval(a), interval(b)
        lo = hi = None
        if ia and ib and None not in ia and None not in ib:
            if ia[1] <= ib[0]:
                return a if is_min else b
            if ib[1] <= ia[0]:
                return b if is_min else a
        if ia and ib:
            f = min if is_min else max
            if is_min:
                hi = min([x for x in (ia[1], ib[1]) if x is not None], default=None)
                lo = f(ia[0], ib[0]) if ia[0] is not None and ib[0] is not None else None
            else:
                lo = max([x for x in (ia[0], ib[0]) if x is not None], default=None)
                hi = f(ia[1], ib[1]) if ia[1] is not None and ib[1] is not None else None
        elif ia or ib:
            one = ia or ib
            if is_min:
                hi = one[1]
            else:
                lo = one[0]
        nm = st.fresh_name("min" if is_min else "max")
        rngs = dict(st.extra.get("symrng", {}))
        rngs[nm] = (lo, hi)
        st.extra["symrng"] = rngs
        st.extra.setdefault("clamps", {})
        cl = dict(st.extra["clamps"])
        cl[nm] = ("min" if is_min else "max", a, b)
        st.extra["clamps"] = cl
        return Sym(nm, "int", rng=(lo, hi), deps=frozenset(deps_of(a) | deps_of(b)), clamp=("min" if is_min else "max", a, b))

    # ------------------------------------------------------------------ calls
    def ext_call(self, name, args, kw, st, fr, node):
        a = [norm(x) for x in args]
        R = lambda v: [(st, v)]  # noqa: E731
        if name == "const" and a:
            return R(a[0])
        if name == "len" and len(a) == 1:
            ln = self.mk_len(a[0], st, fr, node)
            if isinstance(ln, tuple):
                return self.call_func(st, fr, node, ln[1], ln[2].cls, ln[2], [], {})
            return R(ln)
        if name == "bool":
            if not a:
                return R(Const(False))
            if isinstance(a[0], Ref) and a[0].kind == "obj" and a[0].cls is not None and a[0].cls.lookup("__len__"):
                hit = a[0].cls.lookup("__len__")
                res = []
                for s, v in self.call_func(st, fr, node, hit[1], a[0].cls, a[0], [], {}):
                    res.append((s, v if isinstance(v, Raised) else self.to_bool_value(v, s, fr)))
                return res
            v0 = norm(a[0])
            if isinstance(v0, Unknown) and v0.ty == "bool":
                return R(v0)
            bv = self.to_bool_value(a[0], st, fr)
            if isinstance(bv, BitV) and isinstance(bv.bits[0], tuple) and bv.bits[0][0] == "m" and node.args and \
                    (isinstance(v0, (BitV, Lin)) or (isinstance(v0, Sym) and v0.ty == "int")):
                # bool(x) of a multi-bit unknown: the boolean *is* the comparison x != 0, decided when it is branched on
                synth = ast.Compare(left=node.args[0], ops=[ast.NotEq()], comparators=[ast.Constant(0)])
                ast.copy_location(synth, node)
                ast.fix_missing_locations(synth)
                return R(Unknown(deps_of(v0), ty="bool", cmp=(synth, (v0, Const(0)), False, fr.fid)))
            return R(bv)
        if name == "int":
            if not a:
                return R(Const(0))
            v = a[0]
            if isinstance(v, Const):
                try:
                    return R(Const(int(v.v)))
                except Exception:
                    self.event(st, fr, "mayraise", node, ("int()", v))
                    return R(Unknown(ty="int"))
            if isinstance(v, (BitV, Lin)) or (isinstance(v, Sym) and v.ty in ("int", "bool")):
                return R(v)
            if ty_of(v) == "float":
                if isinstance(v, Sym) and (v.name in st.extra.get("affine", {}) or v.ty == "float"):
                    # int(base * k + c): the truncated value remembers what it was computed from
                    base, k, off, conv = st.extra.get("affine", {}).get(v.name, (v.name, 1.0, 0.0, ()))
                    nm = st.fresh_name("affine")
                    reg = dict(st.extra.get("affine", {}))
                    reg[nm] = (base, k, off, conv + ("int",))
                    st.extra["affine"] = reg
                    return R(Sym(nm, "int", deps=frozenset(deps_of(v)) | {v.name}))
                return R(Unknown(deps_of(v), ty="int"))
            if ty_of(v) not in ("int", "bool", "float"):
                self.event(st, fr, "mayraise", node, ("int()", v))
            if isinstance(v, Sym):
                # int(x) of a number-like parameter keeps the identity of x for region reasoning
                return R(Sym(v.name, "int", **{k: w for k, w in v.attrs.items() if k in ("rng", "deps")}))
            return R(Unknown(deps_of(v), ty="int"))
        if name == "sum" and len(args) >= 1:
            items = self.seq_items(args[0], st)
            if items is not None:
                acc = a[1] if len(a) > 1 else Const(0)
                for it_ in items:
                    acc = self.binop(ast.Add(), norm(acc), norm(it_), st, fr, node)
                    if isinstance(acc, Raised):
                        break
                return R(acc)
        if name == "round" and len(a) == 1:
            v = a[0]
            if isinstance(v, Const) and isinstance(v.v, (int, float)):
                return R(Const(round(v.v)))
            if isinstance(v, (BitV, Lin)) or (isinstance(v, Sym) and v.ty in ("int", "bool")):
                return R(v)
            if isinstance(v, Sym) and (v.name in st.extra.get("affine", {}) or v.ty == "float"):
                base, k, off, conv = st.extra.get("affine", {}).get(v.name, (v.name, 1.0, 0.0, ()))
                nm = st.fresh_name("affine")
                reg = dict(st.extra.get("affine", {}))
                reg[nm] = (base, k, off, conv + ("round",))
                st.extra["affine"] = reg
                return R(Sym(nm, "int", deps=frozenset(deps_of(v)) | {v.name}))
            return R(Unknown(deps_of(v), ty="int"))
        if name == "float":
            return R(Unknown(deps_of(a[0]) if a else (), ty="float"))
        if name == "map" and len(args) == 2:
            items = self.seq_items(args[1], st)
            if items is not None:
                # eager evaluation in order (the package only consumes map() results at once)
                work = [(st, [])]
                for it_ in items:
                    nxt = []
                    for s, acc in work:
                        for s2, v in self.call_value(node, args[0], [it_], {}, s, fr):
                            if isinstance(v, Raised):
                                return [(s2, v)]
                            nxt.append((s2, acc + [v]))
                    work = nxt
                return [(s, s.alloc("list", items=acc)) for s, acc in work]
        if name in ("list", "tuple") and len(a) == 1:
            items = self.seq_items(args[0], st)
            if items is not None:
                return R(st.alloc("list", items=list(items)) if name == "list" else Seq(list(items), "tuple"))
        if name == "divmod" and len(a) == 2:
            q = self.binop(ast.FloorDiv(), a[0], a[1], st, fr, node)
            r = self.binop(ast.Mod(), a[0], a[1], st, fr, node)
            for x in (q, r):
                if isinstance(x, Raised):
                    return R(x)
            return R(Seq([q, r], "tuple"))
        if name == "abs" and a:
            c = const_of(a[0])
            if c is not None:
                return R(Const(abs(c)))
            iv = interval(a[0])
            if iv and None not in iv:
                cands = [abs(iv[0]), abs(iv[1])]
                lo = 0 if iv[0] <= 0 <= iv[1] else min(cands)
                return R(Sym(st.fresh_name("abs"), "int", rng=(lo, max(cands)), deps=frozenset(deps_of(a[0]))))
            return R(Sym(st.fresh_name("abs"), "int", rng=(0, None), deps=frozenset(deps_of(a[0]))))
        if name in ("min", "max") and len(a) == 2:
            return R(self.minmax(name == "min", a[0], a[1], st))
        if name in ("min", "max"):
            return R(Unknown(ty="int"))
        if name == "range":
            lo, hi, step = Const(0), None, Const(1)
            if len(a) == 1:
                hi = a[0]
            elif len(a) >= 2:
                lo, hi = a[0], a[1]
                if len(a) == 3:
                    step = a[2]
            return R(Sym(st.fresh_name("range"), "range", lo=lo, hi=hi, step=step, notnone=True))
        if name == "zip" and len(args) >= 1:
            def _items(x):
                xs = self.seq_items(x, st)
                if xs is None and isinstance(norm(x), Sym) and norm(x).ty == "range":
                    lo_, hi_, sp_ = [const_of(norm(norm(x).attrs.get(k_))) if norm(x).attrs.get(k_) is not None else None for k_ in ("lo", "hi", "step")]
                    if isinstance(lo_, int) and isinstance(hi_, int) and isinstance(sp_, int) and sp_ != 0 and abs((hi_ - lo_) // sp_) <= 512:
                        xs = [Const(v_) for v_ in range(lo_, hi_, sp_)]
                return xs
            seqs = [_items(x) for x in args]
            if all(s_ is not None for s_ in seqs):
                n_ = min(len(s_) for s_ in seqs)
                return R(Seq([Seq([s_[i] for s_ in seqs], "tuple") for i in range(n_)], "tuple"))
        if name == "reversed" and len(args) == 1:
            items = self.seq_items(args[0], st)
            if items is not None:
                return R(Seq(list(reversed(items)), "tuple"))
        if name == "enumerate" and a:
            start = const_of(a[1]) if len(a) > 1 else const_of(norm(kw["start"])) if "start" in kw else 0
            items = self.seq_items(args[0], st)
            if items is not None and isinstance(start, int) and not (isinstance(args[0], Ref) and args[0].kind in ("list", "bytearray")):
                # an immutable sequence of known items: enumerated eagerly (a heap list may still grow while it is iterated)
                return R(Seq([Seq([Const(start + i), x], "tuple") for i, x in enumerate(items)], "tuple"))
            return R(Sym(st.fresh_name("enumerate"), "enumerate", of=a[0], notnone=True))
        if name == "isinstance" and len(a) == 2:
            return R(self.isinstance_of(a[0], a[1], node))
        if name == "callable" and a:
            v = a[0]
            if isinstance(v, Const):
                return R(Const(callable(v.v)))
            return R(Unknown(deps_of(v), ty="bool"))
        if name == "print":
            return R(Const(None))
        if name in ("bin", "oct", "hex", "str", "repr", "format"):
            return R(Unknown(ty="str"))
        if name == "chr":
            c = const_of(a[0]) if a else None
            if c is not None and 0 <= c < 0x110000:
                return R(Const(chr(c)))
            return R(Unknown(ty="str"))
        if name == "ord":
            if a and isinstance(a[0], Const) and isinstance(a[0].v, str) and len(a[0].v) == 1:
                return R(Const(ord(a[0].v)))
            return R(Sym(st.fresh_name("ord"), "int", rng=(0, 0x10FFFF)))
        if name == "type":
            return R(Sym(st.fresh_name("type"), "type", notnone=True))
        if name in ("bytes", "bytearray"):
            return R(self.mk_bytes(name, a, st, fr, node))
        if name in ("list", "tuple", "set"):
            if not a:
                return R(st.alloc("list" if name != "tuple" else "list", items=[]) if name != "tuple" else Seq([], "tuple"))
            items = self.iter_values(a[0], st, fr, node)
            if items is not None:
                return R(Seq(items, "tuple") if name == "tuple" else st.alloc("set" if name == "set" else "list", items=items))
            return R(st.alloc("set" if name == "set" else "list", items=[], opaque=True))
        if name == "dict":
            return R(st.alloc("dict", items=[], opaque=bool(a)))
        if name == "urandom" and a:
            return R(Bytes([(("random",), a[0])], "bytes"))
        if name == "open":
            self.event(st, fr, "open", node, a)
            return R(Sym(st.fresh_name("file"), "file", notnone=True))
        if name in EXC_NAMES:
            return R(Sym(("exc", name), "exc", notnone=True))
        if name == "struct.pack":
            return R(self.struct_pack(a, st, fr, node))
        if name == "int.from_bytes" and a:
            order = a[1] if len(a) > 1 else kw.get("byteorder", Const("big"))
            signed = kw.get("signed", a[2] if len(a) > 2 else Const(False))
            ln = self.length_of(a[0], st)
            n_ = const_of(norm(ln)) if ln is not None else None
            code = {1: "b", 2: "h", 4: "i", 8: "q"}.get(n_)
            if code is not None and isinstance(norm(order), Const) and norm(order).v in ("little", "big") and isinstance(norm(signed), Const):
                fmt = ("<" if norm(order).v == "little" else ">") + (code if norm(signed).v else code.upper())
                r = self.struct_unpack([Const(fmt), a[0]], st, fr, node)
                if isinstance(r, Seq):
                    return R(r.items[0])
                return R(r)
            lo, hi = (0, None)
            if n_ is not None and isinstance(norm(signed), Const):
                lo, hi = ((-(1 << (8 * n_ - 1)), (1 << (8 * n_ - 1)) - 1) if norm(signed).v else (0, (1 << (8 * n_)) - 1)) if n_ else (0, 0)
            nm = st.fresh_name("frombytes")
            rngs = dict(st.extra.get("symrng", {}))
            rngs[nm] = (lo, hi)
            st.extra["symrng"] = rngs
            return R(Sym(nm, "int", rng=(lo, hi), of=a[0], deps=frozenset(deps_of(a[0]))))
        if name == "struct.pack_into" and len(a) >= 3:
            buf, off = args[1], const_of(a[2])
            r = self.struct_pack([a[0]] + list(a[3:]), st, fr, node)
            if isinstance(r, Raised):
                return R(r)
            if isinstance(buf, Ref) and buf.kind == "bytearray":
                cell = st.heap[buf.ident]
                sz = const_of(norm(r.length())) if isinstance(r, Bytes) else None
                if not cell.opaque and sz is not None and off == 0 and len(cell.items) == sz and r.parts and r.parts[0][0][0] == "pack":
                    # the whole buffer now is exactly this packed image: remembered so that bytes(buffer) keeps the field provenance
                    cell.fields = dict(cell.fields or {})
                    cell.fields["__packed__"] = r
                    self.note_mutation(st, fr, node, buf)
                    return R(Const(None))
                if not cell.opaque and sz is not None and isinstance(off, int) and 0 <= off and off + sz <= len(cell.items):
                    for j in range(sz):
                        cell.items[off + j] = Sym(st.fresh_name("packedbyte"), "int", rng=(0, 255), deps=frozenset().union(*[deps_of(norm(x)) for x in a[3:]]) if a[3:] else frozenset())
                    (cell.fields or {}).pop("__packed__", None)
                    self.note_mutation(st, fr, node, buf)
                    return R(Const(None))
                if isinstance(off, int) and sz is not None and not cell.opaque and off + sz > len(cell.items):
                    return R(Raised("struct.error", node, fr.func, "pack_into beyond the buffer"))
                cell.opaque = True
            return R(Const(None))
        if name == "struct.unpack_from":
            off = a[2] if len(a) > 2 else kw.get("offset", Const(0))
            return R(self.struct_unpack(a, st, fr, node, offset=norm(off)))
        if name == "struct.unpack":
            return R(self.struct_unpack(a, st, fr, node))
        if name == "struct.calcsize" and a and isinstance(a[0], Const):
            sz = fmt_size(a[0].v)
            return R(Const(sz) if sz is not None else Unknown(ty="int"))
        if name == "time.sleep":
            self.event(st, fr, "sleep", node, a[0] if a else None)
            return R(Const(None))
        if name in ("time.monotonic_ns", "time.monotonic", "time.time"):
            nm = st.fresh_name("clock")
            self.event(st, fr, "clock", node, nm)
            return R(Sym(nm, "int" if name.endswith("_ns") else "float", role="clock"))
        if name == "json.dumps":
            return R(Sym(st.fresh_name("json"), "str", notnone=True, of=a[0] if a else None))
        if name == "json.load":
            self.event(st, fr, "json.load", node, a)
            return R(st.alloc("dict", items=[], opaque=True, label="json"))
        if name in ("SPIDevice", "SPIDevCtx"):
            return R(Sym(st.fresh_name("spidev"), "ext", notnone=True))
        if name.startswith("callable:"):
            self.event(st, fr, "callback", node, name)
            return R(Unknown(why="callback"))
        self.warn("unmodelled external call %s in %s" % (name, fr.func.qualname))
        self.event(st, fr, "unmodelled", node, name)
        return R(Unknown(why="ext " + name))

    def isinstance_of(self, v, types, node):
        names = []
        for t in (types.items if isinstance(types, Seq) else [types]):
            if isinstance(t, Sym) and t.ty == "class":
                names.append(t.attrs["cls"])
            elif isinstance(t, Unknown) and t.why.startswith("name "):
                names.append(t.why[5:])
        if not names:
            return Unknown(ty="bool")
        vt = ty_of(v)
        if vt is None or vt == "any":
            return Unknown(deps_of(v), ty="bool")
        strs = {n for n in names if isinstance(n, str)}
        if vt == "byteslike" and {"bytes", "bytearray"} <= strs:
            return Const(True)
        if vt == "listlike" and {"list", "tuple"} <= strs:
            return Const(True)
        res = []
        for n in names:
            if isinstance(n, str):
                if vt == n:
                    res.append(True)
                elif vt == "bool" and n == "int":
                    res.append(True)
                elif vt == "byteslike" and n in ("bytes", "bytearray"):
                    res.append(None)
                elif vt == "listlike" and n in ("list", "tuple"):
                    res.append(None)
                elif vt.startswith("obj:") or vt in ("int", "bool", "str", "float", "bytes", "bytearray", "list", "tuple", "dict", "NoneType", "set", "byteslike", "listlike"):
                    if isinstance(v, Sym) and v.attrs.get("maybenone") and n == "NoneType":
                        res.append(None)
                    else:
                        res.append(False)
                else:
                    res.append(None)
            else:
                if isinstance(v, Ref) and v.cls is not None:
                    res.append(n in v.cls.mro)
                elif vt in ("int", "bool", "str", "float", "bytes", "bytearray", "list", "tuple", "dict", "NoneType", "byteslike"):
                    res.append(False)
                else:
                    res.append(None)
        if any(r is True for r in res):
            return Const(True)
        if all(r is False for r in res):
            if isinstance(v, Sym) and v.attrs.get("maybenone") and "NoneType" in [n for n in names if isinstance(n, str)]:
                return Unknown(deps_of(v), ty="bool")
            return Const(False)
        return Unknown(deps_of(v), ty="bool")

    def mk_bytes(self, name, a, st, fr, node):
        kind = name
        if not a:
            return Bytes([], kind) if kind == "bytes" else st.alloc("bytearray", items=[])
        v = a[0]
        c = const_of(v)
        if isinstance(c, int) and not isinstance(c, bool):
            if c < 0:
                return Raised("ValueError", node, fr.func, "negative count")
            if kind == "bytearray" and c <= 128:
                return st.alloc("bytearray", items=[Const(0)] * c)
            return Bytes([(("fill", 0), Const(c))], kind)
        if isinstance(v, Ref) and v.kind == "bytearray" and (st.heap[v.ident].fields or {}).get("__packed__") is not None:
            pk = st.heap[v.ident].fields["__packed__"]
            if kind == "bytes":
                return Bytes(list(pk.parts), "bytes")
        items = self.seq_items(v, st)
        if items is not None:
            for it in items:
                iv = interval(norm(it))
                ok = iv is not None and None not in iv and 0 <= iv[0] and iv[1] <= 255
                if not ok:
                    self.event(st, fr, "mayraise", node, ("byte-range", it))
            if kind == "bytearray":
                return st.alloc("bytearray", items=list(items))
            cs = [const_of(norm(i)) for i in items]
            if all(isinstance(x, int) and 0 <= x <= 255 for x in cs):
                return Bytes([(("const", bytes(cs)), Const(len(cs)))], "bytes")
            return Bytes([(("items", tuple(i.key() for i in items), tuple(items)), Const(len(items)))], "bytes")
        if isinstance(v, Ref) and v.kind == "list" and st.heap[v.ident].opaque:
            ln = (st.heap[v.ident].fields or {}).get("len")
            part = [(("unknown", "list"), ln if ln is not None else Unknown(ty="int"))]
            if kind == "bytearray":
                r = st.alloc("bytearray", items=[], opaque=True)
                st.heap[r.ident].fields = {"len": part[0][1]}
                return r
            return Bytes(part, "bytes")
        b = self.as_bytes(v, st)
        if b is not None:
            if kind == "bytearray":
                r = st.alloc("bytearray", items=[], opaque=True)
                st.heap[r.ident].fields = {"len": b.length(), "__src__": b}
                return r
            return Bytes(b.parts, "bytes")
        if isinstance(v, (Sym, Unknown)) and v.ty in ("int",):
            iv = interval(v)
            if not (iv and iv[0] is not None and iv[0] >= 0):
                self.event(st, fr, "mayraise", node, ("negative-count", v))
            return Bytes([(("fill", 0), v)], kind)
        if isinstance(v, Lin):
            return Bytes([(("fill", 0), v)], kind)
        return Bytes([(("unknown", "bytes()"), Unknown(ty="int"))], kind)

    def struct_pack(self, a, st, fr, node):
        if not a or not isinstance(a[0], Const) or not isinstance(a[0].v, str):
            return Bytes([(("unknown", "pack"), Unknown(ty="int"))], "bytes")
        fmt = a[0].v
        p = parse_fmt(fmt)
        if p is None:
            self.event(st, fr, "mayraise", node, ("struct-format", fmt))
            return Bytes([(("unknown", "pack"), Unknown(ty="int"))], "bytes")
        order, codes = p
        vals = a[1:]
        live = [c for c in codes if c != "x"]
        if len(live) != len(vals):
            return Raised("struct.error", node, fr.func, "pack arity")
        for c, v in zip(live, vals):
            sz, lo, hi = STRUCT_CODES[c]
            if lo is None:
                continue
            iv = interval(norm(v))
            ok = iv is not None and iv[0] is not None and iv[1] is not None and lo <= iv[0] and iv[1] <= hi
            self.event(st, fr, "packarg", node, (fmt, c, v, ok))
            if iv is not None and None not in iv and (iv[1] < lo or iv[0] > hi):
                return Raised("struct.error", node, fr.func, "pack range")
        return Bytes([(("pack", fmt, tuple(vals)), Const(fmt_size(fmt)))], "bytes")

    def struct_unpack(self, a, st, fr, node, offset=None):
        if len(a) < 2 or not isinstance(a[0], Const) or not isinstance(a[0].v, str):
            return Unknown(why="unpack")
        fmt = a[0].v
        p = parse_fmt(fmt)
        if p is None:
            return Unknown(why="unpack fmt")
        order, codes = p
        sz = fmt_size(fmt)
        ln = self.length_of(a[1], st)
        ok = False
        if ln is not None:
            l = as_lin(norm(ln))
            if l is not None and offset is None:
                ok = self.lin_sign(lin_add(l, Lin({}, sz), -1), st) == "==0"
                if not ok and not l.terms and l.c != sz:
                    return Raised("struct.error", node, fr.func, "unpack size")
            elif l is not None:
                # unpack_from: the buffer must hold at least offset + size bytes
                lo_ = as_lin(offset)
                if lo_ is not None:
                    room = lin_add(lin_add(l, lo_, -1), Lin({}, sz), -1)      # len - offset - size >= 0
                    ok = self.lin_sign(room, st) in (">0", ">=0", "==0") and self.lin_sign(lo_, st) in (">0", ">=0", "==0")
        self.event(st, fr, "unpack", node, (fmt, a[1], ln, ok) if offset is None else (fmt, a[1], ln, ok, offset))
        cb = self.concrete_bytes(a[1], st)
        if cb is not None and offset is not None:
            o_ = const_of(offset)
            cb = cb[o_:o_ + sz] if isinstance(o_, int) and 0 <= o_ and o_ + sz <= len(cb) else None
        if cb is not None and len(cb) == sz and order in ("", "<", "=", "@") and all(c in "bBhHiIlLqQ" for c in codes):
            # constant folding of a fully known little-endian image (the analyser's own decoder)
            vals, off = [], 0
            for c in codes:
                n_, lo, hi = STRUCT_CODES[c]
                if order in ("", "@") and off % n_:
                    off += n_ - off % n_
                v = int.from_bytes(cb[off:off + n_], "little", signed=lo < 0)
                vals.append(Const(v))
                off += n_
            return Seq(vals, "tuple")
        items = []
        for k, c in enumerate([c for c in codes if c != "x"]):
            _sz, lo, hi = STRUCT_CODES[c]
            nm = st.fresh_name("unpacked")
            rngs = dict(st.extra.get("symrng", {}))
            rngs[nm] = (lo, hi)
            st.extra["symrng"] = rngs
            items.append(Sym(nm, "int", rng=(lo, hi), unpack=(fmt, k, a[1]) if offset is None else (fmt, k, a[1], offset)))
        return Seq(items, "tuple")

    # ---------------------------------------------------------------- methods
    def ext_method(self, attr, base, args, kw, st, fr, node):
        a = [norm(x) for x in args]
        base = norm(base)
        R = lambda v: [(st, v)]  # noqa: E731
        p = path_text(node.func) if isinstance(node, ast.Call) else None
        if attr == "from_bytes" and isinstance(base, Unknown) and base.why == "name int":
            return self.ext_call("int.from_bytes", args, kw, st, fr, node)
        if isinstance(base, Const) and isinstance(base.v, dict):
            if attr == "get" and a:
                dflt = a[1] if len(a) > 1 else kw.get("default", Const(None))
                if isinstance(a[0], Const):
                    try:
                        return R(self.lift(base.v[a[0].v], st) if a[0].v in base.v else dflt)
                    except TypeError:
                        return R(dflt)
                from .interp_stmt import ForkIndex
                return self.fork_index(ForkIndex([(Const(kk), self.lift(vv, st)) for kk, vv in base.v.items()], dflt), a[0], st, fr, node)
            if attr in ("keys", "values", "items") and not a:
                seq = {"keys": list(base.v.keys()), "values": list(base.v.values()), "items": [tuple(x) for x in base.v.items()]}[attr]
                return R(self.lift(tuple(seq), st))
        if isinstance(base, Const) and isinstance(base.v, (tuple, list, str)) and attr in ("index", "count") and len(a) == 1 and isinstance(a[0], Const):
            try:
                return R(Const(getattr(base.v, attr)(a[0].v)))
            except ValueError:
                return R(Raised("ValueError", node, fr.func, "not in the table"))
        if isinstance(base, Ref) and base.kind in ("list", "bytearray", "set", "dict"):
            cell = st.heap[base.ident]
            if attr in ("append", "add") and len(a) == 1:
                self.event(st, fr, "append", node, (base, a[0], path_text(node.func.value)))
                if not cell.opaque:
                    cell.items.append(a[0])
                self.note_mutation(st, fr, node, base)
                return R(Const(None))
            if attr == "extend" and len(a) == 1 and base.kind in ("list", "bytearray"):
                items = self.seq_items(args[0], st)
                if items is not None and not cell.opaque:
                    for it_ in items:
                        self.event(st, fr, "append", node, (base, it_, path_text(node.func.value)))
                        cell.items.append(it_)
                    self.note_mutation(st, fr, node, base)
                    return R(Const(None))
            if attr == "insert" and len(a) == 2 and base.kind in ("list", "bytearray") and not cell.opaque and isinstance(const_of(a[0]), int):
                self.event(st, fr, "insert", node, (base, a, path_text(node.func.value)))
                self.note_mutation(st, fr, node, base)
                cell.items.insert(const_of(a[0]), args[1] if isinstance(args[1], Ref) else a[1])
                return R(Const(None))
            if attr == "pop":
                self.event(st, fr, "pop", node, (base, a[0] if a else None, path_text(node.func.value)))
                self.note_mutation(st, fr, node, base)
                if base.kind == "dict" and a:
                    cell.opaque = True
                    if isinstance(a[0], Sym) and a[0].attrs.get("pairval") is not None and a[0].attrs.get("of_dict") == base.ident:
                        return R(a[0].attrs["pairval"])        # a key obtained by iterating this dict is present: that entry's value
                    if len(a) > 1:
                        s2 = st.fork()
                        self.budget()
                        return [(st, Sym(st.fresh_name((base.label or "dict") + ".val"), "int", role=("dict-val", base.label or "dict", "pop"), key=a[0])), (s2, a[1])]
                    self.event(st, fr, "mayraise", node, ("pop", base))
                    return R(Sym(st.fresh_name((base.label or "dict") + ".val"), "int", role=("dict-val", base.label or "dict", "pop"), key=a[0]))
                k = const_of(a[0]) if a else -1
                if not cell.opaque and k is not None:
                    if -len(cell.items) <= k < len(cell.items):
                        return R(cell.items.pop(k))
                    return R(Raised("IndexError", node, fr.func, "pop from empty/out of range"))
                cell.opaque = True
                self.event(st, fr, "mayraise", node, ("pop", base))
                return R(self.sym_item(base, st, fr, node, 0))
            if attr == "update" and base.kind == "dict" and (kw or a):
                # d.update({k: v}) / d.update(k=v) with known pairs is a series of item stores
                pairs = None
                if len(a) == 1 and not kw and isinstance(a[0], Ref) and a[0].kind == "dict" and (st.heap[a[0].ident].fields or {}).get("__literal__") is not None:
                    pairs = st.heap[a[0].ident].fields["__literal__"]
                elif len(a) == 1 and not kw and isinstance(a[0], Const) and isinstance(a[0].v, dict):
                    pairs = [(Const(k_), self.lift(v_, st)) for k_, v_ in a[0].v.items()]
                if pairs is not None:
                    for k_, v_ in pairs:
                        self.event(st, fr, "dictstore", node, (base, norm(k_), v_, path_text(node.func.value)))
                    self.note_mutation(st, fr, node, base)
                    cell.opaque = True
                    return R(Const(None))
            if attr == "setdefault" and base.kind == "dict" and a and cell.opaque and (cell.fields or {}).get("__table__") is None:
                # the key is present (nothing is stored, the entry's value comes back) or absent (the default is stored and returned)
                dflt = args[1] if len(args) > 1 else Const(None)
                label = base.label or path_text(node.func.value) or "dict"
                s2 = st.fork()
                self.budget()
                hit = Sym(st.fresh_name(label + ".val"), "int", role=("dict-val", label, "get"), key=a[0])
                ksym = Sym(("keyof", label), "int", role=("dict-key", label, "get"))
                self.event(st, fr, "cond", node, (True, (a[0], ksym)))
                self.event(s2, fr, "cond", node, (False, (a[0], ksym)))
                self.event(s2, fr, "dictstore", node, (base, a[0], dflt, path_text(node.func.value)))
                self.note_mutation(s2, fr, node, base)
                return [(st, hit), (s2, dflt)]
            if attr in ("clear", "extend", "insert", "remove", "reverse", "sort", "update"):
                self.event(st, fr, attr, node, (base, a, path_text(node.func.value)))
                self.note_mutation(st, fr, node, base)
                cell.opaque = True
                if attr == "clear":
                    cell.opaque, cell.items = False, []
                return R(Const(None))
            if attr == "items" and base.kind == "dict":
                return R(Sym(st.fresh_name("items"), "dictitems", label=base.label or path_text(node.func.value) or "dict", of=base, notnone=True))
            if attr in ("keys", "values") and base.kind == "dict":
                return R(Sym(st.fresh_name(attr), "dictitems", label=base.label or path_text(node.func.value) or "dict", of=base, notnone=True, view=attr))
            if attr == "get" and a and (cell.fields or {}).get("__table__") is not None:
                tbl = cell.fields["__table__"]
                dflt = args[1] if len(args) > 1 else kw.get("default", Const(None))
                if isinstance(a[0], Const):
                    for kk, vv in tbl:
                        if kk.v == a[0].v:
                            return R(vv)
                    return R(dflt)
                from .interp_stmt import ForkIndex
                return self.fork_index(ForkIndex(list(tbl), dflt), a[0], st, fr, node)
            if attr == "get" and a and base.kind == "dict" and cell.opaque:
                # a symbolic table: the key is present (an entry's value) or it is not (the default, None when not given)
                dflt = args[1] if len(args) > 1 else kw.get("default", Const(None))
                label = base.label or path_text(node.func.value) or "dict"
                s2 = st.fork()
                self.budget()
                hit = Sym(st.fresh_name(label + ".val"), "int", role=("dict-val", label, "get"), key=a[0])
                ksym = Sym(("keyof", label), "int", role=("dict-key", label, "get"))     # "some key of the table"
                self.event(st, fr, "cond", node, (True, (a[0], ksym)))
                self.event(s2, fr, "cond", node, (False, (a[0], ksym)))
                return [(st, hit), (s2, dflt)]
            if attr == "get":
                return R(Unknown(why="dict.get"))
            if attr == "decode":
                return [(st, Unknown(ty="str")), (st.fork(), Raised("UnicodeError", node, fr.func))]
        bt = ty_of(base)
        if attr == "bit_length" and not a and isinstance(base, Const) and isinstance(base.v, int):
            return R(Const(base.v.bit_length()))
        if attr == "bit_length" and not a and isinstance(base, BitV) and base.hi == 0:
            # one path per position of the highest set bit; on each the value is narrowed accordingly (bits above are 0, that bit is 1)
            outs = []
            live = [i for i, b in enumerate(base.bits) if b != 0]
            top = (max(live) + 1) if live else 0
            cands = []
            for k in range(0, top + 1):
                if any(base.bits[i] == 1 for i in range(k, NBITS)):
                    continue                                   # a bit at or above k is known to be set
                if k > 0 and base.bits[k - 1] == 0:
                    continue                                   # the would-be top bit is known to be clear
                cands.append(k)
            for j, k in enumerate(cands):
                s = st if j == len(cands) - 1 else st.fork()
                if j != len(cands) - 1:
                    self.budget()
                bits = tuple((0 if i >= k else (1 if i == k - 1 else b)) for i, b in enumerate(base.bits))
                nb = norm(BitV(bits, 0, None))
                self.event(s, fr, "cond", node, (True, (base, Const(k))))
                tgt = node.func.value if isinstance(node, ast.Call) and isinstance(node.func, ast.Attribute) else None
                if isinstance(tgt, (ast.Name, ast.Attribute)):
                    cur = self.get_path_value(tgt, s, fr)
                    if cur is not None and hasattr(cur, "key") and norm(cur).key() == base.key():
                        self.set_path_value(tgt, nb, s, fr)
                        env = s.envs[fr.fid]
                        for nm, vv in list(env.items()):          # every local that holds the very same value
                            if hasattr(vv, "key") and not isinstance(vv, Ref) and norm(vv).key() == base.key():
                                env[nm] = nb
                outs.append((s, Const(k)))
            if outs:
                return outs
        if attr == "index" and a:
            items = self.seq_items(base, st) if not (isinstance(base, Const) and isinstance(base.v, (tuple, list))) else [self.lift(v_, st) for v_ in base.v]
            if items is not None:
                res = [self.compare(ast.Eq(), it_, a[0], st) for it_ in items]
                for k_, r_ in enumerate(res):
                    if r_ is True:
                        return R(Const(k_))
                    if r_ is None:
                        break
                else:
                    return R(Raised("ValueError", node, fr.func, "value not in sequence"))
            self.event(st, fr, "mayraise", node, ("index()", base))
            return R(Sym(st.fresh_name("index"), "int", rng=(0, None)))
        if attr == "to_bytes" and a:
            n = const_of(a[0])
            iv = interval(base)
            ok = n is not None and iv is not None and None not in iv and 0 <= iv[0] and iv[1] < (1 << (8 * n))
            self.event(st, fr, "to_bytes", node, (base, a, ok))
            order = a[1] if len(a) > 1 else kw.get("byteorder", Const("big"))
            signed = kw.get("signed", a[2] if len(a) > 2 else Const(False))
            code = {1: "b", 2: "h", 4: "i", 8: "q"}.get(n)
            if code is not None and isinstance(norm(order), Const) and norm(order).v in ("little", "big") and isinstance(norm(signed), Const):
                # the same bytes as struct.pack with the equivalent format: keeps the field provenance the layout rules read
                fmt = ("<" if norm(order).v == "little" else ">") + (code if norm(signed).v else code.upper())
                return R(Bytes([(("pack", fmt, (base,)), Const(n))], "bytes"))
            return R(Bytes([(("to_bytes", self.vkey(base), tuple(self.vkey(x) for x in a[1:])), a[0])], "bytes"))
        if attr == "join" and len(a) == 1 and isinstance(base, Bytes):
            sep_empty = const_of(norm(base.length())) == 0
            items = self.seq_items(a[0], st)
            if sep_empty and items is not None:
                parts = []
                for it_ in items:
                    b_ = self.as_bytes(it_, st)
                    if b_ is None:
                        parts = None
                        break
                    parts.extend(b_.parts)
                if parts is not None:
                    return R(Bytes(parts, "bytes"))
        if attr == "decode" and bt in ("bytes", "bytearray", "byteslike", None):
            s2 = st.fork()
            self.budget()
            return [(st, Sym(st.fresh_name("decoded"), "str", of=base, deps=frozenset(deps_of(base)), notnone=True)), (s2, Raised("UnicodeError", node, fr.func))]
        if attr == "encode":
            return R(Sym(st.fresh_name("encoded"), "bytes", len=Sym(st.fresh_name("len"), "int", rng=(0, None))))
        if attr in ("format", "join", "replace", "strip", "lower", "upper"):
            if attr == "replace":
                self.event(st, fr, "strop", node, (attr, base, tuple(a)))
                if isinstance(base, Const) and isinstance(base.v, str) and all(isinstance(x, Const) for x in a) and 2 <= len(a) <= 3:
                    try:
                        return R(Const(base.v.replace(*[x.v for x in a])))
                    except Exception:
                        pass
                if isinstance(base, Sym) and base.ty == "str":
                    return R(Sym(st.fresh_name("replaced"), "str", of=base, notnone=True))
            return R(Unknown(ty="str"))
        if attr in ("startswith", "endswith"):
            if isinstance(base, Const) and a and isinstance(a[0], Const):
                return R(Const(getattr(base.v, attr)(a[0].v)))
            # one named boolean per (string value, affix): the same question asked twice on a path has one answer
            who = getattr(base, "name", None) if isinstance(base, Sym) else None
            if who is not None and a and isinstance(a[0], Const):
                return R(Sym((attr, who, a[0].v), "bool", of=base, affix=a[0]))
            return R(Unknown(deps_of(base), ty="bool"))
        if attr == "switch_to_output":
            v = kw.get("value", a[0] if a else Const(False))
            pth = path_text(node.func.value) or "?"
            self.event(st, fr, "extstore", node, (pth + ".value", v))
            self.model.on_ext_store(self, st, fr, node, pth + ".value", v)
            return R(Const(None))
        if attr in ("write", "read", "close", "open", "xfer2", "write_readinto", "readinto"):
            self.event(st, fr, "io", node, (p, a, kw))
            if attr == "read":
                return R(Sym(st.fresh_name("filedata"), "bytes", len=Sym(st.fresh_name("len"), "int", rng=(0, None))))
            if attr == "xfer2":
                return R(st.alloc("list", items=[], opaque=True))
            return R(Const(None))
        if isinstance(base, Sym) and base.ty == "method":
            pass
        self.event(st, fr, "extmethod", node, (p or attr, base, a))
        if isinstance(base, Const) and base.v is None:
            return R(Raised("AttributeError", node, fr.func, "method of None"))
        return R(Unknown(deps_of(base), why="method " + attr))
