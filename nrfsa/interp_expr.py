"""expression evaluation for the abstract interpreter"""
import ast
from .absval import (V, Const, Unknown, Sym, Seq, BitV, Lin, Bytes, as_bitv, as_lin, const_of, norm,
                     from_int, bv_and, bv_or, bv_xor, bv_not, bv_shl, bv_shr, bv_add, interval,
                     with_range, lin_add, lin_norm, lin_scale, term_deps, NBITS)
from .interp import Ref, Raised, path_text
from .model import AnalysisError


def deps_of(v):
    if isinstance(v, BitV):
        return v.deps()
    if isinstance(v, Unknown):
        return set(v.deps)
    if isinstance(v, Sym):
        return {v.name} | set(v.attrs.get("deps", ()))
    if isinstance(v, Lin):
        return set(v.terms)
    return set()


def ty_of(v):
    """coarse python type tag of an abstract value (or None)"""
    if isinstance(v, Const):
        return type(v.v).__name__
    if isinstance(v, (BitV, Lin)):
        return "int"
    if isinstance(v, Bytes):
        return v.kind
    if isinstance(v, Seq):
        return v.kind
    if isinstance(v, Ref):
        return v.kind if v.kind != "obj" else ("obj:" + (v.cls.name if v.cls else "?"))
    if isinstance(v, (Sym, Unknown)):
        return v.ty
    return None


class ExprMixin:
    # ----------------------------------------------------------- sequencing
    def ev_list(self, exprs, st, fr):
        outs = [(st, [])]
        for e in exprs:
            nxt = []
            for s, vals in outs:
                if isinstance(vals, Raised):
                    nxt.append((s, vals))
                    continue
                for s2, v in self.ev(e, s, fr):
                    nxt.append((s2, v if isinstance(v, Raised) else vals + [v]))
            outs = nxt
        return outs

    # ------------------------------------------------------------------ ev
    def ev(self, e, st, fr):
        m = getattr(self, "ev_" + type(e).__name__, None)
        if m is None:
            self.warn("unmodelled expression %s in %s" % (type(e).__name__, fr.func.qualname))
            return [(st, Unknown(why=type(e).__name__))]
        return m(e, st, fr)

    def ev_Constant(self, e, st, fr):
        if isinstance(e.value, bytes):
            return [(st, Bytes([(("const", e.value), Const(len(e.value)))], "bytes"))]
        return [(st, Const(e.value))]

    def ev_Name(self, e, st, fr):
        env = st.envs[fr.fid]
        if e.id in env:
            return [(st, env[e.id])]
        if e.id == "self" and fr.self_val is not None:
            return [(st, fr.self_val)]
        try:
            if self._filled_at_module_level(fr.func.module, e.id):
                raise ValueError("a table filled by module-level statements is not the constant its first binding shows")
            c = self.prog.const_value(fr.func.module, e.id)
            return [(st, self.lift(c, st))]
        except ValueError:
            pass
        if e.id == "json":
            return [(st, Sym("json", "module", notnone=True))]
        cls = self.prog.resolve_class_name(fr.func.module, e.id)
        if cls is not None:
            return [(st, Sym(("class", cls.qualname), "class", cls=cls))]
        fn = self.prog.resolve_func_name(fr.func.module, e.id)
        if fn is not None:
            return [(st, Sym(("funcref", fn.qualname), "funcref", func=fn, notnone=True))]
        holder = fr.func.parent or fr.func
        if e.id in holder.nested:
            return [(st, Sym(("nested", holder.nested[e.id].qualname), "nested", func=holder.nested[e.id]))]
        mv = self.module_value(fr.func.module, e.id, st, fr)
        if mv is not None:
            return mv
        return [(st, Unknown(why="name " + e.id))]

    _modval_busy = set()

    def module_value(self, mod, name, st, fr):
        """a module-level name bound once to an expression that is not a foldable constant (a table holding classes or functions, a
        tuple built from other names): the defining expression is evaluated in place (it is pure: only displays, names, arithmetic)"""
        nodes = [n for n in mod.tree.body if isinstance(n, (ast.Assign, ast.AnnAssign)) and
                 any(isinstance(t, ast.Name) and t.id == name for t in (n.targets if isinstance(n, ast.Assign) else [n.target]))]
        if len(nodes) != 1 or nodes[0].value is None:
            imp = mod.imports.get(name)
            if imp and imp[0] in self.prog.modules and imp[0] != mod.name:
                return self.module_value(self.prog.modules[imp[0]], imp[1], st, fr)
            return None
        val = nodes[0].value
        pure = (ast.Tuple, ast.List, ast.Dict, ast.Name, ast.Constant, ast.BinOp, ast.UnaryOp, ast.Subscript, ast.Load, ast.operator, ast.unaryop, ast.Attribute, ast.Slice)
        if not all(isinstance(x, pure) for x in ast.walk(val)):
            return self.module_table(mod, name, nodes[0], st, fr)
        key = (mod.name, name)
        if key in self._modval_busy:
            return None
        self._modval_busy.add(key)
        try:
            from .interp import Frame
            from .model import Ctx
            fake = self.prog.module_frame_func(mod)
            tmp = Frame(fake, None, Ctx(self.prog, fake, None), st, {}, fr.depth, None)
            res = self.ev(val, st, tmp)
            st.envs.pop(tmp.fid, None)
            return res
        finally:
            self._modval_busy.discard(key)

    _filled_cache = {}

    def _filled_at_module_level(self, mod, name):
        key = (id(mod), name)
        hit = self._filled_cache.get(key)
        if hit is None:
            hit = False
            for n_ in mod.tree.body:
                if isinstance(n_, (ast.For, ast.While, ast.If, ast.Assign, ast.AugAssign, ast.Expr)):
                    for x in ast.walk(n_):
                        if isinstance(x, ast.Subscript) and isinstance(x.ctx, ast.Store) and isinstance(x.value, ast.Name) and x.value.id == name:
                            hit = True
            self._filled_cache[key] = hit
        return hit

    def module_table(self, mod, name, binding, st, fr):
        """a module-level table: `T = bytearray(n)` / `[0] * n` / `list(..)` followed by top-level `for` loops that fill it
        (`for v in range(..): T[v] = f(v)`) - the binding and those loops are executed abstractly (they read no input), the table lives on
        the heap of the current path"""
        val = binding.value
        if not (isinstance(val, ast.Call) and isinstance(val.func, ast.Name) and val.func.id in ("bytearray", "list", "bytes")):
            return None
        body = mod.tree.body
        k0 = body.index(binding)
        fills = []
        for n_ in body[k0 + 1:]:
            if isinstance(n_, ast.For) and any(isinstance(x, ast.Subscript) and isinstance(x.ctx, ast.Store) and isinstance(x.value, ast.Name) and x.value.id == name for x in ast.walk(n_)):
                fills.append(n_)
            elif any(isinstance(x, ast.Name) and x.id == name and isinstance(x.ctx, ast.Store) for x in ast.walk(n_)):
                return None       # re-bound later: not a table built once
        key = (mod.name, name)
        if key in self._modval_busy:
            return None
        self._modval_busy.add(key)
        try:
            from .interp import Frame
            from .model import Ctx
            fake = self.prog.module_frame_func(mod)
            tmp = Frame(fake, None, Ctx(self.prog, fake, None), st, {}, fr.depth, None)
            assign = ast.copy_location(ast.Assign(targets=[ast.Name(id=name, ctx=ast.Store())], value=val), binding)
            ast.fix_missing_locations(assign)
            n0 = len(st.trace)
            res = self.exec_block([assign], st, tmp)
            if len(res) == 1 and res[0][0] == "next":
                s0 = res[0][1]
                cur = s0.envs.get(tmp.fid, {}).get(name)
                if isinstance(cur, Bytes) and cur.kind == "bytearray":
                    # `bytearray(n)`: n zero bytes, as an object on the heap so that the filling loops can store into it
                    n_ = const_of(norm(cur.length()))
                    cb = self.concrete_bytes(cur, s0)
                    if cb is None and isinstance(n_, int):
                        acc = b""
                        for tag_, ln_ in cur.parts:
                            l_ = const_of(norm(ln_))
                            if tag_[0] == "fill" and isinstance(l_, int) and isinstance(tag_[1], int):
                                acc += bytes([tag_[1]]) * l_
                            elif tag_[0] == "zeros" and isinstance(l_, int):
                                acc += bytes(l_)
                            elif tag_[0] == "const":
                                acc += tag_[1]
                            else:
                                acc = None
                                break
                        cb = acc
                    if isinstance(n_, int) and 0 <= n_ <= 1024 and cb is not None:
                        s0.envs[tmp.fid][name] = s0.alloc("bytearray", items=[Const(b_) for b_ in cb], label=name)
                res = self.exec_block(fills, s0, tmp) if fills else res
            ok = [(k, s, v) for k, s, v in res if k == "next"]
            if len(ok) != 1 or len(res) != 1:
                st.envs.pop(tmp.fid, None)
                return None
            s1 = ok[0][1]
            out = s1.envs.get(tmp.fid, {}).get(name)
            s1.envs.pop(tmp.fid, None)
            del s1.trace[n0:]             # building the table is not part of the analysed call's history
            return [(s1, out)] if out is not None else None
        finally:
            self._modval_busy.discard(key)

    def lift(self, c, st):
        """python constant -> abstract value"""
        if isinstance(c, bytes):
            return Bytes([(("const", c), Const(len(c)))], "bytes")
        if isinstance(c, (tuple, list)):
            items = [self.lift(x, st) for x in c]
            if isinstance(c, tuple):
                return Seq(items, "tuple")
            return st.alloc("list", items=items)
        if isinstance(c, dict):
            return Const(c)       # a constant lookup table (module / class level): never written to (R09.5 checks that)
        return Const(c)

    def ev_Tuple(self, e, st, fr):
        return [(s, v if isinstance(v, Raised) else Seq(v, "tuple")) for s, v in self.ev_list(e.elts, st, fr)]

    def ev_List(self, e, st, fr):
        out = []
        for s, v in self.ev_list(e.elts, st, fr):
            out.append((s, v if isinstance(v, Raised) else s.alloc("list", items=v)))
        return out

    def ev_Set(self, e, st, fr):
        return self.ev_List(e, st, fr)

    def ev_Dict(self, e, st, fr):
        if e.keys and all(k is not None for k in e.keys):
            # a literal table of constants (`{0: 1, 8: 2}.get(x, 250)`): a constant value
            out = []
            for s, vals in self.ev_list(list(e.keys) + list(e.values), st, fr):
                if isinstance(vals, Raised):
                    out.append((s, vals))
                    continue
                n_ = len(e.keys)
                ks, vs = [norm(v) for v in vals[:n_]], [norm(v) for v in vals[n_:]]
                if all(isinstance(k, Const) for k in ks) and all(isinstance(v, Const) for v in vs):
                    try:
                        out.append((s, Const({k.v: v.v for k, v in zip(ks, vs)})))
                        continue
                    except TypeError:
                        pass
                if all(isinstance(k, Const) for k in ks):
                    # constant keys, abstract values (classes, tuples holding classes, ...): a lookup table on the heap
                    r = s.alloc("dict", items=[], opaque=False)
                    s.heap[r.ident].fields = {"__table__": list(zip(ks, vals[n_:]))}
                    out.append((s, r))
                    continue
                r = s.alloc("dict", items=[], opaque=True)
                s.heap[r.ident].fields = {"__literal__": list(zip(vals[:n_], vals[n_:]))}     # what the literal holds, for d.update({k: v})
                out.append((s, r))
            return out
        return [(st, st.alloc("dict", items=[], opaque=bool(e.keys)))]

    def ev_JoinedStr(self, e, st, fr):
        return [(st, Unknown(ty="str"))]

    # comprehensions are desugared into the equivalent statement loop (cached per node so node identities stay stable) and run in the
    # current frame; the loop variables are restored afterwards (comprehension scope)
    _comp_cache = {}

    def _comp_loop(self, e, leaf):
        """nested for/if statements of comprehension e around the statement list `leaf`"""
        body = leaf
        for g in reversed(e.generators):
            if g.is_async:
                return None
            for c in reversed(g.ifs):
                body = [ast.If(test=c, body=body, orelse=[])]
            body = [ast.For(target=g.target, iter=g.iter, body=body, orelse=[], type_comment=None)]
        return body

    def _run_comp(self, e, stmts, st, fr, acc_name=None):
        targets = set()
        for g in e.generators:
            for x in ast.walk(g.target):
                if isinstance(x, ast.Name):
                    targets.add(x.id)
        env0 = st.envs[fr.fid]
        saved = {nm: env0[nm] for nm in targets if nm in env0}
        out = []
        for kind, s, v in self.exec_block(stmts, st, fr):
            env = s.envs.get(fr.fid)
            res = None
            if env is not None:
                for nm in targets:
                    env.pop(nm, None)
                env.update(saved)
                if acc_name is not None:
                    res = env.pop(acc_name, None)
            if kind == "raise":
                out.append((s, v))
            elif kind == "return":
                out.append((s, v))
            elif kind == "next":
                out.append((s, res if res is not None else Const(None)))
            elif kind == "cut":
                self.cuts += 1
            else:
                raise AnalysisError("break/continue escaped a comprehension in %s" % fr.func.qualname)
        return out

    def ev_ListComp(self, e, st, fr):
        key = id(e)
        if key not in self._comp_cache:
            acc = "%comp" + str(len(self._comp_cache))
            app = ast.Expr(value=ast.Call(func=ast.Attribute(value=ast.Name(id=acc, ctx=ast.Load()), attr="append", ctx=ast.Load()), args=[e.elt], keywords=[]))
            loop = self._comp_loop(e, [app])
            if loop is not None:
                init = ast.Assign(targets=[ast.Name(id=acc, ctx=ast.Store())], value=ast.List(elts=[], ctx=ast.Load()), type_comment=None)
                stmts = [init] + loop
                for s_ in stmts:
                    ast.copy_location(s_, e)
                    ast.fix_missing_locations(s_)
                self._comp_cache[key] = (e, stmts, acc)
            else:
                self._comp_cache[key] = (e, None, None)
        _e, stmts, acc = self._comp_cache[key]
        if stmts is None:
            return [(st, st.alloc("list", items=[], opaque=True))]
        return self._run_comp(e, stmts, st, fr, acc)

    ev_GeneratorExp = ev_ListComp      # a generator is approximated by its eagerly built list (the package only feeds them to consumers at once)

    def ev_quantifier(self, call, is_any, st, fr):
        """any(<genexp>) / all(<genexp>): the short-circuit loop `for ..: if [not] elt: return True/False` + `return False/True`"""
        e = call.args[0]
        key = (id(e), is_any)
        if key not in self._comp_cache:
            test = e.elt if is_any else ast.UnaryOp(op=ast.Not(), operand=e.elt)
            hit = ast.If(test=test, body=[ast.Return(value=ast.Constant(value=bool(is_any)))], orelse=[])
            loop = self._comp_loop(e, [hit])
            stmts = None
            if loop is not None:
                stmts = loop + [ast.Return(value=ast.Constant(value=not is_any))]
                for s_ in stmts:
                    ast.copy_location(s_, call)
                    ast.fix_missing_locations(s_)
            self._comp_cache[key] = (e, stmts, None)
        stmts = self._comp_cache[key][1]
        if stmts is None:
            return [(st, Unknown(ty="bool"))]
        return self._run_comp(e, stmts, st, fr)

    def ev_IfExp(self, e, st, fr):
        out = []
        for s, t in self.branch(e.test, st, fr):
            if isinstance(t, Raised):
                out.append((s, t))
            else:
                out.extend(self.ev(e.body if t else e.orelse, s, fr))
        return out

    def ev_BoolOp(self, e, st, fr):
        is_and = isinstance(e.op, ast.And)
        outs = []
        work = [(st, 0)]
        while work:
            s, i = work.pop()
            for s1, v in self.ev(e.values[i], s, fr):
                if isinstance(v, Raised) or i == len(e.values) - 1:
                    outs.append((s1, v))
                    continue
                t = self.truth(v, s1, fr)
                if t is None:
                    (sa, _t), (sb, _f) = self.decide(e.values[i], None, s1, fr, True, v)
                    if is_and:
                        work.append((sa, i + 1))
                        outs.append((sb, self.falsy_of(v)))
                    else:
                        outs.append((sa, self.truthy_of(v)))
                        work.append((sb, i + 1))
                elif t == is_and:
                    work.append((s1, i + 1))
                else:
                    outs.append((s1, v))
        return outs

    @staticmethod
    def truthy_of(v):
        if isinstance(v, (Sym, Unknown)) and v.ty == "bool":
            return Const(True)
        return v

    @staticmethod
    def falsy_of(v):
        if isinstance(v, (BitV, Lin)) or (isinstance(v, (Sym, Unknown)) and v.ty == "int"):
            return Const(0)
        if isinstance(v, (Sym, Unknown)) and v.ty == "bool":
            return Const(False)
        return v

    def ev_UnaryOp(self, e, st, fr):
        out = []
        if isinstance(e.op, ast.Not):
            for s, t in self.branch(e.operand, st, fr, record=False):
                if isinstance(t, Raised):
                    out.append((s, t))
                elif t is None:
                    lun = self._last_unknown_not
                    if lun.cmp is None and isinstance(e.operand, (ast.Name, ast.Attribute)):
                        # `not x` for a number of unknown truth: the boolean stands for x == 0 (decided when branched on)
                        cur = self.peek(e.operand, s, fr)
                        cv = norm(cur) if cur is not None and hasattr(cur, "key") else None
                        if isinstance(cv, (BitV, Lin)) or (isinstance(cv, Sym) and cv.ty == "int"):
                            key = id(e)
                            synth = self._tuple_cmp_cache.get(("not0", key))
                            if synth is None:
                                synth = ast.Compare(left=e.operand, ops=[ast.NotEq()], comparators=[ast.Constant(0)])
                                ast.copy_location(synth, e)
                                ast.fix_missing_locations(synth)
                                self._tuple_cmp_cache[("not0", key)] = synth
                            lun = Unknown(deps_of(cv), ty="bool", cmp=(synth, (cv, Const(0)), True, fr.fid))
                    out.append((s, lun))
                else:
                    out.append((s, Const(not t)))
            return out
        for s, v in self.ev(e.operand, st, fr):
            if isinstance(v, Raised):
                out.append((s, v))
                continue
            out.append((s, self.unop(e.op, v)))
        return out

    def unop(self, op, v):
        v = norm(v)
        if isinstance(v, Const) and isinstance(v.v, (int, float, bool)):
            if isinstance(op, ast.USub):
                return Const(-v.v)
            if isinstance(op, ast.Invert):
                return Const(~int(v.v))
            if isinstance(op, ast.UAdd):
                return Const(+v.v)
        b = as_bitv(v)
        if b is not None and isinstance(op, ast.Invert):
            return bv_not(b)
        l = as_lin(v)
        if l is not None and isinstance(op, ast.USub):
            return lin_norm(lin_scale(l, -1))
        return Unknown(deps_of(v), ty="int")

    def ev_BinOp(self, e, st, fr):
        out = []
        for s, vals in self.ev_list([e.left, e.right], st, fr):
            if isinstance(vals, Raised):
                out.append((s, vals))
            else:
                out.append((s, self.binop(e.op, vals[0], vals[1], s, fr, e)))
        return out

    # ------------------------------------------------------------ operators
    @staticmethod
    def bool_as_bit(v):
        """a boolean that stands for an undecided comparison, used as a number: one bit that may depend on the operands"""
        if isinstance(v, Unknown) and v.ty == "bool" and v.cmp is not None:
            d = set()
            for x in v.cmp[1]:
                d |= deps_of(norm(x)) if hasattr(x, "key") else set()
            return BitV((("m", frozenset(d or v.deps or {("unknown",)})),) + (0,) * (NBITS - 1), 0, (0, 1))
        return v

    def binop(self, op, a, b, st, fr=None, node=None):
        a, b = self.bool_as_bit(norm(a)), self.bool_as_bit(norm(b))
        # string formatting
        if isinstance(op, ast.Mod) and (ty_of(a) == "str"):
            return Unknown(ty="str")
        # bytes-like
        if isinstance(a, Bytes) or isinstance(b, Bytes) or (isinstance(a, Ref) and a.kind == "bytearray") or (isinstance(b, Ref) and b.kind == "bytearray") or ty_of(a) in ("bytes", "bytearray", "byteslike") or ty_of(b) in ("bytes", "bytearray", "byteslike"):
            r = self.bytes_binop(op, a, b, st)
            if r is not None:
                return r
        if isinstance(a, Const) and isinstance(b, Const):
            try:
                return self.fold(op, a.v, b.v)
            except ZeroDivisionError:
                return Raised("ZeroDivisionError", node, fr.func if fr else None)
            except Exception:
                return Unknown(why="fold")
        if ty_of(a) == "str" or ty_of(b) == "str":
            return Unknown(ty="str")
        if ty_of(a) == "float" or ty_of(b) == "float" or isinstance(op, ast.Div) or isinstance(op, ast.Pow):
            af = self._affine(op, a, b, st)
            if af is not None:
                return af
            return Unknown(deps_of(a) | deps_of(b), ty="float" if not isinstance(op, ast.Pow) else None)
        if isinstance(a, Ref) and a.kind == "list" and isinstance(op, (ast.Mult, ast.Add)):
            la_ = self._list_len(a, st)
            if isinstance(op, ast.Mult) and const_of(b) is None and la_ is not None and as_lin(b) is not None and not la_.terms:
                r = st.alloc("list", items=[], opaque=True)
                st.heap[r.ident].fields = {"len": lin_norm(lin_scale(as_lin(b), la_.c))}
                return r
            if isinstance(op, ast.Add) and isinstance(b, Ref) and b.kind == "list" and (st.heap[a.ident].opaque or st.heap[b.ident].opaque):
                lb_ = self._list_len(b, st)
                r = st.alloc("list", items=[], opaque=True)
                if la_ is not None and lb_ is not None:
                    st.heap[r.ident].fields = {"len": lin_norm(lin_add(la_, lb_))}
                return r
        if isinstance(a, Ref) and a.kind == "list" and not st.heap[a.ident].opaque:
            if isinstance(op, ast.Mult) and const_of(b) is not None:
                return st.alloc("list", items=list(st.heap[a.ident].items) * const_of(b))
            if isinstance(op, ast.Add) and isinstance(b, Ref) and b.kind == "list" and not st.heap[b.ident].opaque:
                return st.alloc("list", items=list(st.heap[a.ident].items) + list(st.heap[b.ident].items))
        if isinstance(a, Seq) and isinstance(op, ast.Mult):
            n = const_of(b)
            if n is not None and a.kind in ("tuple", "list"):
                return Seq(a.items * n, a.kind)
        if isinstance(a, Seq) and isinstance(b, Seq) and isinstance(op, ast.Add):
            return Seq(a.items + b.items, a.kind)
        # a tuple repeated a symbolic number of times / concatenations with one: a sequence of unknown length whose elements are drawn
        # from a known finite set (`(FIRST,) + (MORE,) * (n - 2) + (LAST,)`)
        def _elems(x):
            if isinstance(x, Seq) and x.kind in ("tuple", "list"):
                return tuple(x.items), Lin({}, len(x.items))
            if isinstance(x, Sym) and x.ty == "repseq":
                return x.attrs["elems"], x.attrs["len"]
            return None
        if isinstance(op, ast.Mult) and isinstance(a, Seq) and a.kind in ("tuple", "list") and const_of(b) is None and ty_of(b) in ("int", "bool", None):
            ln_ = lin_scale(as_lin(b), len(a.items)) if as_lin(b) is not None else Lin({st.fresh_name("replen"): 1}, 0)
            return Sym(st.fresh_name("repseq"), "repseq", elems=tuple(a.items), len=ln_, notnone=True)
        if isinstance(op, ast.Add) and (isinstance(a, Sym) and a.ty == "repseq" or isinstance(b, Sym) and b.ty == "repseq"):
            ea, eb = _elems(a), _elems(b)
            if ea is not None and eb is not None:
                seen, el = set(), []
                for x in ea[0] + eb[0]:
                    k_ = norm(x).key() if hasattr(x, "key") else repr(x)
                    if k_ not in seen:
                        seen.add(k_)
                        el.append(x)
                return Sym(st.fresh_name("repseq"), "repseq", elems=tuple(el), len=lin_add(ea[1], eb[1], 1), notnone=True)
        ba, bb = as_bitv(a), as_bitv(b)
        if isinstance(op, (ast.BitAnd, ast.BitOr, ast.BitXor)):
            ba = ba if ba is not None else self.int_as_bits(a)
            bb = bb if bb is not None else self.int_as_bits(b)
            if ba is not None and bb is not None:
                f = {ast.BitAnd: bv_and, ast.BitOr: bv_or, ast.BitXor: bv_xor}[type(op)]
                r_ = norm(f(ba, bb))
                if isinstance(r_, BitV):
                    # a mask that keeps every bit the operand can have (`byte & 0xFF`, `x | 0`) leaves the operand as it is - keep the
                    # symbol, so that arithmetic on it stays linear
                    if isinstance(a, Sym) and r_.key() == ba.key():
                        return a
                    if isinstance(b, Sym) and r_.key() == bb.key():
                        return b
                return r_
        if isinstance(op, (ast.LShift, ast.RShift)):
            n = const_of(b)
            ba = ba if ba is not None else self.int_as_bits(a)
            if n is not None and ba is not None:
                r = (bv_shl if isinstance(op, ast.LShift) else bv_shr)(ba, n)
                if r is None:
                    return Raised("ValueError", node, fr.func if fr else None, "negative shift")
                return norm(r)
            if ba is not None and bb is not None:
                iv = interval(bb)
                if iv and iv[0] is not None and iv[1] is not None and 0 <= iv[0] and iv[1] - iv[0] <= 16:
                    # join over the finite shift range: keep only deps
                    d = deps_of(ba) | deps_of(bb)
                    lo_hi = interval(ba)
                    rng = None
                    if lo_hi and lo_hi[0] is not None and lo_hi[0] >= 0 and lo_hi[1] is not None:
                        rng = ((lo_hi[0] << iv[0]) if isinstance(op, ast.LShift) else (lo_hi[0] >> iv[1]),
                               (lo_hi[1] << iv[1]) if isinstance(op, ast.LShift) else (lo_hi[1] >> iv[0]))
                    u = Sym(st.fresh_name("shift"), "int", rng=rng, deps=frozenset(d))
                    return u
            return Unknown(deps_of(a) | deps_of(b), ty="int")
        if isinstance(op, (ast.Add, ast.Sub)):
            la, lb = as_lin(a), as_lin(b)
            if isinstance(a, BitV) and isinstance(b, (BitV, Const)) and isinstance(op, ast.Add) and bb is not None:
                return norm(bv_add(ba, bb))
            if isinstance(b, BitV) and isinstance(a, Const) and isinstance(op, ast.Add) and ba is not None:
                return norm(bv_add(ba, bb))
            if la is not None and lb is not None:
                return lin_norm(lin_add(la, lb, 1 if isinstance(op, ast.Add) else -1))
            ia, ib = interval(a), interval(b)
            if ia and ib and None not in ia and None not in ib:
                if isinstance(op, ast.Add):
                    rng = (ia[0] + ib[0], ia[1] + ib[1])
                else:
                    rng = (ia[0] - ib[1], ia[1] - ib[0])
                return Sym(st.fresh_name("arith"), "int", rng=rng, deps=frozenset(deps_of(a) | deps_of(b)))
            return Unknown(deps_of(a) | deps_of(b), ty="int")
        if isinstance(op, ast.Mult):
            la, lb = as_lin(a), as_lin(b)
            if la is not None and lb is not None:
                if not la.terms:
                    return lin_norm(lin_scale(lb, la.c))
                if not lb.terms:
                    return lin_norm(lin_scale(la, lb.c))
            ia, ib = interval(a), interval(b)
            if ia and ib and None not in ia and None not in ib:
                c = [x * y for x in ia for y in ib]
                return Sym(st.fresh_name("arith"), "int", rng=(min(c), max(c)), deps=frozenset(deps_of(a) | deps_of(b)))
            return Unknown(deps_of(a) | deps_of(b), ty="int")
        if isinstance(op, (ast.Mod, ast.FloorDiv)):
            n = const_of(b)
            if n is not None and n > 0 and (n & (n - 1)) == 0:
                k = n.bit_length() - 1
                ba = ba if ba is not None else self.int_as_bits(a)
                if ba is not None:
                    if isinstance(op, ast.Mod):
                        return norm(bv_and(ba, from_int(n - 1)))
                    return norm(bv_shr(ba, k))
            ia = interval(a)
            if n is not None and n > 0:
                if isinstance(op, ast.Mod):
                    return Sym(st.fresh_name("mod"), "int", rng=(0, n - 1), deps=frozenset(deps_of(a)))
                if ia and None not in ia:
                    return Sym(st.fresh_name("div"), "int", rng=(ia[0] // n, ia[1] // n), deps=frozenset(deps_of(a)))
            if n == 0:
                return Raised("ZeroDivisionError", node, fr.func if fr else None)
            return Unknown(deps_of(a) | deps_of(b), ty="int")
        return Unknown(deps_of(a) | deps_of(b))

    def _affine(self, op, a, b, st):
        """scale / offset bookkeeping for float codecs: (float symbol or unpacked integer) x constant + constant stays `base * k + c`
        (kept in st.extra['affine'] by symbol name), so that an encoder's and a decoder's scale factors can be compared"""
        if not isinstance(op, (ast.Mult, ast.Add, ast.Sub, ast.Div)):
            return None
        x, c, swapped = (a, b, False) if isinstance(b, Const) else ((b, a, True) if isinstance(a, Const) else (None, None, False))
        if x is None or not isinstance(c.v, (int, float)) or isinstance(c.v, bool) or not isinstance(x, Sym):
            return None
        reg = st.extra.get("affine", {})
        cur = reg.get(x.name)
        if cur is None:
            if not (x.ty == "float" or (x.ty == "int" and x.attrs.get("unpack"))):
                return None
            cur = (x.name, 1.0, 0.0, ())
        base, k, off, conv = cur
        cv = float(c.v)
        if isinstance(op, ast.Mult):
            k, off = k * cv, off * cv
        elif isinstance(op, ast.Div):
            if swapped or cv == 0:
                return None
            k, off = k / cv, off / cv
        elif isinstance(op, ast.Add):
            off = off + cv
        else:
            k, off = (-k, cv - off) if swapped else (k, off - cv)
        nm = st.fresh_name("affine")
        reg = dict(reg)
        reg[nm] = (base, k, off, conv)
        st.extra["affine"] = reg
        return Sym(nm, "float", deps=frozenset(deps_of(x)) | {x.name})

    def _list_len(self, r, st):
        cell = st.heap[r.ident]
        if not cell.opaque:
            return Lin({}, len(cell.items))
        if cell.fields and cell.fields.get("len") is not None:
            return as_lin(norm(cell.fields["len"]))
        return None

    def int_as_bits(self, v):
        """view an int-typed symbol as a bit vector with per-bit sources"""
        if isinstance(v, Sym) and v.ty in ("int", "bool"):
            rng = v.attrs.get("rng")
            width = NBITS
            hi = ("s", (v.name, "hi"), False)
            if rng and rng[0] is not None and rng[0] >= 0:
                hi = 0
                if rng[1] is not None:
                    width = min(NBITS, max(1, rng[1].bit_length()))
            if v.ty == "bool":
                width, hi = 1, 0
            bits = tuple(("s", (v.name, i), False) if i < width else (0 if hi == 0 else ("s", (v.name, i), False)) for i in range(NBITS))
            return BitV(bits, hi, rng if rng and None not in rng else None)
        if isinstance(v, Unknown) and v.ty in ("int", "bool"):
            d = frozenset(v.deps) or frozenset({("unknown",)})
            t = ("m", d)
            return BitV((t,) * NBITS, t)
        if isinstance(v, Lin):
            d = frozenset(v.terms)
            t = ("m", d)
            return BitV((t,) * NBITS, t)
        return None

    @staticmethod
    def fold(op, x, y):
        t = type(op)
        if t is ast.Add:
            r = x + y
        elif t is ast.Sub:
            r = x - y
        elif t is ast.Mult:
            r = x * y
        elif t is ast.Div:
            r = x / y
        elif t is ast.FloorDiv:
            r = x // y
        elif t is ast.Mod:
            r = x % y
        elif t is ast.Pow:
            r = x ** y
        elif t is ast.LShift:
            r = x << y
        elif t is ast.RShift:
            r = x >> y
        elif t is ast.BitOr:
            r = x | y
        elif t is ast.BitAnd:
            r = x & y
        elif t is ast.BitXor:
            r = x ^ y
        else:
            raise ValueError
        if isinstance(r, bytes):
            return Bytes([(("const", r), Const(len(r)))], "bytes")
        return Const(r)

    # --------------------------------------------------------------- bytes
    def as_bytes(self, v, st):
        """view a value as Bytes (fresh view; origin kept) or None"""
        if isinstance(v, Bytes):
            return v
        if isinstance(v, Const) and isinstance(v.v, (bytes, bytearray)):
            return Bytes([(("const", bytes(v.v)), Const(len(v.v)))], "bytes")
        if isinstance(v, Ref) and v.kind == "bytearray":
            cell = st.heap[v.ident]
            if (cell.fields or {}).get("__packed__") is not None:
                return Bytes(list(cell.fields["__packed__"].parts), "bytearray", origin=("heap", v.ident))
            if cell.opaque:
                ln = cell.fields.get("len") if cell.fields else None
                return Bytes([(("heap", v.label or v.ident), ln if ln is not None else Unknown(ty="int"))], "bytearray", origin=("heap", v.ident))
            return Bytes([(("items", tuple(norm(i).key() for i in cell.items), tuple(cell.items)), Const(len(cell.items)))], "bytearray", origin=("heap", v.ident))
        if isinstance(v, (Sym, Unknown)) and v.ty in ("bytes", "bytearray", "byteslike"):
            ln = v.attrs.get("len") if isinstance(v, Sym) else None
            return Bytes([(("sym", getattr(v, "name", "?")), ln if ln is not None else Unknown(ty="int"))], v.ty)
        return None

    def bytes_binop(self, op, a, b, st):
        if isinstance(op, ast.Add):
            x, y = self.as_bytes(a, st), self.as_bytes(b, st)
            if x is not None and y is not None:
                kind = x.kind if x.kind != "byteslike" else "byteslike"
                parts = list(x.parts) + list(y.parts)
                # adjacent literal parts are one literal (b"\x71.." + b"\0" is the 5-byte constant)
                merged = []
                for tag, ln in parts:
                    if merged and tag[0] == "const" and merged[-1][0][0] == "const":
                        cb = merged[-1][0][1] + tag[1]
                        merged[-1] = (("const", cb), Const(len(cb)))
                    else:
                        merged.append((tag, ln))
                return Bytes(merged, kind)
            return None
        if isinstance(op, ast.Mult):
            x, n = self.as_bytes(a, st), b
            if x is None:
                x, n = self.as_bytes(b, st), a
            if x is None:
                return None
            ln = as_lin(norm(n))
            if len(x.parts) == 1 and x.parts[0][0][0] == "const" and ln is not None:
                cb = x.parts[0][0][1]
                if not ln.terms:
                    return Bytes([(("const", cb * max(0, ln.c)), Const(len(cb) * max(0, ln.c)))], x.kind)
                if len(cb) == 1:
                    return Bytes([(("fill", cb[0]), lin_norm(ln))], x.kind)
            if len(x.parts) == 1 and ln is not None and not ln.terms:
                return Bytes(x.parts * max(0, ln.c), x.kind)
            return Bytes([(("unknown", "mult"), Unknown(ty="int"))], x.kind)
        return None

    def concrete_bytes(self, v, st):
        """python bytes when a bytes-like abstract value is fully known, else None"""
        if isinstance(v, Const) and isinstance(v.v, (bytes, bytearray)):
            return bytes(v.v)
        if isinstance(v, Bytes):
            out = b""
            for tag, _ln in v.parts:
                if tag[0] != "const":
                    return None
                out += tag[1]
            return out
        if isinstance(v, Ref) and v.kind == "bytearray":
            cell = st.heap[v.ident]
            if cell.opaque:
                return None
            cs = [const_of(norm(i)) for i in cell.items]
            if all(isinstance(c, int) and 0 <= c <= 255 for c in cs):
                return bytes(cs)
        return None

    # ------------------------------------------------------------- compare
    def ev_Compare(self, e, st, fr):
        out = []
        for s, t in self.branch(e, st, fr, record=False):
            if isinstance(t, Raised):
                out.append((s, t))
            elif t is None:
                lu = self._last_unknown
                lc = self._last_cmp
                # only comparisons of immutable abstract values are deferred: a heap object may change between evaluation and branch
                if len(e.ops) == 1 and lc is not None and lc[0] is e and not any(isinstance(x, Ref) for x in lc[1]):
                    lu = Unknown(lu.deps, ty="bool", cmp=(e, lc[1], False, fr.fid))
                out.append((s, lu))
            else:
                out.append((s, Const(bool(t))))
        return out

    def compare(self, op, a, b, st):
        """True/False/None"""
        a, b = norm(a), norm(b)
        t = type(op)
        if t in (ast.Is, ast.IsNot):
            r = None
            if isinstance(a, Const) and isinstance(b, Const):
                r = (a.v is b.v) if (a.v is None or b.v is None or isinstance(a.v, bool) or isinstance(b.v, bool)) else (a.v == b.v)
            elif isinstance(b, Const) and b.v is None:
                if isinstance(a, (BitV, Lin, Bytes, Seq, Ref)):
                    r = False
                elif isinstance(a, Sym) and (a.attrs.get("notnone") or a.ty in ("int", "bool", "bytes", "bytearray", "byteslike", "str", "float")) and not a.attrs.get("maybenone"):
                    r = False
            elif isinstance(a, Ref) and isinstance(b, Ref):
                r = a.ident == b.ident
            elif isinstance(b, Const) and isinstance(b.v, bool):
                # `x is True/False`: containers and payloads are never the bool singletons; a value produced by bool()/comparison is one of them
                if isinstance(a, (Ref, Bytes, Seq)) or (isinstance(a, Const) and not isinstance(a.v, bool)):
                    r = False
                elif isinstance(a, BitV) and a.rng == (0, 1) or (isinstance(a, (Sym, Unknown)) and a.ty == "bool"):
                    tv = self.truth(a, st, None)
                    r = None if tv is None else (tv == b.v)
            if r is None:
                return None
            return r if t is ast.Is else not r
        if t in (ast.In, ast.NotIn):
            r = None
            items = None
            if isinstance(b, Seq):
                items = b.items
            elif isinstance(b, Ref) and b.kind in ("list", "set") and not st.heap[b.ident].opaque:
                items = st.heap[b.ident].items
            elif isinstance(b, Const) and isinstance(b.v, (dict, tuple, list, frozenset, set)):
                if isinstance(a, Const):
                    try:
                        r = a.v in b.v
                        return r if t is ast.In else not r
                    except TypeError:
                        return None
                items = [Const(k) for k in b.v]
            if items is not None:
                res = [self.compare(ast.Eq(), a, it, st) for it in items]
                if any(x is True for x in res):
                    r = True
                elif all(x is False for x in res):
                    r = False
            if r is None:
                return None
            return r if t is ast.In else not r
        if isinstance(a, Const) and isinstance(b, Const):
            try:
                return {ast.Eq: lambda: a.v == b.v, ast.NotEq: lambda: a.v != b.v, ast.Lt: lambda: a.v < b.v,
                        ast.LtE: lambda: a.v <= b.v, ast.Gt: lambda: a.v > b.v, ast.GtE: lambda: a.v >= b.v}[t]()
            except Exception:
                return None
        if t in (ast.Eq, ast.NotEq):
            r = None
            ca, cb = self.concrete_bytes(a, st), self.concrete_bytes(b, st)
            if ca is not None and cb is not None:
                return (ca == cb) if t is ast.Eq else (ca != cb)
            if isinstance(a, Const) and a.v is None and isinstance(b, (BitV, Bytes, Lin, Ref, Seq)):
                r = False
            if isinstance(b, Const) and b.v is None and isinstance(a, (BitV, Bytes, Lin, Ref, Seq)):
                r = False
            ba, bb = as_bitv(a), as_bitv(b)
            if ba is not None and bb is not None:
                same = True
                for x, y in zip(ba.bits + (ba.hi,), bb.bits + (bb.hi,)):
                    if x in (0, 1) and y in (0, 1) and x != y:
                        r = False
                    if x != y or (x not in (0, 1) and x[0] == "m"):
                        same = False
                if same and r is None:
                    r = True
            if r is None:
                la, lb = as_lin(a), as_lin(b)
                if la is not None and lb is not None:
                    sgn = self.lin_sign(lin_add(la, lb, -1), st)
                    if sgn == "==0":
                        r = True
                    elif sgn in (">0", "<0", "!=0"):
                        r = False
            if r is None:
                ia, ib = interval(a), interval(b)
                if ia and ib and None not in ia and None not in ib and (ia[1] < ib[0] or ib[1] < ia[0]):
                    r = False
            if r is None and isinstance(a, Seq) and isinstance(b, Seq) and len(a.items) != len(b.items):
                r = False
            if r is None:
                return None
            return r if t is ast.Eq else not r
        # ordering
        la, lb = as_lin(a), as_lin(b)
        if la is not None and lb is not None:
            sgn = self.lin_sign(lin_add(la, lb, -1), st)  # a - b
            tbl = {
                ast.Lt: {"<0": True, ">0": False, ">=0": False, "==0": False},
                ast.LtE: {"<0": True, "<=0": True, "==0": True, ">0": False},
                ast.Gt: {">0": True, "<0": False, "<=0": False, "==0": False},
                ast.GtE: {">0": True, ">=0": True, "==0": True, "<0": False},
            }
            if sgn in tbl[t]:
                return tbl[t][sgn]
        ia, ib = interval(a), interval(b)
        if ia and ib:
            alo, ahi = ia
            blo, bhi = ib
            if t is ast.Lt:
                if ahi is not None and blo is not None and ahi < blo:
                    return True
                if alo is not None and bhi is not None and alo >= bhi:
                    return False
            if t is ast.LtE:
                if ahi is not None and blo is not None and ahi <= blo:
                    return True
                if alo is not None and bhi is not None and alo > bhi:
                    return False
            if t is ast.Gt:
                if alo is not None and bhi is not None and alo > bhi:
                    return True
                if ahi is not None and blo is not None and ahi <= blo:
                    return False
            if t is ast.GtE:
                if alo is not None and bhi is not None and alo >= bhi:
                    return True
                if ahi is not None and blo is not None and ahi < blo:
                    return False
        return None

    # -------------------------------------------------------------- branch
    def branch(self, test, st, fr, record=True):
        """evaluate a condition; list of (state, True|False|Raised).
        Unknown atoms fork the state (recorded as 'cond' events + refinement).
        With record=False unknown atoms yield None instead of forking."""
        if isinstance(test, ast.BoolOp):
            is_and = isinstance(test.op, ast.And)
            outs, work = [], [(st, 0)]
            while work:
                s, i = work.pop()
                for s1, t in self.branch(test.values[i], s, fr, record):
                    if isinstance(t, Raised):
                        outs.append((s1, t))
                    elif t is None:
                        outs.append((s1, None))
                    elif t == is_and and i + 1 < len(test.values):
                        work.append((s1, i + 1))
                    else:
                        outs.append((s1, t))
            return outs
        if isinstance(test, ast.UnaryOp) and isinstance(test.op, ast.Not):
            res = []
            for s, t in self.branch(test.operand, st, fr, record):
                if t is None:
                    ov = self._last_unknown
                    lc = self._last_cmp
                    c_ = None
                    if isinstance(ov, Unknown) and ov.cmp is not None:
                        c_ = (ov.cmp[0], ov.cmp[1], not ov.cmp[2], ov.cmp[3])
                    elif lc is not None and lc[0] is test.operand and len(test.operand.ops) == 1 and not any(isinstance(x, Ref) for x in lc[1]):
                        c_ = (lc[0], lc[1], True, fr.fid)
                    self._last_unknown_not = Unknown(deps_of(ov), ty="bool", cmp=c_)
                    self._last_unknown = self._last_unknown_not
                    self._last_cmp = None
                res.append((s, t if isinstance(t, Raised) or t is None else (not t)))
            return res
        if isinstance(test, ast.Compare) and len(test.ops) == 1 and isinstance(test.ops[0], (ast.Eq, ast.NotEq)) and isinstance(test.left, ast.Tuple) \
                and isinstance(test.comparators[0], ast.Tuple) and len(test.left.elts) == len(test.comparators[0].elts) and test.left.elts:
            # (a, b, c) == (x, y, z): element-wise, left to right (all operands are evaluated by Python before comparing; the operands of
            # such comparisons in the package are side-effect free attribute reads)
            key = id(test)
            syn = self._tuple_cmp_cache.get(key)
            if syn is None:
                eq = isinstance(test.ops[0], ast.Eq)
                parts = [ast.Compare(left=l_, ops=[ast.Eq() if eq else ast.NotEq()], comparators=[r_]) for l_, r_ in zip(test.left.elts, test.comparators[0].elts)]
                syn = ast.BoolOp(op=ast.And() if eq else ast.Or(), values=parts) if len(parts) > 1 else parts[0]
                ast.copy_location(syn, test)
                for p_ in parts:
                    ast.copy_location(p_, test)
                ast.fix_missing_locations(syn)
                self._tuple_cmp_cache[key] = syn
            return self.branch(syn, st, fr, record)
        if isinstance(test, ast.Compare) and len(test.ops) > 1:
            # a op1 b op2 c  ==  (a op1 b) and (b op2 c); operands evaluated once
            outs = []
            for s, vals in self.ev_list([test.left] + list(test.comparators), st, fr):
                if isinstance(vals, Raised):
                    outs.append((s, vals))
                    continue
                states = [(s, True)]
                for k, op in enumerate(test.ops):
                    nxt = []
                    for s1, t in states:
                        if t is not True:
                            nxt.append((s1, t))
                            continue
                        sub = ast.Compare(left=([test.left] + list(test.comparators))[k], ops=[op], comparators=[test.comparators[k]])
                        ast.copy_location(sub, test)
                        nxt.extend(self.decide(sub, self.compare(op, vals[k], vals[k + 1], s1), s1, fr, record, (vals[k], vals[k + 1])))
                    states = nxt
                outs.extend(states)
            return outs
        if isinstance(test, ast.Compare):
            outs = []
            for s, vals in self.ev_list([test.left, test.comparators[0]], st, fr):
                if isinstance(vals, Raised):
                    outs.append((s, vals))
                    continue
                outs.extend(self.decide(test, self.compare(test.ops[0], vals[0], vals[1], s), s, fr, record, tuple(vals)))
            return outs
        outs = []
        for s, v in self.ev(test, st, fr):
            if isinstance(v, Raised):
                outs.append((s, v))
                continue
            if isinstance(v, Ref) and v.kind == "obj" and v.cls is not None and v.cls.lookup("__bool__") is None:
                hit = v.cls.lookup("__len__")
                if hit and hit[0] == "method":
                    for s2, ln in self.call_func(s, fr, test, hit[1], v.cls, v, [], {}):
                        if isinstance(ln, Raised):
                            outs.append((s2, ln))
                        else:
                            outs.extend(self.decide(test, self.truth(ln, s2, fr), s2, fr, record, ln))
                    continue
            outs.extend(self.decide(test, self.truth(v, s, fr), s, fr, record, v))
        return outs

    _last_unknown = Unknown(ty="bool")
    _last_unknown_not = Unknown(ty="bool")
    _last_cmp = None
    _tuple_cmp_cache = {}

    def compare_now(self, op, a, b, st, fr):
        """compare() plus what the truth facts (non-zero / zero sets, ranges) say about `x != 0` / `x == 0`"""
        r = self.compare(op, a, b, st)
        if r is None and isinstance(op, (ast.Eq, ast.NotEq)):
            for x, y in ((a, b), (b, a)):
                if isinstance(norm(y), Const) and norm(y).v == 0 and not isinstance(norm(y).v, bool):
                    t = self.truth(x, st, fr)
                    if t is not None:
                        return t if isinstance(op, ast.NotEq) else (not t)
        return r

    def decide(self, node, t, st, fr, record, val):
        if t is not None:
            if record:
                self.event(st, fr, "known", node, (bool(t), val))
            return [(st, bool(t))]
        d = set()
        for x in (val if isinstance(val, tuple) else (val,)):
            d |= deps_of(x)
        self._last_unknown = Unknown(d, ty="bool")
        if not record:
            self.event(st, fr, "cmp", node, (None, val))
            self._last_cmp = (node, val) if isinstance(node, ast.Compare) and isinstance(val, tuple) and len(val) == 2 else None
            if isinstance(val, Unknown) and val.cmp is not None:
                self._last_unknown = val
            return [(st, None)]
        dv = norm(val) if not isinstance(val, tuple) else None
        if isinstance(dv, Unknown) and dv.cmp is not None:
            # the boolean stands for an earlier, still undecided comparison: decide that comparison now
            cnode, cvals, neg, fid = dv.cmp
            t2 = self.compare_now(cnode.ops[0], cvals[0], cvals[1], st, fr)
            if t2 is not None:          # what was learned since then already settles it: no fork
                pol = (t2 != neg)
                self.event(st, fr, "known", cnode, (t2, cvals))
                self.event(st, fr, "known", node, (pol, val))
                self.refine(node, pol, st, fr, val)
                return [(st, pol)]
        sa, sb = st, st.fork()
        self.budget()
        if isinstance(dv, Unknown) and dv.cmp is not None:
            for s_, pol in ((sa, True), (sb, False)):
                self.event(s_, fr, "cond", cnode, (pol != neg, cvals))
                self.refine_deferred(cnode, pol != neg, s_, fr, cvals, fid)
        self.event(sa, fr, "cond", node, (True, val))
        self.refine(node, True, sa, fr, val)
        self.event(sb, fr, "cond", node, (False, val))
        self.refine(node, False, sb, fr, val)
        oc = getattr(self.model, "on_cond", None)
        if oc is not None:
            oc(self, sa, fr, node, True, val)
            oc(self, sb, fr, node, False, val)
        # a test of one single symbolic bit fixes that bit on both branches
        bv = norm(val) if not isinstance(val, tuple) else None
        if isinstance(bv, BitV):
            live = [b for b in bv.bits + (bv.hi,) if b != 0]
            if len(live) == 1 and isinstance(live[0], tuple) and live[0][0] == "s":
                src, neg = live[0][1], live[0][2]
                for s_, pol in ((sa, True), (sb, False)):
                    bf = dict(s_.extra.get("bitfacts", {}))
                    bf[src] = int(pol != neg)
                    s_.extra["bitfacts"] = bf
        return [(sa, True), (sb, False)]
