"""L4 - path-sensitive abstract interpreter over the absval domains.

Walks function bodies (ast) abstractly: unknown conditions fork the path and are
recorded as atoms; resolved repo callees are inlined (depth-bounded) unless the
plugged `Model` handles them as effects (SPI primitives, summaries); loops are
unrolled to a bound and cut beyond it (cut paths are counted, never silently
treated as exits).  No repo code is imported or executed and no solver is used.
"""
import ast
from .absval import *  # noqa: F401,F403
from .absval import (V, Const, Unknown, Sym, Seq, BitV, Lin, Bytes, as_bitv, as_lin, const_of, norm,
                     from_int, bv_and, bv_or, bv_xor, bv_not, bv_shl, bv_shr, bv_add, interval,
                     with_range, lin_add, lin_norm, lin_scale, term_deps, NBITS)
from .model import AnalysisError, Ctx


class Ref(V):
    """reference to a heap cell: kind 'obj' | 'list' | 'bytearray' | 'dict' | 'set' | 'ext'"""
    __slots__ = ("ident", "kind", "cls", "label")

    def __init__(self, ident, kind, cls=None, label=None):
        self.ident, self.kind, self.cls, self.label = ident, kind, cls, label

    def __repr__(self):
        return "Ref<%s %s #%s>" % (self.kind, self.cls.name if self.cls else "", self.label or self.ident)

    def key(self):
        return ("R", self.kind, self.label or self.ident)


class Raised(V):
    def __init__(self, exc, node=None, func=None, msg=""):
        self.exc, self.node, self.func, self.msg = exc, node, func, msg

    def __repr__(self):
        return "Raised(%s)" % self.exc

    def key(self):
        return ("X", self.exc)


class Cell:
    __slots__ = ("kind", "fields", "items", "opaque")

    def __init__(self, kind, fields=None, items=None, opaque=False):
        self.kind, self.fields, self.items, self.opaque = kind, fields, items, opaque

    def copy(self):
        return Cell(self.kind, dict(self.fields) if self.fields is not None else None,
                    list(self.items) if self.items is not None else None, self.opaque)


class Event:
    __slots__ = ("kind", "node", "data", "func", "depth", "seq", "_fp", "loop")

    def __init__(self, kind, node, data, func, depth, seq=0):
        self.kind, self.node, self.data, self.func, self.depth, self.seq = kind, node, data, func, depth, seq
        self._fp = None
        self.loop = None      # (function, while-node) of the innermost loop whose *test* was being evaluated (also inside callees)

    def __repr__(self):
        return "<%s %s @%s:%s>" % (self.kind, self.data, self.func.qualname if self.func else "?", getattr(self.node, "lineno", "?"))


class State:
    def __init__(self):
        self.heap = {}
        self.envs = {}
        self.trace = []
        self.facts = []  # list of (Lin, op) with op in '>0', '>=0', '==0', '!=0'
        self.extra = {}
        self.next_id = [1]  # shared counter (list so forks keep allocating unique ids)
        self.fresh = [0]

    def fork(self):
        s = State.__new__(State)
        s.heap = {k: c.copy() for k, c in self.heap.items()}
        s.envs = {k: dict(e) for k, e in self.envs.items()}
        s.trace = list(self.trace)
        s.facts = list(self.facts)
        s.extra = {k: (v.copy() if hasattr(v, "copy") else v) for k, v in self.extra.items()}
        s.next_id, s.fresh = self.next_id, self.fresh
        return s

    def alloc(self, kind, cls=None, fields=None, items=None, label=None, opaque=False):
        i = self.next_id[0]
        self.next_id[0] += 1
        self.heap[i] = Cell(kind, fields if fields is not None else ({} if kind in ("obj", "ext") else None),
                            items if items is not None else ([] if kind in ("list", "bytearray", "dict", "set") else None), opaque)
        return Ref(i, kind, cls, label)

    def fresh_name(self, base):
        self.fresh[0] += 1
        return (base, self.fresh[0])


class Frame:
    _n = 0

    def __init__(self, func, recv, ctx, st, env, depth, self_val=None):
        Frame._n += 1
        self.fid = Frame._n
        self.func, self.recv, self.ctx, self.depth, self.self_val = func, recv, ctx, depth, self_val
        if st is not None:
            st.envs[self.fid] = env


class Model:
    """hooks a rule plugs into the interpreter"""

    def on_call(self, it, st, fr, node, target, args, kwargs):
        """return None to inline/default, or a list of (state, value)"""
        return None

    def on_ext_store(self, it, st, fr, node, path, val):
        pass

    def on_ext_load(self, it, st, fr, node, path):
        return None

    def on_field_load(self, it, st, fr, node, ref, attr):
        return None

    def on_recursion(self, it, st, fr, node, target, args, kwargs):
        raise AnalysisError("recursion into %s not handled" % target.func.qualname)

    def on_field_store(self, it, st, fr, node, ref, attr, val):
        pass


class Limits:
    def __init__(self, max_paths=20000, loop_unroll=2, concrete_loop=80, depth=10):
        self.max_paths, self.loop_unroll, self.concrete_loop, self.depth = max_paths, loop_unroll, concrete_loop, depth


def path_text(e):
    """normalised access path text of Name/Attribute chains, else None"""
    if isinstance(e, ast.Name):
        return e.id
    if isinstance(e, ast.Attribute):
        b = path_text(e.value)
        return None if b is None else b + "." + e.attr
    return None


class InterpBase:
    def __init__(self, prog, model=None, limits=None):
        self.prog, self.model, self.lim = prog, model or Model(), limits or Limits()
        self.npaths = 0
        self.cuts = 0
        self.stack = []
        self.warnings = []
        self.seq = 0
        self.collect = set()
        self.collected = []

    # ------------------------------------------------------------ utilities
    def event(self, st, fr, kind, node, data=None):
        self.seq += 1
        ev = Event(kind, node, data, fr.func if fr else None, fr.depth if fr else 0, self.seq)
        lt = getattr(self, "loop_tests", None)
        if lt:
            ev.loop = lt[-1]
        st.trace.append(ev)
        if kind in self.collect:
            # kept even if the path that produced it is later merged with an equivalent one
            self.collected.append((ev, [f for f, _r in self.stack]))
        return ev

    def warn(self, msg):
        if msg not in self.warnings:
            self.warnings.append(msg)

    def budget(self):
        self.npaths += 1
        if self.npaths > self.lim.max_paths:
            raise AnalysisError("path budget exceeded (%d)" % self.lim.max_paths)

    # --------------------------------------------------------------- truth
    def truth(self, v, st, fr):
        """True / False / None(unknown)"""
        v = norm(v)
        if isinstance(v, Const):
            try:
                return bool(v.v)
            except Exception:
                return None
        if isinstance(v, BitV):
            if any(b == 1 for b in v.bits) or v.hi == 1:
                return True
            if v.key() in st.extra.get("nonzero", ()):
                return True
            if v.key() in st.extra.get("zero", ()):
                return False
            iv = interval(v)
            if iv is not None and iv[0] is not None and iv[0] > 0:
                return True
            return None
        if isinstance(v, Seq):
            return len(v.items) > 0
        if isinstance(v, Bytes):
            ln = v.length()
            return self.lin_truth(ln, st)
        if isinstance(v, Lin):
            return self.lin_truth(v, st)
        if isinstance(v, Sym):
            if v.attrs.get("notnone") and v.ty in ("obj",):
                return True
            if "len" in v.attrs:
                return self.lin_truth(v.attrs["len"], st)
            iv = v.attrs.get("rng")
            if iv and iv[0] is not None and iv[0] > 0:
                return True
            if iv and iv[1] is not None and iv[1] < 0:
                return True
            return None
        if isinstance(v, Ref):
            cell = st.heap.get(v.ident)
            if v.kind in ("list", "bytearray", "dict", "set"):
                if cell.opaque:
                    return None
                return len(cell.items) > 0
            if v.kind == "obj" and v.cls is not None and v.cls.lookup("__len__") is None and v.cls.lookup("__bool__") is None:
                return True
            return None
        return None

    def lin_truth(self, ln, st):
        ln = norm(ln) if not isinstance(ln, Lin) else ln
        if isinstance(ln, Const):
            return bool(ln.v)
        l = as_lin(ln)
        if l is None:
            return None
        s = self.lin_sign(l, st)
        if s in (">0", "<0", "!=0"):
            return True
        if s == "==0":
            return False
        return None

    def resolve_mins(self, l, st, depth=0):
        """replace min(A, B) symbols by A or B when the facts known *now* order them"""
        mins = st.extra.get("mins")
        if not mins or depth > 3:
            return l
        for k, coef in list(l.terms.items()):
            if k in mins:
                a, b = mins[k]
                sgn = self.lin_sign(lin_add(a, b, -1), st, depth + 1)
                pick = b if sgn in (">0", ">=0", "==0") else (a if sgn in ("<0", "<=0") else None)
                if pick is not None:
                    rest = Lin({x: c for x, c in l.terms.items() if x != k}, l.c)
                    l = lin_add(rest, lin_scale(pick, coef))
        return l

    def lin_sign(self, l, st, depth=0):
        """'>0' '>=0' '==0' '<0' '<=0' '!=0' or None using stored facts and symbol ranges"""
        l = self.resolve_mins(l, st, depth)
        if not l.terms:
            return ">0" if l.c > 0 else ("<0" if l.c < 0 else "==0")
        # interval from symbol ranges
        lo = hi = l.c
        for k, coef in l.terms.items():
            r = st.extra.get("symrng", {}).get(k, (None, None))
            a, b = r
            if coef > 0:
                lo = None if (lo is None or a is None) else lo + coef * a
                hi = None if (hi is None or b is None) else hi + coef * b
            else:
                lo = None if (lo is None or b is None) else lo + coef * b
                hi = None if (hi is None or a is None) else hi + coef * a
        if lo is not None and lo > 0:
            return ">0"
        if hi is not None and hi < 0:
            return "<0"
        if lo is not None and hi is not None and lo == hi == 0:
            return "==0"
        ge = lo is not None and lo >= 0
        le = hi is not None and hi <= 0
        ne = False
        for f, op in st.facts:
            d = lin_add(l, f, -1)
            if not d.terms:  # l = f + d.c
                if op == ">0" and d.c >= 0:
                    return ">0"
                if op == ">=0" and d.c > 0:
                    return ">0"
                if op == ">=0" and d.c == 0:
                    ge = True
                if op == ">0" and d.c == -1:
                    ge = True
                if op == "==0":
                    return ">0" if d.c > 0 else ("<0" if d.c < 0 else "==0")
                if op == "!=0" and d.c == 0:
                    ne = True
            d = lin_add(l, f, 1)
            if not d.terms:  # l = -f + d.c
                if op == ">0" and d.c <= 0:
                    return "<0"
                if op == ">=0" and d.c < 0:
                    return "<0"
                if op == ">=0" and d.c == 0:
                    le = True
                if op == ">0" and d.c == 1:
                    le = True
                if op == "==0":
                    return ">0" if d.c > 0 else ("<0" if d.c < 0 else "==0")
                if op == "!=0" and d.c == 0:
                    ne = True
        if ge and le:
            return "==0"
        if ge and ne:
            return ">0"
        if le and ne:
            return "<0"
        if ge:
            return ">=0"
        if le:
            return "<=0"
        if ne:
            return "!=0"
        return None

    def add_fact(self, st, l, op):
        if l.terms:
            st.facts.append((l, op))
            # single-symbol bounds tighten the symbol range table
            if len(l.terms) == 1:
                (k, coef), = l.terms.items()
                if abs(coef) == 1:
                    rngs = dict(st.extra.get("symrng", {}))
                    lo, hi = rngs.get(k, (None, None))
                    # coef*k + c op 0
                    if op in (">0", ">=0"):
                        bound = -l.c + (1 if op == ">0" else 0) if coef == 1 else None
                        if coef == 1:
                            lo = bound if lo is None else max(lo, bound)
                        else:
                            b2 = l.c - (1 if op == ">0" else 0)
                            hi = b2 if hi is None else min(hi, b2)
                    elif op == "==0":
                        val = -l.c if coef == 1 else l.c
                        lo = hi = val
                    rngs[k] = (lo, hi)
                    st.extra["symrng"] = rngs
