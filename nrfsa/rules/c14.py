"""C14 - a multicast reaches exactly the chosen network level, unacknowledged (clauses visible in one node's code)."""
import ast
from ..absval import Const, Sym, Bytes, Seq, BitV, norm, const_of, sym_bits, NBITS
from ..interp import Ref, Limits, State
from ..interp_expr import deps_of
from ..model import AnalysisError
from ..tables import rf24network as T, contract
from .c03 import Agg, value_matches
from . import net, c07

MCAST = T.CONSTANTS["NETWORK_MULTICAST_ADDR"]
POLL = T.CONSTANTS["NETWORK_POLL"]


def lvl_addr(level):
    return 0 if level == 0 else 1 << ((level - 1) * 3)


def level_domain(ck, agg, nn):
    """R14.1: multicast() and the multicast_level setter clamp to the same level domain 0..MAX_LEVEL; default = own level"""
    P = ck.prog
    mix = P.cls("network.mixins", "NetworkMixin")
    f_mc = P.method(mix, "multicast")
    f_set = P.method(mix, "multicast_level", "set")
    f_write = P.method(mix, "_write")
    nn.model.opaque[f_write.qualname] = c07.make_summary(nn, agg, "_write")
    n = 0
    for level in (None, -3, -1, 0, 1, 2, 3, 4, 5, 9):
        n += 1
        st, node = nn.fresh(fields={net.FN("_net_lvl"): 2, net.FN("_addr"): 0o15, net.FN("_frag_enabled"): True, "max_message_length": 144})
        msg = Bytes([(("param", "message"), Const(5))], "bytes", origin=("param", "message"))
        outs = nn.run(f_mc, node, [msg, Const(7)] + ([Const(level)] if level is not None else []), st)
        want = 2 if level is None else max(0, min(level, T.MAX_LEVEL))
        for out in outs:
            if out.kind != "return":
                agg.add("R14.1", f_mc, "multicast() does not raise for a short message", False, "multicast(level=%r) raises %s" % (level, out.value.exc))
                continue
            wr = [e for e in out.trace if e.kind == "summary" and e.data[0] == "_write"]
            agg.add("R14.5", f_mc, "multicast() transmits exactly once", len(wr) == 1, "%d _write() calls" % len(wr))
            if not wr:
                continue
            a = wr[0].data[3]["args"]
            got = const_of(norm(a[0]))
            agg.add("R14.1", f_mc, "multicast() addresses level min(4, max(level, 0)) (the node's own level by default)", got == lvl_addr(want),
                    "multicast(level=%r) is transmitted to the level address %s, i.e. level %s instead of level %d" % (
                        level, oct(got) if isinstance(got, int) else got, {lvl_addr(k): k for k in range(6)}.get(got, "?"), want))
            agg.add("R14.5", f_mc, "multicast() uses the multicast send type", const_of(norm(a[1])) == T.CONSTANTS["TX_MULTICAST"], "send type %r" % (a[1],))
            h = wr[0].data[3].get("header", {})
            agg.add("R14.5", f_mc, "the frame is addressed to NETWORK_MULTICAST_ADDR from this node", const_of(norm(h.get("to_node"))) == MCAST and const_of(norm(h.get("from_node"))) == 0o15,
                    "to_node %r from_node %r" % (h.get("to_node"), h.get("from_node")))
            agg.add("R14.5", f_mc, "the message type is the caller's", const_of(norm(h.get("message_type"))) == 7, "type %r" % (h.get("message_type"),))
            m = wr[0].data[3].get("message")
            agg.add("R14.5", f_mc, "the message is the caller's", isinstance(m, Bytes) and [p[0] for p in m.parts] == [("param", "message")], "message %r" % (m,))
            val = [e for e in out.trace if e.kind == "enter" and e.data.endswith("._validate_msg_len") and e.seq < wr[0].seq]
            agg.add("R14.5", f_mc, "the length is validated first", bool(val), "no validation before _write()")
    nn.model.opaque.pop(f_write.qualname, None)
    for lvl in (-2, 0, 1, 3, 4, 5, 8):
        n += 1
        st, node = nn.fresh(fields={net.FN("_net_lvl"): 2})
        outs = nn.run(f_set, node, [Const(lvl)], st)
        want = max(0, min(lvl, T.MAX_LEVEL))
        for out in outs:
            if out.kind != "return":
                agg.add("R14.1", f_set, "multicast_level setter does not raise", False, "raises %s" % out.value.exc)
                continue
            got = const_of(norm(out.state.heap[node.ident].fields.get(net.FN("_net_lvl"))))
            agg.add("R14.1", f_set, "multicast_level is clamped to 0..4", got == want, "multicast_level = %d stores %r" % (lvl, got))
            pa = [e for e in out.trace if e.kind == "pipe-address"]
            ok = len(pa) == 1 and const_of(norm(pa[0].data[0])) == lvl_addr(want) and const_of(norm(pa[0].data[1])) == 0
            agg.add("R14.1", f_set, "pipe 0 is re-opened on the shared address of that level", ok, "pipe address computed for %r" % ([(e.data[0], e.data[1]) for e in pa],))
    return n


def unacknowledged(ck, agg, nn):
    """R14.2: a multicast transmission is made with auto-ack off on pipe 0 (EN_AA bit 0 clear) on a pipe-0 address"""
    P = ck.prog
    mix = P.cls("network.mixins", "NetworkMixin")
    f = P.method(mix, "_write")
    f_upd = P.method(mix, "_net_update")
    sum_upd = c07.make_summary(nn, agg, "_net_update")
    nn.model.opaque[f_upd.qualname] = sum_upd
    nn.model.on_recursion = lambda it, st, fr, node, target, args, kw: sum_upd(nn.model, it, st, fr, node, target, [fr.self_val] + list(args), kw)
    n = 0
    for send_type in (T.CONSTANTS["TX_MULTICAST"], T.CONSTANTS["TX_PHYSICAL"], T.CONSTANTS["TX_NORMAL"], T.CONSTANTS["TX_ROUTED"]):
        for mlen, mtyp in ((4, 7), (30, 7), (4, 100)):
            n += 1
            st, node = nn.fresh(frame_pins={"message_type": mtyp}, msg_len=mlen)
            net.set_rng(st, "wd", (0, 0o7777))
            outs = nn.run(f, node, [Sym("wd", "int", rng=(0, 0o7777)), send_type], st, limits=Limits(max_paths=60000, loop_unroll=2, depth=14, concrete_loop=10))
            for out in outs:
                if out.kind == "return":
                    # back in RX mode nobody may acknowledge on the shared pipe-0 address: EN_AA.0 must be clear at every return
                    aa_end = const_of(norm(out.state.extra["regs"].get(contract.EN_AA)))
                    agg.add("R14.2", f, "the node returns to listening with auto-ack off on pipe 0 (it must not acknowledge multicasts of its level)", aa_end == 0x3E,
                            "_write(send_type %d) returns with EN_AA = %s" % (send_type, ("0x%02X" % aa_end) if isinstance(aa_end, int) else out.state.extra["regs"].get(contract.EN_AA)))
                for ev in out.trace:
                    if ev.kind == "summary" and ev.data[0] == "_net_update":
                        agg.add("R14.2", f, "while waiting for a NETWORK_ACK the node listens with auto-ack off on pipe 0", "EN_AA" not in ev.data[2], "nested update(): %s" % ev.data[2], ev.node)
                    if ev.kind != "radio-send":
                        continue
                    aa = const_of(norm(ev.data[5]["EN_AA"]))
                    if send_type == T.CONSTANTS["TX_MULTICAST"]:
                        agg.add("R14.2", f, "multicast frames are transmitted without requesting radio acknowledgements (EN_AA.0 = 0)", aa == 0x3E,
                                "a multicast frame is transmitted with EN_AA = %r" % (("0x%02X" % aa) if isinstance(aa, int) else ev.data[5]["EN_AA"],), ev.node)
                        pa = [e for e in out.trace if e.kind == "pipe-address" and e.seq < ev.seq]
                        agg.add("R14.2", f, "multicast frames are transmitted to a pipe-0 (level) address", bool(pa) and const_of(norm(pa[-1].data[1])) == T.MULTICAST_PIPE,
                                "pipe %r" % (pa[-1].data[1] if pa else None,), ev.node)
                    elif send_type in (T.CONSTANTS["TX_NORMAL"], T.CONSTANTS["TX_ROUTED"]):
                        agg.add("R14.2", f, "unicast frames request radio acknowledgements (EN_AA.0 = 1)", aa == 0x3F, "a routed frame is transmitted with EN_AA = %r" % (aa,), ev.node)
    nn.model.opaque.pop(f_upd.qualname, None)
    return n


def relay(ck, agg, nn):
    """R14.3: multicast reception: queue, then (relay on, levels permitting) exactly one re-broadcast to the next level; POLL never queued"""
    P = ck.prog
    mix = P.cls("network.mixins", "NetworkMixin")
    f = P.method(mix, "_handle_frame_for_other_node")
    f_write = P.method(mix, "_write")
    nn.model.opaque[f_write.qualname] = c07.make_summary(nn, agg, "_write")
    S = net.structs(P)
    for qc in ("FrameQueue", "FrameQueueFrag"):
        nn.model.opaque[P.method(S[qc], "enqueue").qualname] = net.sum_enqueue
    n = 0
    for mtype in (7, 100, POLL):
        for am in (True, False):
            for relay_on in (True, False):
                for lvl in (0, 1, 2, 3, 4):
                    for addr in (0o1, 0o4444):
                        n += 1
                        st, node = nn.fresh(frame_pins={"message_type": mtype, "to_node": MCAST}, fields={"allow_multicast": am, net.FN("_relay_enabled"): relay_on, net.FN("_net_lvl"): lvl, net.FN("_addr"): addr})
                        outs = nn.run(f, node, net.handler_args(f, mtype), st)
                        label = "multicast frame type %d at level %d (allow_multicast=%r, relay=%r, addr=%s)" % (mtype, lvl, am, relay_on, oct(addr))
                        for out in outs:
                            if out.kind != "return":
                                agg.add("R14.3", f, "multicast reception does not raise", False, "%s raises %s" % (label, out.value.exc))
                                continue
                            enq = [e for e in out.trace if e.kind == "enqueue"]
                            wr = [e for e in out.trace if e.kind == "summary" and e.data[0] == "_write"]
                            if not am:
                                agg.add("R14.3", f, "with allow_multicast off a multicast-addressed frame is not queued", not enq, "%s: queued" % label)
                                continue
                            if mtype == POLL and addr == 0o4444:
                                # what else an unconnected node does with a poll is outside the property; it must not offer itself as a parent
                                rep = [e for e in wr if const_of(norm(e.data[3]["args"][1])) == T.CONSTANTS["TX_PHYSICAL"]]
                                agg.add("R14.3", f, "an unconnected node (address 0o4444) never answers a NETWORK_POLL", not rep, "%s: %d poll replies" % (label, len(rep)))
                                continue
                            if mtype == POLL:
                                agg.add("R14.3", f, "NETWORK_POLL is answered, never queued", not enq, "%s: queued %d" % (label, len(enq)))
                                agg.add("R14.3", f, "NETWORK_POLL is answered at most once and never by an unconnected node", len(wr) <= 1 and not (addr == 0o4444 and wr), "%s: %d replies" % (label, len(wr)))
                                if wr:
                                    a = wr[0].data[3]["args"]
                                    agg.add("R14.3", f, "the poll reply is a direct (physical) transmission", const_of(norm(a[1])) == T.CONSTANTS["TX_PHYSICAL"], "%s: send type %r" % (label, a[1]))
                                continue
                            agg.add("R14.3", f, "a received multicast is queued for the application exactly once", len(enq) == 1, "%s: queued %d times" % (label, len(enq)))
                            if relay_on:
                                agg.add("R14.3", f, "with multicast_relay on, the frame is re-broadcast exactly once", len(wr) == 1, "%s: %d re-broadcasts" % (label, len(wr)))
                                if wr:
                                    a = wr[0].data[3]["args"]
                                    # levels 1..3 relay to the next level; a level-0 node's relay target is (0 << 3) = 0, its own address (never level 1)
                                    want_t = (lvl_addr(lvl) << 3) & 0xFFFF
                                    agg.add("R14.3", f, "the relay goes to the next level's address as a multicast (level 0 never relays down to level 1)", const_of(norm(a[0])) == want_t and const_of(norm(a[1])) == T.CONSTANTS["TX_MULTICAST"],
                                            "%s: relayed to %r with send type %r (expected %s)" % (label, a[0], a[1], oct(want_t)))
                                    agg.add("R14.3", f, "the frame is queued before it is relayed", bool(enq) and enq[0].seq < wr[0].seq, label)
                            else:
                                agg.add("R14.3", f, "without multicast_relay nothing is re-broadcast", not wr, "%s: %d transmissions" % (label, len(wr)))
    nn.model.opaque.pop(f_write.qualname, None)
    return n


def node_bits(name="node_addr"):
    """a 12-bit logical address with one provenance source per bit"""
    bits = tuple(("s", (name, i), False) if i < 12 else 0 for i in range(NBITS))
    return BitV(bits, 0, (0, 0o7777))


def digit_deps(v, name="node_addr"):
    """which octal digits of the address a value depends on"""
    return {d[1] // 3 for d in deps_of(norm(v)) if isinstance(d, tuple) and len(d) == 2 and d[0] == name and isinstance(d[1], int)}


def pipe_address(ck, agg, nn):
    """R14.4 (and R04.7): byte-wise dependence of _pipe_address on the node address"""
    P = ck.prog
    mix = P.cls("network.mixins", "NetworkMixin")
    f = P.method(mix, "_pipe_address")
    sv = nn.model.opaque.pop(f.qualname, None)
    n = 0
    level_addrs = {}
    try:
        for am in (True, False):
            for pipe in range(6):
                n += 1
                st, node = nn.fresh(fields={"allow_multicast": am})
                outs = nn.run(f, node, [node_bits(), Const(pipe)], st, limits=Limits(max_paths=4000, loop_unroll=6, depth=8, concrete_loop=12))
                agg.add("R14.4", f, "_pipe_address() has complete paths for every address length", len([o for o in outs if o.kind == "return"]) >= 5, "only %d paths" % len(outs))
                for out in outs:
                    if out.kind != "return":
                        agg.add("R14.4", f, "_pipe_address() does not raise for a 12-bit address", False, "pipe %d raises %s" % (pipe, out.value.exc))
                        continue
                    v = out.value
                    items = out.state.heap[v.ident].items if isinstance(v, Ref) and not out.state.heap[v.ident].opaque else None
                    agg.add("R14.4", f, "the result is a 5-byte address", items is not None and len(items) == 5, "returns %r" % (v,))
                    if items is None or len(items) != 5:
                        continue
                    iters = net.addr_digits(out)
                    zero = iters == 0
                    shared = am and pipe == 0 and not zero
                    if shared:
                        dep = set()
                        for b in items:
                            dep |= digit_deps(b)
                        agg.add("R14.4", f, "the shared pipe-0 address of a level depends on the node address only through its number of digits", not dep,
                                "pipe 0 with %d digit(s): bytes depend on digit(s) %r" % (iters, sorted(dep)))
                        c = [const_of(norm(b)) for b in items]
                        if iters in level_addrs and level_addrs[iters] != tuple(c):
                            agg.add("R14.4", f, "all nodes with the same number of address digits share one pipe-0 address", False,
                                    "level %d: some addresses give %r, others %r - nodes of one level listen on different multicast addresses" % (iters, level_addrs[iters], tuple(c)))
                        level_addrs[iters] = tuple(c)
                        agg.add("R14.4", f, "a level address is the prefix with one byte taken from address_suffix", c[0] == 0xCC and c[1] in (0xC3, 0x3C, 0x33, 0xCE, 0x3E, 0xE3) and c[2:] == [0xCC] * 3,
                                "level %d address bytes %r" % (iters, c))
                    else:
                        # ordinary address: byte 0 = suffix[pipe]; byte k (1..digits) depends on exactly digit k-1; the rest is the prefix
                        agg.add("R14.4", f, "byte 0 of an ordinary pipe address is address_suffix[pipe] and nothing else", const_of(norm(items[0])) == (0xC3, 0x3C, 0x33, 0xCE, 0x3E, 0xE3)[pipe],
                                "pipe %d: byte 0 is %r" % (pipe, items[0]))
                        for k in range(1, 5):
                            dd = digit_deps(items[k])
                            want = {k - 1} if k <= iters else set()
                            agg.add("R14.4", f, "byte k of an ordinary pipe address depends on exactly octal digit k-1 of the node address", dd == want,
                                    "pipe %d, %d digit(s): byte %d depends on digit(s) %r, expected %r" % (pipe, iters, k, sorted(dd), sorted(want)))
                            if k > iters:
                                agg.add("R14.4", f, "unused address bytes are the prefix byte", const_of(norm(items[k])) == 0xCC, "byte %d is %r" % (k, items[k]))
    finally:
        if sv is not None:
            nn.model.opaque[f.qualname] = sv
    agg.add("R14.4", f, "the four level addresses are pairwise distinct", len(level_addrs) == 4 and len(set(level_addrs.values())) == 4, "level addresses %r" % (level_addrs,))
    return n


def run(ck):
    ck.explanation = (
        "Static analysis. R14.1/R14.5: multicast() is interpreted for levels None, -3..9: the level address handed to _write is that of "
        "min(4, max(level,0)) (own level by default), send type TX_MULTICAST, header to 0o100 from this node, caller's type and bytes, length "
        "validated first; the multicast_level setter clamps to the same domain and re-opens pipe 0 on that level's address. R14.2: every "
        "RF24.send reached from _write with send type TX_MULTICAST happens while the abstract EN_AA register holds 0x3E (no ACK requested) on a "
        "pipe-0 address; routed unicasts with 0x3F. R14.3: the multicast receive branch over types x allow_multicast x relay x levels x connected/"
        "unconnected: queued exactly once, then exactly one re-broadcast to (level address << 3) iff relay; NETWORK_POLL answered at most once, "
        "physically, never queued, never by an unconnected node. R14.4: _pipe_address is interpreted with a 12-bit address whose bits carry "
        "provenance: the shared pipe-0 address depends on the address only through its digit count; ordinary addresses have byte 0 = suffix[pipe] "
        "and byte k dependent on exactly digit k-1.")
    ck.not_decided = ["which nodes actually receive a multicast, and once-only reception (several nodes and a medium)"]
    agg = Agg(ck)
    nn = net.NetNode(ck, "rf24_network", "RF24Network")
    nn.merge_funcs = set()
    n1 = level_domain(ck, agg, nn)
    n2 = unacknowledged(ck, agg, nn)
    n3 = relay(ck, agg, nn)
    n4 = pipe_address(ck, agg, nn)
    # "nodes configured with allow_multicast off do not listen on the shared level address": the setting reaches pipe 0 when the address is
    # re-assigned (docs), so the re-assignment must re-open the pipes for every valid value, the current one included (R04.8, shared with C04)
    from . import c04
    n5 = c04.reconfigure(ck, agg)
    # "by default the sender's own level" / "re-broadcasts to the next level": the level is what _begin() derives from the address, freshly
    # on every call (R04.1/R04.6, shared with C04)
    c04.begin_structure(ck, agg, net.NetNode(ck, "rf24_network", "RF24Network"))
    # "received once by every other listening node of level L": after a node's own unicast, pipe 0 returns to the shared level address -
    # the radio layer's pipe-0 discipline (R08.x, shared with C08)
    from . import c08
    from .radio import Radio
    c08.run_for(ck, Radio(ck), agg)
    # "multicast() to level L ...": a frame written with an explicit level as direction is transmitted to that level's address (R04.9)
    c04.direction(ck, agg)
    # R14.5 the relay switch: after `multicast_relay = x` the node relays iff x and allow_multicast - whatever the switch held before
    # (an assignment that is silently dropped leaves a relay running that the application switched off)
    mixc = ck.prog.cls("network.mixins", "NetworkMixin")
    f_rs, f_rg = ck.prog.method(mixc, "multicast_relay", "set"), ck.prog.method(mixc, "multicast_relay", "get")
    nn5 = net.NetNode(ck, "rf24_network", "RF24Network")
    for enable in (True, False):
        for allow in (True, False):
            for old in (True, False):
                st5, node5 = nn5.fresh(fields={"allow_multicast": allow, net.FN("_relay_enabled"): old})
                for out in nn5.run(f_rs, node5, [Const(enable)], st5):
                    if out.kind != "return":
                        continue
                    stored = out.state.heap[node5.ident].fields.get(net.FN("_relay_enabled"))
                    sv = const_of(norm(stored)) if stored is not None and hasattr(stored, "key") else None
                    agg.add("R14.5", f_rs, "`multicast_relay = x` stores x and allow_multicast - a switch-off always sticks, whatever the switch held before",
                            sv is not None and bool(sv) == bool(enable and allow),
                            "multicast_relay = %r with allow_multicast %r (was %r): the switch is left %r - it resurfaces when multicast is allowed again" % (enable, allow, old, stored))
                    s5 = out.state.fork()
                    s5.trace = []
                    for o2 in nn5.run(f_rg, node5, [], s5):
                        agg.add("R14.5", f_rs, "after `multicast_relay = x` the node relays iff x and allow_multicast, whatever the switch held before",
                                o2.kind == "return" and value_matches(o2.value, bool(enable and allow)),
                                "multicast_relay = %r with allow_multicast %r (was %r): the getter then returns %r" % (enable, allow, old, o2.value))
    # the relay re-broadcasts the frame it received: the queue it hands the frame to first must leave it as it is (R06.5 caller's frame)
    from . import c06
    c06.caller_frame_untouched(ck, agg)
    # "received once by every listening node of the level, from whichever node it is sent": the queue refuses only true duplicates (R12.3, shared with C12)
    from . import c12
    c12.enqueue_rules(ck, agg, net.queue_field(ck.prog))
    agg.flush()
    ck.floor("R04.8", "re-assignment scenarios", n5, 4)
    ck.floor("R14.1", "level scenarios", n1, 15)
    ck.floor("R14.2", "transmit scenarios", n2, 8)
    ck.floor("R14.3", "receive scenarios", n3, 60)
    ck.floor("R14.4", "pipe address scenarios", n4, 12)
