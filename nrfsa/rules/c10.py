"""C10 - FIFO and status accessors decode the datasheet's bits.

Every accessor is analysed with the STATUS byte / FIFO_STATUS / OBSERVE_TX
register pinned to each value of its domain (exhaustive over the 7 STATUS bits)
and the returned abstract value is compared with the datasheet decode table;
clear/flush/IRQ functions are compared with the command and bit tables; every
comparison of a STATUS-derived value with a pipe bound must depend on exactly
RX_P_NO (bits 3:1)."""
import ast
from ..absval import Const, norm, const_of, Bytes, Seq, BitV, Lin, Sym, Unknown, as_bitv
from ..interp import Ref, Raised, Limits
from ..tables import regmap, contract
from ..model import AnalysisError, iter_own_nodes
from .radio import Radio, regname, bits8, term_eq, fmt_bits, regwrites, lift
from .c03 import Agg, value_matches


def set_status(radio, st, value):
    v = Const(value) if isinstance(value, int) else value
    cell = st.heap[radio.ref.ident]
    if radio.model.status[0] == "field":
        cell.fields[radio.model.status[1]] = v
    else:
        buf = cell.fields[radio.model.status[1]]
        st.heap[buf.ident].items[0] = v
    return st


def cmds(out):
    """[(code int|None, event)] of SPI commands on a path"""
    res = []
    for ev in out.trace:
        if ev.kind in ("cmd", "cmdread", "cmdreadn", "cmdwriten"):
            r = ev.data[0]
            res.append((r if isinstance(r, int) else const_of(norm(r)), ev))
    return res


def spi_events(out):
    return [e for e in out.trace if e.kind in ("cmd", "cmdread", "cmdreadn", "cmdwriten", "regwrite", "regwriten", "regread", "regreadn")]


def status_props(radio, agg):
    """tx_full, pipe, irq_dr, irq_ds, irq_df decode the cached STATUS byte without SPI traffic"""
    table = {
        "tx_full": lambda s: bool(s & 0x01),
        "pipe": lambda s: ((s >> 1) & 7) if ((s >> 1) & 7) <= 5 else None,
        "irq_dr": lambda s: bool(s & 0x40),
        "irq_ds": lambda s: bool(s & 0x20),
        "irq_df": lambda s: bool(s & 0x10),
    }
    n = 0
    for name, dec in table.items():
        f = radio.getter(name, "prop")
        for s in range(128):
            n += 1
            st = set_status(radio, radio.fresh(), s)
            for out in radio.run(f, [], st):
                if out.kind != "return":
                    agg.add("R10.1", f, "accessor returns", False, "STATUS=0x%02X raises %s" % (s, out.value.exc))
                    continue
                exp = dec(s)
                ok = (isinstance(norm(out.value), Const) and norm(out.value).v is None) if exp is None else value_matches(out.value, exp)
                agg.add("R10.1", f, "decodes STATUS per datasheet", ok, "STATUS=0x%02X: returns %r, datasheet %r" % (s, out.value, exp))
                agg.add("R10.1", f, "decodes the cached byte (no SPI traffic)", not spi_events(out), "STATUS=0x%02X: %d SPI transaction(s)" % (s, len(spi_events(out))))
    return n


def available_any(radio, agg, lite=False):
    n = 0
    f_av = radio.prog.method(radio.cls, "available")
    f_any = radio.prog.method(radio.cls, "any")
    f_upd = radio.prog.method(radio.cls, "update")
    for out in radio.run(f_upd, [], radio.fresh()):
        cs = cmds(out)
        agg.add("R10.4", f_upd, "update() issues exactly one NOP (0xFF)", out.kind == "return" and [c for c, _e in cs] == [0xFF] and len(spi_events(out)) == 1, "commands %r" % [c for c, _e in cs])
        agg.add("R10.4", f_upd, "update() returns True", out.kind == "return" and value_matches(out.value, True), "returns %r" % (out.value,))
    for s in range(128):
        n += 1
        st = set_status(radio, radio.fresh(), 0x0E if s != 0x0E else 0x00)  # stale cache differs from the fresh status
        st.extra["status_pin"] = s
        for out in radio.run(f_av, [], st):
            exp = ((s >> 1) & 7) < 6
            ok = out.kind == "return" and value_matches(out.value, exp)
            agg.add("R10.1", f_av, "available() == fresh RX_P_NO < 6", ok, "fresh STATUS=0x%02X: returns %r, datasheet %r" % (s, out.value, exp))
            agg.add("R10.1", f_av, "available() refreshes STATUS first", any(e.kind in ("cmd", "regread", "cmdread") for e in out.trace), "no SPI transaction")
            agg.add("R10.1", f_av, "available() does not write to the radio", not [e for e in out.trace if e.kind in ("regwrite", "regwriten", "cmdwriten")], "writes")
    # any(): dynamic -> R_RX_PL_WID ; static -> RX_PW_P<pipe>
    for s in range(0, 128, 1):
        pipe = (s >> 1) & 7
        for dyn in (True, False):
            n += 1
            pins = {contract.FEATURE: 0x04 if dyn else 0x00}
            for p in range(6):
                pins[contract.RX_PW_P0 + p] = 10 + p
            st = set_status(radio, radio.fresh(pins), 0x0E if s != 0x0E else 0)
            st.extra["status_pin"] = s
            for out in radio.run(f_any, [], st):
                if out.kind != "return":
                    agg.add("R10.1", f_any, "any() returns", False, "STATUS=0x%02X raises %s" % (s, out.value.exc))
                    continue
                v = norm(out.value)
                if pipe >= 6:
                    agg.add("R10.1", f_any, "any() == 0 when the RX FIFO is empty", value_matches(v, 0), "STATUS=0x%02X: returns %r" % (s, v))
                elif dyn:
                    ok = isinstance(v, BitV) and all(isinstance(b, tuple) and b[0] == "s" and b[1][0] == "cmdresp" and b[1][1] == 0x60 for b in v.bits[:6])
                    agg.add("R10.1", f_any, "dynamic length comes from R_RX_PL_WID (0x60)", ok, "STATUS=0x%02X: returns %r" % (s, v))
                else:
                    agg.add("R10.1", f_any, "static length is RX_PW of the pipe in STATUS", value_matches(v, 10 + pipe), "STATUS=0x%02X (pipe %d): returns %r, expected %d" % (s, pipe, v, 10 + pipe))
                agg.add("R10.1", f_any, "any() does not write to the radio", not [e for e in out.trace if e.kind in ("regwrite", "regwriten", "cmdwriten", "cmd")], "writes")
    return n


def fifo_etc(radio, agg, lite=False):
    n = 0
    f = radio.prog.method(radio.cls, "fifo")
    for fs in [v for v in range(128) if not v & 0x0C]:
        for about_tx in (True, False, 1, 0):
            for chk in (None, True, False):
                n += 1
                st = radio.fresh({0x17: fs})
                for out in radio.run(f, [about_tx, chk], st):
                    if chk is None:
                        exp = (fs & (0x30 if about_tx else 0x03)) >> (4 if about_tx else 0)
                    else:
                        bit = (0x10 if about_tx else 0x01) if chk else (0x20 if about_tx else 0x02)
                        exp = bool(fs & bit)
                    ok = out.kind == "return" and value_matches(out.value, exp)
                    agg.add("R10.1", f, "fifo() decodes FIFO_STATUS per datasheet", ok, "fifo(%r,%r) FIFO_STATUS=0x%02X: returns %r, datasheet %r" % (about_tx, chk, fs, out.value, exp))
                    rd = [e for e in out.trace if e.kind == "regread"]
                    agg.add("R10.1", f, "fifo() reads register 0x17 and writes nothing", [e.data[0] for e in rd] == [0x17] and len(spi_events(out)) == 1, "SPI: %r" % [(e.kind, e.data[0]) for e in spi_events(out)])
    for name, reg, dec in (("last_tx_arc", 0x08, lambda v: v & 0x0F), ("rpd", 0x09, lambda v: bool(v))):
        hit = radio.cls.lookup(name)
        if hit is None:
            if lite and name == "last_tx_arc":
                continue
            raise AnalysisError("anchor vanished: %s" % name)
        g = radio.getter(name, "prop")
        for v in ([0x00, 0x01, 0x0F, 0x10, 0x5A, 0xF0, 0xFF] if reg == 8 else [0, 1]):
            n += 1
            st = radio.fresh({reg: v})
            for out in radio.run(g, [], st):
                ok = out.kind == "return" and value_matches(out.value, dec(v))
                agg.add("R10.1", g, "%s decodes register 0x%02X" % (name, reg), ok, "register=0x%02X: returns %r, datasheet %r" % (v, out.value, dec(v)))
    return n


def cached_status(radio, st):
    cell = st.heap[radio.ref.ident]
    if radio.model.status[0] == "field":
        return cell.fields.get(radio.model.status[1])
    buf = cell.fields.get(radio.model.status[1])
    if isinstance(buf, Ref) and st.heap[buf.ident].items:
        return st.heap[buf.ident].items[0]
    return None


def status_untouched(radio, agg, f, out, label):
    """R10.7: what the flag / FIFO attributes decode is the STATUS byte of the last SPI transfer - software never edits the cached byte
    (the radio's latched events can only be learnt from the radio)"""
    from ..absval import sym_bits, BitV
    n = out.state.extra.get("txn", 0)
    if n <= 0 or out.state.extra.get("status_pin") is not None:
        return
    sv = sym_bits(lambda i: ("status", n, i), 8)
    want = BitV(tuple(0 if i == 7 else b for i, b in enumerate(sv.bits)), 0, (0, 127))
    got = cached_status(radio, out.state)
    ok = got is not None and hasattr(got, "key") and norm(got).key() == want.key()
    agg.add("R10.7", f, "the cached STATUS byte is the one clocked out by the last SPI transfer, unedited", ok,
            "%s: after the call the cached STATUS is %r - not the byte of transfer %d; the IRQ flag / FIFO attributes then report what software assumed, not what the radio latched" % (label, got, n))


def flags_and_flush(radio, agg):
    n = 0
    f = radio.prog.method(radio.cls, "clear_status_flags")
    for dr in (True, False, 2):
        for ds in (True, False, 0):
            for df in (True, False, 1):
                n += 1
                exp = (0x40 if dr else 0) | (0x20 if ds else 0) | (0x10 if df else 0)
                for out in radio.run(f, [dr, ds, df], radio.fresh()):
                    w = regwrites(out)
                    ok = out.kind == "return" and len(w) == 1 and w[0][1] == 7 and const_of(norm(w[0][2])) == exp and len(spi_events(out)) == 1
                    agg.add("R10.3", f, "writes exactly the requested flag bits to STATUS", ok,
                            "clear_status_flags(%r,%r,%r): writes %r, datasheet STATUS<-0x%02X" % (dr, ds, df, [(regname(x[1]) if x[1] is not None else x[3], x[2]) for x in w], exp))
                    if out.kind == "return":
                        status_untouched(radio, agg, f, out, "clear_status_flags(%r,%r,%r)" % (dr, ds, df))
    for out in radio.run(f, [], radio.fresh()):
        w = regwrites(out)
        agg.add("R10.3", f, "default clears all three flags", len(w) == 1 and w[0][1] == 7 and const_of(norm(w[0][2])) == 0x70, "writes %r" % [(x[1], x[2]) for x in w])
    for name, code in (("flush_rx", regmap.FLUSH_RX), ("flush_tx", regmap.FLUSH_TX)):
        g = radio.prog.method(radio.cls, name)
        n += 1
        for out in radio.run(g, [], radio.fresh()):
            cs = cmds(out)
            ok = out.kind == "return" and [c for c, _e in cs] == [code] and len(spi_events(out)) == 1 and cs[0][1].data[1] is None
            agg.add("R10.4", g, "%s issues exactly command 0x%02X" % (name, code), ok, "SPI: %r" % [(e.kind, e.data[0]) for e in spi_events(out)])
            if out.kind == "return":
                status_untouched(radio, agg, g, out, name + "()")
    return n


def read_fn(radio, agg):
    """read(): size from any() unless given, R_RX_PAYLOAD, clears exactly RX_DR, returns that payload"""
    n = 0
    f = radio.prog.method(radio.cls, "read")
    for length in (None, 1, 5, 32):
        for s in (0x00, 0x02, 0x4A, 0x0E, 0x4E):
            for dyn in (True, False):
                n += 1
                pipe = (s >> 1) & 7
                pins = {contract.FEATURE: 0x04 if dyn else 0x00}
                for p in range(6):
                    pins[contract.RX_PW_P0 + p] = 10 + p
                st = set_status(radio, radio.fresh(pins), s)
                st.extra["status_pin"] = s
                label = "read(%r) STATUS=0x%02X %s" % (length, s, "dynamic" if dyn else "static")
                for out in radio.run(f, [length] if length is not None else [], st):
                    if out.kind != "return":
                        agg.add("R10.6", f, "read() returns", False, "%s raises %s" % (label, out.value.exc))
                        continue
                    rd = [e for e in out.trace if e.kind == "cmdreadn"]
                    empty = length is None and pipe >= 6
                    if empty:
                        ok = isinstance(norm(out.value), Const) and norm(out.value).v is None and not rd and not regwrites(out)
                        agg.add("R10.6", f, "empty FIFO: returns None, touches nothing", ok, "%s: returns %r, payload reads %d" % (label, out.value, len(rd)))
                        continue
                    if length is None and dyn:
                        # size is the R_RX_PL_WID response: symbolic; a zero width is treated as 'nothing'
                        if isinstance(norm(out.value), Const) and norm(out.value).v is None:
                            continue
                    ok = len(rd) == 1 and const_of(norm(rd[0].data[0])) == regmap.R_RX_PAYLOAD
                    agg.add("R10.6", f, "payload fetched with one R_RX_PAYLOAD (0x61)", ok, "%s: %r" % (label, [(e.kind, e.data[0]) for e in rd]))
                    if not ok:
                        continue
                    ln = norm(rd[0].data[1])
                    if length is not None:
                        agg.add("R10.6", f, "explicit length is used as given", const_of(ln) == length, "%s: reads %r bytes" % (label, ln))
                    elif not dyn:
                        agg.add("R10.6", f, "static size = RX_PW of the pipe in STATUS", const_of(ln) == 10 + pipe, "%s: reads %r bytes, expected %d" % (label, ln, 10 + pipe))
                    else:
                        okd = isinstance(ln, BitV) and all(isinstance(b, tuple) and b[0] == "s" and b[1][0] == "cmdresp" and b[1][1] == 0x60 for b in ln.bits[:6])
                        agg.add("R10.6", f, "dynamic size = R_RX_PL_WID response", okd, "%s: reads %r bytes" % (label, ln))
                    w = regwrites(out)
                    okw = len(w) == 1 and w[0][1] == 7 and const_of(norm(w[0][2])) == 0x40
                    agg.add("R10.3", f, "read() clears exactly RX_DR", okw, "%s: register writes %r" % (label, [(x[1], x[2]) for x in w]))
                    # order: payload read before the flag is cleared
                    if okw:
                        agg.add("R10.6", f, "payload is read before RX_DR is cleared", rd[0].seq < w[0][0].seq, label)
                    v = out.value
                    okr = isinstance(v, Ref) and out.state.heap[v.ident].fields and out.state.heap[v.ident].fields.get("__src__", (None,))[0] == "cmdreadn"
                    agg.add("R10.6", f, "read() returns the bytes of that R_RX_PAYLOAD", bool(okr), "%s: returns %r" % (label, v))
    return n


PIPE_BOUNDS = (5, 6, 7)


def rx_p_no_sites(radio, agg, funcs, rule="R10.2"):
    """every comparison of a STATUS-derived value with a pipe bound depends on exactly bits 3:1"""
    n = 0
    seen = set()
    for f, args in funcs:
        st = radio.fresh()
        outs = radio.run(f, args, st, limits=Limits(max_paths=4000, loop_unroll=1))
        for out in outs:
            for ev in out.trace:
                if ev.kind not in ("cond", "known", "cmp") or not isinstance(ev.node, ast.Compare):
                    continue
                val = ev.data[1]
                if not isinstance(val, tuple) or len(val) != 2:
                    continue
                for a, b in ((val[0], val[1]), (val[1], val[0])):
                    c = const_of(norm(b))
                    bv = norm(a)
                    if c in PIPE_BOUNDS and isinstance(bv, BitV) and any(isinstance(d, tuple) and d[0] == "status" for d in bv.deps()):
                        key = (ev.func.qualname, ast.unparse(ev.node))
                        ok = True
                        for i, bit in enumerate(bv.bits):
                            if i < 3:
                                ok = ok and isinstance(bit, tuple) and bit[0] == "s" and bit[1][0] == "status" and bit[1][2] == i + 1 and not bit[2]
                            else:
                                ok = ok and bit == 0
                        ok = ok and bv.hi == 0
                        if key not in seen:
                            n += 1
                            seen.add(key)
                        agg.add(rule, ev.func, "pipe-number test `%s` isolates RX_P_NO" % ast.unparse(ev.node), ok,
                                "the compared value is %r: it must be STATUS bits 3:1 right-aligned and nothing else (IRQ flags leak into the test otherwise)" % (bv,), ev.node)
    return n


def status_sites(radio):
    """functions that test the pipe number in STATUS, with arguments to reach the test"""
    P = radio.prog
    c = radio.cls
    payload = Bytes([(("param", "buf"), Const(4))], "bytes", origin=("param", "buf"))
    return [
        (P.method(c, "available"), []),
        (P.method(c, "any"), []),
        (P.method(c, "pipe", "get"), []),
        (P.method(c, "send"), [payload]),
        (P.method(c, "resend"), []),
    ]


def run_for(ck, radio, agg, lite=False):
    n1 = status_props(radio, agg)
    n2 = available_any(radio, agg, lite)
    n3 = fifo_etc(radio, agg, lite)
    n4 = flags_and_flush(radio, agg)
    n5 = read_fn(radio, agg)
    n6 = rx_p_no_sites(radio, agg, status_sites(radio))
    return n1, n2, n3, n4, n5, n6


def irq_config(radio, agg):
    f = radio.prog.method(radio.cls, "interrupt_config")
    from .c03 import check_exit
    n = 0
    for label, args, expect in contract.sc_interrupt_config():
        n += 1
        for out in radio.run(f, args, radio.fresh()):
            if out.kind != "return":
                agg.add("R10.5", f, "interrupt_config never raises", False, "%s raises %s" % (label, out.value.exc))
                continue
            fin = out.state.extra["regs"].get(0)
            fb, exp = bits8(fin), expect(radio.old)["regs"][0]
            agg.add("R10.5", f, "CONFIG mask bits 6/5/4 = not recv / not sent / not fail, low nibble kept",
                    fb is not None and all(term_eq(x, y) for x, y in zip(fb, exp)), "%s: CONFIG holds %s, datasheet %s" % (label, fmt_bits(fb) if fb else fin, fmt_bits(exp)))
            if radio.pairs.get(0):
                # the mask must survive the next CONFIG rebuild (listen / crc / power / `with` write the shadow back)
                ok, det = radio.shadow_matches(out.state, 0)
                agg.add("R10.5", f, "the IRQ mask is kept in the CONFIG shadow, so later role changes do not restore the old mask", ok, "%s: %s" % (label, det))
    return n


def irq_mask_kept(radio, agg):
    """R10.5 (second half): the IRQ mask lives in CONFIG bits 6:4 only; interrupt_config() is the one function that may change it.  A
    function that rewrites CONFIG on some path to switch mode by itself (write() of the lite driver when it finds the radio listening or
    powered down) must carry those three bits over - judged on the register's bits with provenance, for RX mode, power-down and TX mode"""
    from ..effects import old_reg
    from . import link
    f = radio.prog.method(radio.cls, "write")
    n = 0
    for low, what in ((0x03, "listening"), (0x00, "powered down"), (0x01, "powered down with PRIM_RX"), (0x02, "in TX mode")):
        n += 1
        st = radio.fresh({contract.DYNPD: 0x3F, contract.FEATURE: 0x05})
        v0 = old_reg(0)
        cfg = BitV(tuple((((low >> i) & 1) if i < 2 else b) for i, b in enumerate(v0.bits)), 0, None)
        radio.pin(st, 0, cfg)
        for out in radio.run(f, [link.param_buf(length=5)], st):
            if out.kind != "return":
                continue
            got, want = bits8(out.state.extra["regs"].get(0)), bits8(cfg)
            ok = got is not None and want is not None and all(term_eq(got[i], want[i]) for i in (4, 5, 6))
            agg.add("R10.5", f, "write() leaves the IRQ mask (CONFIG bits 6:4) as interrupt_config() set it, whatever mode it finds the radio in", ok,
                    "write() with the radio %s: CONFIG becomes %s (was %s) - events disabled with interrupt_config() assert the IRQ pin again" % (
                        what, fmt_bits(got) if got else out.state.extra["regs"].get(0), fmt_bits(want) if want else cfg))
    return n


def run(ck):
    ck.explanation = (
        "Static analysis of every status/FIFO accessor of rf24.RF24: the accessor's body is abstractly interpreted with the cached STATUS "
        "byte (exhaustively, all 128 values), FIFO_STATUS (all legal values) and OBSERVE_TX/RPD pinned, and the abstract return value is "
        "compared with the datasheet decode table (R10.1); clear_status_flags/read/interrupt_config are compared with the bit tables for "
        "all argument combinations (R10.3, R10.5), flush/update with the command table (R10.4), read() with the fetch/clear protocol "
        "(R10.6); every comparison of a STATUS-derived value with a pipe bound must depend on exactly RX_P_NO, bits 3:1 (R10.2). The values "
        "are folded through the extracted expressions by the analyser's own evaluator; no repository code is executed.")
    ck.not_decided = ["that the values match the real FIFO occupancy after traffic (silicon behaviour)"]
    radio = Radio(ck)
    agg = Agg(ck)
    n = run_for(ck, radio, agg)
    ni = irq_config(radio, agg)
    # the lite driver offers the same accessors on the same registers: judged by the same tables (as C20 does)
    lite = Radio(ck, "rf24_lite", "RF24")
    run_for(ck, lite, agg, lite=True)
    irq_mask_kept(radio, agg)
    irq_mask_kept(lite, agg)
    # "any() / read() describe the next payload's length" in static mode from the driver's cached RX_PW copies: they describe the radio only
    # while every setter keeps the copies equal to the registers (C03's R03.3 / R03.5 obligations, re-run here)
    from . import c03
    c03.run_setters(radio, agg, contract.SETTERS)
    c03.run_pipes(radio, agg)
    agg.flush()
    ck.floor("R10.1", "status property evaluations", n[0], 640)
    ck.floor("R10.1", "available/any evaluations", n[1], 380)
    ck.floor("R10.1", "fifo evaluations", n[2], 300)
    ck.floor("R10.3", "flag/flush scenarios", n[3], 29)
    ck.floor("R10.6", "read scenarios", n[4], 40)
    ck.floor("R10.2", "pipe-number test sites", n[5], 2)
