"""C19 - received BLE packets: nothing a radio can deliver makes available() raise; encoder and decoder agree on layout and signedness."""
import ast
from ..absval import Const, Sym, Bytes, Seq, Lin, norm, const_of, as_lin, lin_add, interval
from ..interp import Ref, Limits, State, Model
from ..engine import Interp
from ..interp_ext import parse_fmt, STRUCT_CODES
from ..model import AnalysisError, iter_own_nodes
from ..tables import ble as TB
from .c03 import Agg, value_matches
from .c15 import judge, site_key, COLLECT
from . import ble

SAFE_SITES = {}


def escape(ck, agg, b):
    """R19.1/R19.2: FakeBLE.available() on 32 arbitrary received bytes"""
    P = ck.prog
    f = P.method(b.cls, "available")
    rf = P.cls("rf24", "RF24")

    def rec_read(model, it, st, fr, node, target, args, kwargs):
        ln = args[1] if len(args) > 1 else kwargs.get("length")
        it.event(st, fr, "radio-read", node, (ln,))
        return [(st, Bytes([(("rx",), Const(32))], "bytearray"))]

    def rec_avail(model, it, st, fr, node, target, args, kwargs):
        return [(st, Sym(st.fresh_name("available"), "bool"))]
    b.model.opaque[P.method(rf, "read").qualname] = rec_read
    b.model.opaque[P.method(rf, "available").qualname] = rec_avail
    n = 0
    try:
        st = b.fresh({0x11: 32}, fields={b.freq_index_field(): Const(0)})
        it = Interp(P, b.model, Limits(max_paths=60000, loop_unroll=3, depth=12, concrete_loop=40))
        it.collect = set(COLLECT)
        outs = it.run(f, b.cls, b.ref, [], st=st)
        ck.absorb(it)
        ck.analysed(f)
        n = len(outs)
        sites = 0
        max_len = []
        for ev, stack in it.collected:
            ok, why = judge(ev)
            if ok is None:
                continue
            sites += 1
            fn = ev.func
            key = site_key(ev)
            fq = fn.qualname.split(":", 1)[1] if fn else "?"
            if not ok and (fq, key) in SAFE_SITES:
                agg.add("R19.1", fn, key + " [frozen: confirmed safe]", True, SAFE_SITES[(fq, key)], ev.node)
                continue
            agg.add("R19.1", fn, key, ok, "available() on 32 arbitrary bytes: %s" % why, ev.node)
        for out in outs:
            if out.kind == "raise":
                agg.add("R19.1", out.value.func if out.value.func else f, "raise `%s`" % (ast.unparse(out.value.node)[:60] if out.value.node is not None else out.value.exc), False,
                        "%s escapes available() (%s)" % (out.value.exc, out.value.msg), out.value.node)
                continue
            # R19.2: construction and queueing are dominated by the length test and the CRC comparison
            news = [e for e in out.trace if e.kind == "new" and e.data[0].endswith(":QueueElement")]
            apps = [e for e in out.trace if e.kind == "append" and e.data[2] and e.data[2].endswith("rx_queue")]
            if news or apps:
                first = min(e.seq for e in news + apps)
                crc_ok = any(e.kind == "cond" and e.data[0] is True and e.seq < first and isinstance(e.data[1], tuple) and any(isinstance(norm(x), Bytes) and norm(x).parts and norm(x).parts[0][0][0] == "crc24" for x in e.data[1])
                             and isinstance(e.node, ast.Compare) and isinstance(e.node.ops[0], ast.Eq) for e in out.trace)
                agg.add("R19.2", f, "a packet is decoded and queued only after its CRC-24 matched", crc_ok, "queued without a successful CRC comparison", (news + apps)[0].node)
                # by value: on a queueing path the facts bound the length byte L (byte 1 of the de-whitened packet) by 27, i.e. header (2) +
                # L + CRC (3) fit the 32 received bytes - however the test is written (`end < 30`, `size < 28`, `end + 3 <= 32`)
                rng = out.state.extra.get("symrng", {})
                his = [v[1] for k_, v in rng.items() if isinstance(k_, tuple) and len(k_) == 3 and k_[0] == "byteof" and k_[2] == 1 and str(k_[1]).startswith("('whitened'")]
                okl = bool(his) and all(h is not None and h <= 27 for h in his)
                agg.add("R19.2", f, "a packet is decoded only if its length byte leaves room for the CRC inside 32 bytes (length byte <= 27)", okl,
                        "queued although the length byte may be as large as %r (2 + length + 3 must fit in 32 bytes)" % (his[0] if his else "unbounded"), (news + apps)[0].node)
                if his and None not in his:
                    max_len.append(max(his))
                agg.add("R19.5", f, "one received packet queues one element, at the tail", len(apps) == 1 and len(news) == 1, "%d elements constructed, %d appended" % (len(news), len(apps)))
                crcs = [e for e in out.trace if e.kind == "crc"]
                if crcs:
                    src = crcs[0].data[0]
                    tg = src.parts[0][0] if isinstance(src, Bytes) and len(src.parts) == 1 else None
                    agg.add("R19.2", f, "the CRC is computed over the packet without its last three bytes", tg is not None and tg[0] == "slice" and tg[2] == 0, "CRC input %r" % (tg,))
            rd = [e for e in out.trace if e.kind == "radio-read"]
            for e in rd:
                agg.add("R19.1", f, "the whole static payload is read", True, "")
        agg.add("R19.1", f, "available() has complete paths", any(o.kind == "return" for o in outs), "no complete path")
        agg.add("R19.2", f, "a packet that fills all 32 bytes (length byte 27) is accepted", bool(max_len) and max(max_len) == 27,
                "the largest length byte on any queueing path is %r: a completely filled advertisement (length byte 27) is dropped" % (max(max_len) if max_len else None))
        # de-whiten after bit reversal (inverse order of advertise)
        tr_paths = [o for o in outs if any(e.kind in ("whitened", "reversed", "radio-read") for e in o.trace)]
        agg.add("R19.2", f, "available() has a path that takes a payload from the radio (anchor)", bool(tr_paths), "no path reads the radio")
        for out in tr_paths:
            wh = [e for e in out.trace if e.kind == "whitened"]
            rv = [e for e in out.trace if e.kind == "reversed"]
            agg.add("R19.2", f, "received bytes are bit-reversed, then de-whitened (inverse of advertise)", bool(wh) and bool(rv) and rv[0].seq < wh[0].seq and ble.unwrap(wh[0].data[0], "reversed")[0] is not None,
                    "order of transforms on reception")
    finally:
        b.model.opaque.pop(P.method(rf, "read").qualname, None)
        b.model.opaque.pop(P.method(rf, "available").qualname, None)
    return n, sites


def service_layout(ck, agg):
    """R19.3: offsets used by the decoder == offsets produced by the encoders"""
    P = ck.prog
    m = P.modules["fake_ble"]
    qe = P.cls("fake_ble", "QueueElement")
    f_dec = P.method(qe, "_decode_data_struct")
    n = 0
    for clsname, uuid in (("TemperatureServiceData", TB.UUID_TEMPERATURE), ("BatteryServiceData", TB.UUID_BATTERY), ("UrlServiceData", TB.UUID_EDDYSTONE)):
        n += 1
        cls = P.cls("fake_ble", clsname)
        # encoder: length of the type prefix after construction, and buffer = prefix + data
        it = Interp(P, Model(), Limits())
        st = State()
        obj = st.alloc("obj", cls=cls, label="svc")
        outs = it.run(cls.lookup("__init__")[1], cls, obj, [], st=st)
        ck.absorb(it)
        o = [x for x in outs if x.kind == "return"][0]
        typ = o.state.heap[obj.ident].fields.get("_type")
        tl = const_of(norm(typ.length())) if isinstance(typ, Bytes) else None
        tags = [p[0] for p in typ.parts] if isinstance(typ, Bytes) else []
        uu = tags[0][2][0] if tags and tags[0][0] == "pack" else None
        agg.add("R19.3", cls.lookup("__init__")[1], "the encoder starts the service data with the 16-bit little-endian UUID", tags and tags[0][0] == "pack" and tags[0][1] in ("<H",) and const_of(norm(uu)) == uuid,
                "%s: type prefix %r" % (clsname, tags[:1]))
        fbuf = P.method(cls, "buffer", "get")
        st2 = o.state.fork()
        st2.heap[obj.ident].fields["_data"] = Bytes([(("sym", "data"), Sym("D", "int", rng=(0, None)))], "bytes")
        it2 = Interp(P, Model(), Limits())
        ob = it2.run(fbuf, cls, obj, [], st=st2)
        bv = ob[0].value if ob and ob[0].kind == "return" else None
        okb = isinstance(bv, Bytes) and [p[0] for p in bv.parts][-1] == ("sym", "data") and [p[0] for p in bv.parts][:-1] == tags
        agg.add("R19.3", fbuf, "buffer = type prefix + data", okb, "%s.buffer = %r" % (clsname, bv))
        # decoder: chunk body = [0x16] + prefix + data  ->  data must be taken from offset 1 + len(prefix)
        body = bytes([TB.AD_SERVICE_DATA]) + uuid.to_bytes(2, "little")
        sym_tail = Bytes([(("const", body), Const(3)), (("sym", "tail"), Const(6))], "bytearray")
        # make it one indexable value: constant prefix + symbolic tail
        st3 = State()
        el = st3.alloc("obj", cls=qe, label="elem")
        st3.heap[el.ident].fields["data"] = st3.alloc("list", items=[])
        items = [Const(x) for x in body] + [Sym(("tail", j), "int", rng=(0, 255)) for j in range(6)]
        buf = st3.alloc("bytearray", items=items, label="buf")
        it3 = Interp(P, Model(), Limits())
        od = it3.run(f_dec, qe, el, [buf], st=st3)
        ck.absorb(it3)
        ck.analysed(f_dec)
        for out in od:
            if out.kind != "return":
                agg.add("R19.3", f_dec, "decoding a well-formed service structure does not raise", False, "%s raises %s" % (clsname, out.value.exc))
                continue
            lst = out.state.heap[out.state.heap[el.ident].fields["data"].ident].items
            svc = lst[0] if lst else None
            ok = isinstance(svc, Ref) and svc.cls is cls
            agg.add("R19.3", f_dec, "UUID 0x%04X is decoded into %s" % (uuid, clsname), ok, "decoded %r" % (svc,))
            if not ok:
                continue
            d = out.state.heap[svc.ident].fields.get("_data")
            dk = [norm(x).key() for x in out.state.heap[d.ident].items] if isinstance(d, Ref) and not out.state.heap[d.ident].opaque else None
            want = [norm(x).key() for x in items[1 + tl:]] if tl is not None else None
            agg.add("R19.3", f_dec, "the decoder takes the data from offset 1 + len(type prefix), where the encoder put it", dk is not None and dk == want,
                    "%s: data decoded from offset %s, encoder writes it at %s" % (clsname, (len(items) - len(dk)) if dk is not None else "?", 1 + (tl or 0)))
            if clsname == "UrlServiceData":
                t2 = out.state.heap[svc.ident].fields.get("_type")
                tk = t2.parts[-1][0] if isinstance(t2, Bytes) and t2.parts else None
                okp = tk is not None and tk[0] == "items" and tk[1] == (norm(items[tl]).key(),)
                agg.add("R19.3", f_dec, "the Eddystone TX power is decoded from the byte where the encoder put it (last byte of the prefix)", bool(okp), "TX power decoded from %r" % (tk,))
    return n


def signedness(ck, agg):
    """R19.4: an encoder that truncates a possibly negative integer needs a sign-aware decoder"""
    P = ck.prog
    cls = P.cls("fake_ble", "TemperatureServiceData")
    f_set, f_get = P.method(cls, "data", "set"), P.method(cls, "data", "get")
    # encoder
    it = Interp(P, Model(), Limits())
    st = State()
    obj = st.alloc("obj", cls=cls, label="t")
    st.heap[obj.ident].fields["_data"] = Bytes([], "bytes")
    outs = it.run(f_set, cls, obj, [Sym("value", "float")], st=st)
    ck.absorb(it)
    ck.analysed(f_set)
    enc_bits, enc_fmt, may_neg = None, None, None
    enc_order = None
    enc_scale, dec_scale = [], []
    from .net import base_deps as net_base_deps
    for out in outs:
        for e in out.trace:
            if e.kind == "to_bytes":
                # int.to_bytes(n, order): the same statement about byte order as a struct format
                o_ = e.data[1][1] if len(e.data[1]) > 1 else None
                enc_order = norm(o_).v if o_ is not None and isinstance(norm(o_), Const) else None
                may_neg = True
            if e.kind == "packarg":
                enc_fmt = e.data[0]
                iv = interval(norm(e.data[2]))
                enc_bits = iv[1].bit_length() if iv and iv[1] is not None else None
                may_neg = True  # int(value * 100) of an arbitrary float
        # the mantissa is value x 100, truncated or rounded, with no offset (an offset followed by int() rounds negative values the wrong way)
        reg = out.state.extra.get("affine", {})
        for e in out.trace:
            if e.kind in ("packarg", "to_bytes"):
                val = e.data[2] if e.kind == "packarg" else e.data[0]
                names = set()
                for d_ in net_base_deps(val):
                    names.add(d_[0] if isinstance(d_, tuple) and len(d_) == 2 and isinstance(d_[0], tuple) and isinstance(d_[1], int) else d_)
                hits = [reg[d_] for d_ in sorted(names, key=str) if d_ in reg and reg[d_][3]]
                if hits:
                    enc_scale.append(hits[-1])
        d = out.state.heap[obj.ident].fields.get("_data")
        if isinstance(d, Bytes) and d.parts:
            ln = const_of(norm(d.length()))
            agg.add("R19.4", f_set, "temperature is encoded as 3 data bytes + exponent byte 0xFE (value x 0.01)", ln == 4 and d.parts[-1][0][0] in ("const", "items"), "encoded %r" % (d,))
    # decoder
    it = Interp(P, Model(), Limits())
    st = State()
    obj = st.alloc("obj", cls=cls, label="t")
    st.heap[obj.ident].fields["_data"] = Bytes([(("sym", "data"), Const(4))], "bytes")
    outs = it.run(f_get, cls, obj, [], st=st)
    ck.absorb(it)
    ck.analysed(f_get)
    for out in outs:
        if out.kind == "return" and isinstance(norm(out.value), Sym) and norm(out.value).name in out.state.extra.get("affine", {}):
            dec_scale.append(out.state.extra["affine"][norm(out.value).name])
        ups = [e for e in out.trace if e.kind == "unpack"]
        if not ups:
            agg.add("R19.4", f_get, "temperature decoder unpacks the data bytes", False, "no struct.unpack on this path")
            continue
        fmt, src = ups[0].data[0], ups[0].data[1]
        order, codes = parse_fmt(fmt)
        signed = STRUCT_CODES[codes[0]][1] < 0
        tags = [p[0] for p in src.parts] if isinstance(src, Bytes) else []
        top_const_zero = bool(tags) and tags[-1][0] == "const" and tags[-1][1] == b"\0" * len(tags[-1][1])
        same_on_all = len(outs) == 1
        agg.add("R19.4", f_get, "negative temperatures survive: a 24-bit two's-complement value is sign-extended before it is read as a signed integer",
                not (may_neg and signed and top_const_zero and same_on_all),
                "the encoder keeps 24 bits of int(value*100) (two's complement for negative values) but the decoder pads the 3 data bytes with a constant zero byte before "
                "struct.unpack(%r): the result can never be negative, e.g. -1.0 C decodes as 167771.16" % (fmt,), ups[0].node)
        if enc_fmt is not None:
            e_order = "big" if parse_fmt(enc_fmt)[0] in (">", "!") else "little"
        else:
            e_order = enc_order
        d_order = "big" if order in (">", "!") else "little"
        if e_order is None:
            raise AnalysisError("TemperatureServiceData: how the setter encodes the value is not understood (no struct.pack / int.to_bytes seen)")
        if enc_scale and dec_scale:
            (eb, ek, eo, ec), (db, dk, do, dc) = enc_scale[-1], dec_scale[-1]
            agg.add("R19.4", f_set, "the temperature mantissa is the value scaled by the inverse of the decoder's factor, with no offset (x 100 <-> x 0.01)",
                    eb == "value" and abs(ek * dk - 1.0) < 1e-9 and eo == 0.0 and do == 0.0,
                    "encoder stores %s(value x %g %+g), decoder returns mantissa x %g %+g: an offset before int() rounds negative values towards zero the wrong way "
                    "(-1.0 C is sent as -0.99 C), a scale mismatch changes every value" % ("/".join(ec), ek, eo, dk, do))
        agg.add("R19.4", f_get, "the decoder reads the same byte order the encoder wrote", e_order == d_order, "encoder %s-endian (%r), decoder %s-endian (%r)" % (e_order, enc_fmt or "to_bytes", d_order, fmt))
    n_sc = scalar_codecs(ck, agg)
    return 3 + n_sc


def _enc_field(v):
    """(size, signed, order) of the last field of an encoded bytes value: a struct.pack field or literal byte(s)"""
    if not isinstance(v, Bytes) or not v.parts:
        return None
    tag = v.parts[-1][0]
    if tag[0] == "pack":
        order, codes = parse_fmt(tag[1])
        c = [x for x in codes if x != "x"][-1]
        return (STRUCT_CODES[c][0], STRUCT_CODES[c][1] is not None and STRUCT_CODES[c][1] < 0, "big" if order in (">", "!") else "little")
    if tag[0] in ("items", "const"):
        return (1, False, "little")
    return None


def _dec_field(v):
    """(size, signed, order) of a decoded value: struct.unpack field or a plain byte read"""
    v = norm(v)
    if not isinstance(v, Sym):
        return None
    if v.attrs.get("unpack"):
        fmt, k = v.attrs["unpack"][:2]
        order, codes = parse_fmt(fmt)
        c = [x for x in codes if x != "x"][k]
        return (STRUCT_CODES[c][0], STRUCT_CODES[c][1] is not None and STRUCT_CODES[c][1] < 0, "big" if order in (">", "!") else "little")
    if "at" in v.attrs and "of" in v.attrs:
        return (1, False, "little")
    return None


def scalar_codecs(ck, agg):
    """R19.4: one-number service data (battery level, Eddystone TX power): the field the setter encodes and the field the getter decodes have
    the same width and signedness (byte order matters only beyond one byte) - read from the abstract values, not from the source text"""
    P = ck.prog
    n = 0
    for clsname, prop, field, want_signed, what in (("BatteryServiceData", "data", "_data", False, "battery level is one unsigned byte on both sides"),
                                                    ("UrlServiceData", "pa_level_at_1_meter", "_type", True, "Eddystone TX power is a signed byte on both sides")):
        n += 1
        cls = P.cls("fake_ble", clsname)
        f_set, f_get = P.method(cls, prop, "set"), P.method(cls, prop, "get")
        it = Interp(P, Model(), Limits())
        st = State()
        obj = st.alloc("obj", cls=cls, label="svc")
        o0 = [x for x in it.run(cls.lookup("__init__")[1], cls, obj, [], st=st) if x.kind == "return"][0]
        ck.absorb(it)
        encs = set()
        it = Interp(P, Model(), Limits())
        for out in it.run(f_set, cls, obj, [Sym("value", "int", rng=(-128, 255) if want_signed else (0, 255))], st=o0.state.fork()):
            if out.kind != "return":
                continue
            ef = _enc_field(out.state.heap[obj.ident].fields.get(field))
            if ef is not None:
                encs.add(ef)
        ck.absorb(it)
        ck.analysed(f_set)
        decs = set()
        st2 = o0.state.fork()
        if field == "_data":
            st2.heap[obj.ident].fields[field] = Bytes([(("sym", "data"), Const(1))], "bytes")
        it = Interp(P, Model(), Limits())
        for out in it.run(f_get, cls, obj, [], st=st2):
            if out.kind == "return":
                df = _dec_field(out.value)
                if df is not None:
                    decs.add(df)
        ck.absorb(it)
        ck.analysed(f_get)
        if not encs or not decs:
            raise AnalysisError("%s.%s: encoded / decoded field not understood (enc %r, dec %r)" % (clsname, prop, encs, decs))
        same = len(encs) == 1 and len(decs) == 1 and list(encs)[0][:2] == list(decs)[0][:2] and (list(encs)[0][0] == 1 or list(encs)[0][2] == list(decs)[0][2])
        agg.add("R19.4", f_get, what, same and list(encs)[0][0] == 1 and list(encs)[0][1] == want_signed,
                "setter encodes %r, getter decodes %r  (size, signed, byte order)" % (sorted(encs), sorted(decs)))
    return n


def pa_level_fresh(ck, agg, b):
    """R19.4 (freshness): 'a received packet carries the sender's PA level equal to what was advertised' - the level byte of the TX-power
    structure is the PA level in force when the advertisement is assembled.  Driven through the class's own API, in the order an application
    may use it: show_pa_level = True at 0 dBm, then pa_level = -12, then _make_payload(): the structure must read 02 0A F4."""
    from . import c18
    P = ck.prog
    f_mk = P.method(b.cls, "_make_payload")
    f_show = P.method(b.cls, "show_pa_level", "set")
    f_pa = P.method(b.cls, "pa_level", "set")
    st, pl = c18.scenario(b, False, False)
    b.pin(st, 6, 0x07)
    verdict = None
    for o1 in b.run(f_show, [Const(True)], st):
        if o1.kind != "return":
            continue
        for o2 in b.run(f_pa, [Const(-12)], o1.state):
            if o2.kind != "return":
                continue
            for o3 in b.run(f_mk, [pl], o2.state):
                if o3.kind != "return" or not isinstance(o3.value, Bytes):
                    continue
                cl = c18.cells(o3.value.parts)
                got = [cl[i + 2] for i in range(len(cl) - 2) if cl[i] == 2 and cl[i + 1] == TB.AD_TX_POWER]
                ok = got == [0xF4]
                verdict = ok if verdict is None else (verdict and ok)
                agg.add("R19.4", f_mk, "the advertised TX-power byte is the PA level in force when the packet is assembled", ok,
                        "show_pa_level = True at 0 dBm, then pa_level = -12, then an advertisement: TX-power structure level byte(s) %r, expected [0xF4] (-12 dBm)" % (got,))
    return verdict


def pa_level_codec(ck, agg, b):
    """R19.4 for the TX-power structure (type 0x0A): the byte the advertiser encodes and the byte the receiver decodes into `pa_level` agree in
    width and signedness (-18 dBm must not come back as 238)"""
    from . import c18
    P = ck.prog
    f_mk = P.method(b.cls, "_make_payload")
    st, pl = c18.scenario(b, True, False)
    encs = set()
    for out in b.run(f_mk, [pl], st):
        if out.kind != "return" or not isinstance(out.value, Bytes):
            continue
        # the TX-power structure in the byte-level view of the packet: 02 0A xx - one byte, however it is produced (struct.pack("b"),
        # `level & 0xFF`, ...); the PA level is 0, -6, -12 or -18 dBm, so that byte is a two's-complement (signed) value
        cl = c18.cells(out.value.parts)
        for i_ in range(len(cl) - 2):
            if cl[i_] == 2 and cl[i_ + 1] == TB.AD_TX_POWER and (isinstance(cl[i_ + 2], int) or (isinstance(cl[i_ + 2], tuple) and cl[i_ + 2][0] == "v")):
                encs.add((1, True, "big"))      # (a level looked up in a constant table arrives as a known byte on each path)
    ck.analysed(f_mk)
    qe = P.cls("fake_ble", "QueueElement")
    f_dec = P.method(qe, "_decode_data_struct")
    st3 = State()
    el = st3.alloc("obj", cls=qe, label="elem")
    st3.heap[el.ident].fields["data"] = st3.alloc("list", items=[])
    st3.heap[el.ident].fields["pa_level"] = Const(None)
    buf = st3.alloc("bytearray", items=[Const(0x0A), Sym(("tail", 0), "int", rng=(0, 255))], label="buf")
    it3 = Interp(P, Model(), Limits())
    decs = set()
    for out in it3.run(f_dec, qe, el, [buf], st=st3):
        if out.kind != "return":
            agg.add("R19.4", f_dec, "decoding a TX-power structure does not raise", False, "raises %s" % out.value.exc)
            continue
        v = out.state.heap[el.ident].fields.get("pa_level")
        df = _dec_field(v)
        if df is None and isinstance(norm(v), Sym) and norm(v).name == ("tail", 0):
            df = (1, False, "little")
        rng_ = getattr(norm(v), "attrs", {}).get("rng") if isinstance(norm(v), Sym) else None
        if df is None and rng_ is not None and rng_[0] is not None and rng_[1] is not None:
            df = (1, rng_[0] < 0, "little")          # sign fixed up by hand: the value's range tells
        decs.add(df)
    ck.absorb(it3)
    ck.analysed(f_dec)
    fresh_ok = pa_level_fresh(ck, agg, b)
    if not encs and fresh_ok is False:
        return 1            # reported by the freshness clause: the structure does not follow the PA level, nothing to compare layouts with
    if not encs or not decs or None in decs:
        raise AnalysisError("PA level AD: encoded / decoded field not understood (enc %r, dec %r)" % (encs, decs))
    agg.add("R19.4", f_dec, "the advertised PA level is a signed byte on both sides", len(encs) == 1 and len(decs) == 1 and list(encs)[0][:2] == (1, True) and list(decs)[0][:2] == (1, True),
            "advertiser encodes %r, receiver decodes %r  (size, signed, byte order): a negative PA level is received as a large positive number" % (sorted(encs), sorted(decs)))
    return 1


def _mutates_queue(f):
    from .common import attr_mutations
    return bool(attr_mutations(f.node, "rx_queue"))


def rx_queue_discipline(ck, agg, b):
    """R19.5: read() hands out the head and removes exactly it (decided by running read() abstractly on a queue of three distinct elements -
    `del q[0]`, `q.pop(0)` and slicing are all fine, `q.pop()` is not); nothing but available(), read() and the constructor changes rx_queue
    (call-graph rule: a mutator is reachable from no other public entry point)"""
    from ..model import reachable
    P = ck.prog
    cls = b.cls
    f_read = P.method(cls, "read")
    n = 0
    for k in (0, 1, 3):
        n += 1
        st = b.fresh({})
        elems = [Sym(("elem", i), "obj", notnone=True) for i in range(k)]
        q = st.alloc("list", items=list(elems))
        st.heap[b.ref.ident].fields["rx_queue"] = q
        it = Interp(P, b.model, Limits())
        outs = it.run(f_read, cls, b.ref, [], st=st)
        ck.absorb(it)
        ck.analysed(f_read)
        for out in outs:
            if out.kind != "return":
                agg.add("R19.5", f_read, "read() never raises", False, "queue of %d: raises %s" % (k, out.value.exc), out.value.node)
                continue
            q2 = out.state.heap[b.ref.ident].fields.get("rx_queue")
            left = out.state.heap[q2.ident].items if isinstance(q2, Ref) and q2.kind == "list" and not out.state.heap[q2.ident].opaque else None
            lk = [norm(x).key() for x in left] if left is not None else None
            if k == 0:
                agg.add("R19.5", f_read, "read() on an empty queue returns None and leaves it empty", isinstance(norm(out.value), Const) and norm(out.value).v is None and lk == [], "returns %r, queue %r" % (out.value, left))
            else:
                agg.add("R19.5", f_read, "read() returns the oldest queued element", hasattr(out.value, "key") and norm(out.value).key() == elems[0].key(),
                        "queue of %d elements (oldest first): read() returns %r" % (k, out.value))
                agg.add("R19.5", f_read, "read() removes exactly the element it returns and keeps the order of the rest", lk == [e_.key() for e_ in elems[1:]],
                        "queue of %d elements: afterwards it holds %r" % (k, left))
    # who may change the queue
    owners = {"available", "read", "__init__", "__enter__"}
    muts = []
    for c in cls.mro:
        fis = list(c.methods.values()) + [f for p in c.props.values() for f in (p.getter, p.setter) if f is not None and f.cls is c]
        for fi in fis:
            if _mutates_queue(fi):
                muts.append(fi)
    for c in cls.mro:
        fis = list(c.methods.values()) + [f for p in c.props.values() for f in (p.getter, p.setter) if f is not None and f.cls is c]
        for fi in fis:
            if fi.name in owners or (fi.name.startswith("_") and not fi.name.startswith("__")):
                continue
            n += 1
            reach = {g for g, _r in reachable(P, fi, cls, stop=lambda g, r: g.name in owners and g is not fi)}
            bad = [m for m in muts if m in reach and m.name not in owners]
            if _mutates_queue(fi):
                bad.append(fi)
            agg.add("R19.5", fi, "rx_queue is changed only by available(), read() and the constructor", not bad,
                    "%s can change rx_queue through %s" % (fi.qualname, ", ".join(sorted({m.qualname for m in bad}))))
    agg.add("R19.5", f_read, "rx_queue has mutators (anchor)", bool(muts), "no function changes rx_queue")
    return n


def url_tables(ck, agg):
    """R19.6: the URL codec, read from the string operations the two directions perform (abstract run; `replace` calls with constant
    arguments are events): scheme prefixes are expanded/compressed once, at the start only; both directions use the Eddystone tables;
    the encoder replaces a longer expansion before any expansion that is its prefix"""
    P = ck.prog
    u = P.cls("fake_ble", "UrlServiceData")
    g, s = P.method(u, "data", "get"), P.method(u, "data", "set")
    pref, exp = TB.URL_SCHEME_PREFIXES, TB.URL_EXPANSIONS
    pairs = {}
    for direction, f, args in (("decoder", g, []), ("encoder", s, [Sym("url", "str", notnone=True)])):
        it = Interp(P, Model(), Limits(max_paths=4000, concrete_loop=40))
        st = State()
        obj = st.alloc("obj", cls=u, label="svc")
        st.heap[obj.ident].fields["_data"] = Bytes([(("sym", "data"), Sym("D", "int", rng=(0, None)))], "bytes")
        outs = it.run(f, u, obj, args, st=st)
        ck.absorb(it)
        ck.analysed(f)
        seen = set()
        for out in outs:
            if out.kind != "return":
                continue
            reps = [e for e in out.trace if e.kind == "strop" and e.data[0] == "replace"]
            npre = 0
            order = []
            for e in reps:
                a = e.data[2]
                if len(a) < 2 or not all(isinstance(norm(x), Const) for x in a[:2]):
                    continue
                old, new = norm(a[0]).v, norm(a[1]).v
                code, text = (old, new) if direction == "decoder" else (new, old)
                if not (isinstance(code, str) and len(code) == 1 and isinstance(text, str)):
                    continue
                cnt = const_of(norm(a[2])) if len(a) > 2 else None
                is_prefix = text in pref.values() or "://" in text
                seen.add((ord(code), text, is_prefix))
                if is_prefix:
                    npre += 1
                    agg.add("R19.6", f, "a URL scheme prefix is %s once only (count 1): the same byte later in the URL is an expansion code, not a scheme" % ("expanded" if direction == "decoder" else "compressed"),
                            cnt == 1, "%s: replace(%r, %r%s) replaces every occurrence" % (direction, old, new, "" if cnt is None else ", %r" % cnt), e.node)
                    guard = any(c.kind in ("cond", "known") and c.data[0] is True and c.seq < e.seq and isinstance(norm(c.data[1]) if not isinstance(c.data[1], tuple) else None, Sym)
                                and isinstance(norm(c.data[1]).name, tuple) and norm(c.data[1]).name[0] == "startswith" and norm(c.data[1]).name[2] == old for c in out.trace)
                    agg.add("R19.6", f, "a URL scheme prefix is handled only where the URL starts with it", guard, "%s: replace(%r, ..) without a successful startswith(%r) test" % (direction, old, old), e.node)
                else:
                    order.append(text)
                    agg.add("R19.6", f, "expansion codes are handled at every position", cnt is None, "%s: replace(%r, %r, %r) limits the count" % (direction, old, new, cnt), e.node)
            if direction == "decoder":
                agg.add("R19.6", f, "at most one scheme prefix is expanded per URL", npre <= 1, "%d prefix expansions on one path" % npre)
            else:
                for i, t1 in enumerate(order):
                    for t2 in order[:i]:
                        agg.add("R19.6", f, "the encoder compresses a longer expansion before a shorter one it starts with (.com/ before .com)", not (t1.startswith(t2) and t1 != t2),
                                "%r is compressed before %r" % (t2, t1))
        got_p = {c: t for c, t, isp in seen if isp}
        got_e = {c: t for c, t, isp in seen if not isp}
        # a direction that handles a table without `replace` (e.g. indexes the prefix table by the first character) shows no events for
        # it: then the class-level table itself is compared with the specification instead
        if got_p:
            agg.add("R19.6", f, "the %s uses the Eddystone scheme-prefix table" % direction, got_p == pref, "%s prefixes %r" % (direction, got_p))
        if got_e:
            agg.add("R19.6", f, "the %s uses the Eddystone expansion table" % direction, got_e == exp, "%s expansions %r" % (direction, got_e))
        pairs[direction] = (got_p, got_e)
    for k_, what in ((0, "scheme-prefix"), (1, "expansion")):
        a_, b_ = pairs["decoder"][k_], pairs["encoder"][k_]
        if a_ and b_:
            agg.add("R19.6", g, "URL encoder and decoder use the same %s codes" % what, a_ == b_, "decoder %r, encoder %r" % (a_, b_))
    try:
        tp, te = P.class_const(u, "codex_prefix"), P.class_const(u, "codex_suffix")
    except ValueError:
        tp = te = None
    agg.add("R19.6", (u.module.relpath, "UrlServiceData"), "the class-level code tables are the Eddystone tables in specification order",
            tp is not None and list(tp) == [pref[i] for i in sorted(pref)] and list(te) == [exp[i] for i in sorted(exp)], "codex_prefix %r codex_suffix %r" % (tp, te))
    return 2


def run(ck):
    ck.explanation = (
        "Static analysis of the BLE receive path. R19.1: FakeBLE.available() (incl. QueueElement.__init__ and _decode_data_struct) is abstractly "
        "interpreted on 32 arbitrary received bytes (RF24.read summarised, CRC/whitening/bit-reversal summarised as length-preserving); every "
        "subscript, struct.unpack and conversion that is evaluated is collected and must be discharged by the path's facts (i < end <= 29, "
        "1 <= size, size + i + 1 <= end, buffer length = end + 3) or it is a finding. R19.2: constructing and queueing an element is dominated by "
        "the length test end < 30 and a successful CRC comparison over the packet minus its last 3 bytes; reception applies bit-reversal then "
        "de-whitening. R19.3: for each service class the offset from which the decoder takes UUID / data / Eddystone TX power equals the offset the "
        "encoder's buffer puts it at (linear length of the type prefix). R19.4: signedness agreement - an encoder that masks a possibly negative "
        "integer must not be paired with a decoder that zero-pads into a signed unpack. R19.5: rx_queue is appended only by available() and "
        "consumed at the head only by read(). R19.6: URL codec tables.")
    ck.not_decided = ["value round-trips over all encodable data, bit-flip enumeration, random payloads; a static payload_length other than 32 is outside the quantifier"]
    agg = Agg(ck)
    b = ble.Ble(ck)
    n1, sites = escape(ck, agg, b)
    n2 = service_layout(ck, agg)
    n3 = signedness(ck, agg)
    n4 = rx_queue_discipline(ck, agg, b)
    n5 = url_tables(ck, agg)
    n6 = pa_level_codec(ck, agg, b)
    # reception de-whitens with the coefficient of the channel index: "received on the same channel" needs the index to name the frequency
    # the radio is tuned to after every hop_channel() / `channel = x` (C18's paired-update rule R18.4, re-run here)
    from . import c18
    c18.channel_pairing(ck, agg, b)
    # "a packet advertised by one FakeBLE object ... is queued": the receiver accepts only packets whose length byte and CRC position agree
    # with their content - what the advertiser assembles must satisfy the length algebra and layout of C18 (R18.1 / R18.2, re-run here)
    c18.length_algebra(ck, agg, ble.Ble(ck))
    c18.constants(ck, agg, ble.Ble(ck))      # incl. R18.6: after `show_pa_level = x` / `mac = x` / `name = x` the packet has the layout the receiver parses
    # "each once": FakeBLE.available() takes a payload only when RF24.available() says the FIFO holds one - from a fresh STATUS (R10.1, shared with C10)
    from . import c10
    from .radio import Radio
    c10.run_for(ck, Radio(ck), agg)
    agg.flush()
    ck.floor("R19.1", "available() paths", n1, 5)
    ck.floor("R19.1", "raise-capable site evaluations", sites, 8)
    ck.floor("R19.3", "service classes", n2, 3)
    ck.floor("R19.5", "uses of rx_queue", n4, 5)
