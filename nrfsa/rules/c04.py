"""C04 - tree routing and pipe addresses: the structural clauses.

The address arithmetic is analysed with a symbolic 12-bit address whose bits
carry provenance, so 'which octal digit ends up where' is read off the
abstract results instead of being computed for sample addresses."""
import ast
from ..absval import Const, Sym, Bytes, Seq, BitV, norm, const_of, NBITS, as_bitv
from ..interp import Ref, Limits, State
from ..interp_expr import deps_of
from ..model import AnalysisError, iter_own_nodes
from ..tables import rf24network as T
from .c03 import Agg, value_matches
from . import net, c07
from .c14 import node_bits, digit_deps


def bit_src(v, i):
    """source (name, bit) of bit i of an abstract int when it is a plain copy of an input bit; 0/1 for constants; None otherwise"""
    b = as_bitv(norm(v))
    if b is None:
        return None
    t = b.bits[i] if i < NBITS else b.hi
    if t in (0, 1):
        return t
    if t[0] == "s" and not t[2]:
        return t[1]
    return None


def begin_structure(ck, agg, nn):
    """R04.1/R04.6: what _begin derives from an address of each digit count"""
    P = ck.prog
    mix = P.cls("network.mixins", "NetworkMixin")
    f = P.method(mix, "_begin")
    st, node = nn.fresh()
    before = dict(st.heap[node.ident].fields)
    routing = {net.FN("_addr"), "_mask", "_mask_inv", net.FN("_parent"), "_parent_pipe", net.FN("_net_lvl")}
    outs = nn.run(f, node, [node_bits("n_addr")], st, limits=Limits(max_paths=4000, loop_unroll=8, depth=10, concrete_loop=20))
    levels = set()
    for out in outs:
        if out.kind != "return":
            agg.add("R04.6", f, "_begin() does not raise for a 12-bit address", False, "raises %s" % out.value.exc)
            continue
        c = out.state.heap[node.ident].fields
        # frame condition: re-addressing changes the routing attributes (and the radio) and nothing else - the timeouts, limits and
        # switches the application configured survive a node_address assignment, a mesh renew / release
        changed = sorted(k for k, v in c.items() if k not in routing and k in before and hasattr(v, "key") and hasattr(before[k], "key") and not isinstance(v, Ref) and norm(v).key() != norm(before[k]).key())
        agg.add("R04.6", f, "_begin() leaves the node's other attributes (timeouts, limits, switches) as the application set them", not changed,
                "_begin() overwrites %s - a value the application configured is silently replaced whenever the node is re-addressed" % ", ".join(changed))
        lvl = const_of(norm(c.get(net.FN("_net_lvl"))))
        agg.add("R04.1", f, "the network level is a definite number on every path", isinstance(lvl, int) and 0 <= lvl <= T.MAX_LEVEL, "level %r" % (c.get(net.FN("_net_lvl")),))
        if not isinstance(lvl, int):
            continue
        levels.add(lvl)
        d = lvl
        want_mask = (1 << (3 * d)) - 1
        agg.add("R04.1", f, "address mask covers exactly the node's own octal digits", const_of(norm(c.get("_mask"))) == want_mask, "level %d: mask %r, expected %s" % (d, c.get("_mask"), oct(want_mask)))
        agg.add("R04.1", f, "inverted mask is the 16-bit complement", const_of(norm(c.get("_mask_inv"))) == (0xFFFF << (3 * d)) & 0xFFFF, "level %d: inverted mask %r" % (d, c.get("_mask_inv")))
        # own address: bits above the digits are zero, the digits are the input
        # (bits above the node's digits are zero on this path: the stored copy may or may not carry that refinement, depending on which
        # variable the digit-counting loop tested)
        ok = all(bit_src(c.get(net.FN("_addr")), i) == ("n_addr", i) if i < 3 * d else bit_src(c.get(net.FN("_addr")), i) in (0, ("n_addr", i)) for i in range(NBITS))
        agg.add("R04.1", f, "the stored address is the given one", ok, "level %d: %r" % (d, c.get(net.FN("_addr"))))
        # parent = address without its most significant digit; parent pipe = that digit
        okp = all(bit_src(c.get(net.FN("_parent")), i) == (("n_addr", i) if i < 3 * (d - 1) else 0) for i in range(NBITS)) if d else const_of(norm(c.get(net.FN("_parent")))) == 0
        agg.add("R04.1", f, "parent address = own address without its most significant octal digit", okp, "level %d: parent %r" % (d, c.get(net.FN("_parent"))))
        okpp = all(bit_src(c.get("_parent_pipe"), i) == (("n_addr", 3 * (d - 1) + i) if i < 3 else 0) for i in range(NBITS)) if d else const_of(norm(c.get("_parent_pipe"))) == 0
        agg.add("R04.1", f, "parent pipe = the most significant octal digit of the own address", okpp, "level %d: parent pipe %r" % (d, c.get("_parent_pipe")))
        # R04.6: six pipes, each translated from the own address
        pa = [e for e in out.trace if e.kind == "pipe-address"]
        okpa = len(pa) == 6 and [const_of(norm(e.data[1])) for e in pa] == list(range(6)) and all(norm(e.data[0]).key() == node_bits("n_addr").key() for e in pa)
        agg.add("R04.6", f, "_begin() opens pipes 0..5 on the translations of the node's own address", okpa, "pipe addresses computed for %r" % [(e.data[0], e.data[1]) for e in pa][:6])
        opens = [e for e in out.trace if e.kind == "enter" and e.data.endswith(".open_rx_pipe")]
        agg.add("R04.6", f, "exactly six pipes are opened", len(opens) == 6, "%d open_rx_pipe calls" % len(opens))
    agg.add("R04.1", f, "every level 0..4 has a path", levels == set(range(T.MAX_LEVEL + 1)), "levels reached: %r" % sorted(levels))
    return len(outs)


def next_hop(ck, agg, nn):
    """R04.5 + radix: _logi_2_phys with symbolic masks: which bits of which operand decide, and the pipes used"""
    P = ck.prog
    mix = P.cls("network.mixins", "NetworkMixin")
    f = P.method(mix, "_logi_2_phys")
    n = 0
    for d in range(0, 5):     # this node has d digits
        mask, inv = (1 << (3 * d)) - 1, (0xFFFF << (3 * d)) & 0xFFFF
        own = BitV(tuple(("s", ("own", i), False) if i < 3 * d else 0 for i in range(NBITS)), 0, (0, mask))
        for send_type in (0, 1, 2, 3, 4):
            n += 1
            st, node = nn.fresh(fields={"_mask": mask, "_mask_inv": inv, net.FN("_addr"): own if d else Const(0), net.FN("_parent"): Sym("PARENT", "int"), "_parent_pipe": Sym("PPIPE", "int")})
            to = node_bits("to")
            outs = nn.run(f, node, [to, Const(send_type)], st)
            kinds = set()
            for out in outs:
                if out.kind != "return" or not isinstance(out.value, Seq) or len(out.value.items) != 3:
                    agg.add("R04.5", f, "_logi_2_phys() returns (node, pipe, multicast)", False, "returns %r" % (out.value,))
                    continue
                nh, pipe, mc = out.value.items
                if send_type > T.CONSTANTS["TX_ROUTED"]:
                    ok = norm(nh).key() == to.key() and const_of(norm(pipe)) == T.MULTICAST_PIPE and value_matches(mc, True)
                    agg.add("R04.5", f, "physical / multicast sends go straight to the given address on pipe 0, unacknowledged", ok, "send_type %d: %r" % (send_type, out.value.items))
                    continue
                agg.add("R04.5", f, "routed sends are not flagged multicast", value_matches(mc, False), "send_type %d: multicast flag %r" % (send_type, mc))
                p = const_of(norm(pipe))
                if p == T.DOWN_ROUTE_PIPE:
                    kinds.add("down")
                    # descendant test established: (to & mask) == own
                    # next hop: either `to` itself (direct child) or `to` cut after d+1 digits
                    cut = all(bit_src(nh, i) == (("to", i) if i < 3 * (d + 1) else 0) for i in range(NBITS))
                    whole = norm(nh).key() == to.key() or all(bit_src(nh, i) in (("to", i), 0) for i in range(NBITS))
                    agg.add("R04.5", f, "a descendant is reached through the child whose address is the destination cut after one more octal digit", cut or whole,
                            "node with %d digit(s): next hop %r" % (d, nh))
                    if not (norm(nh).key() == to.key()):
                        agg.add("R04.1", f, "the child's address keeps exactly own digits + one (3 bits per level)", cut, "node with %d digit(s): next hop %r" % (d, nh))
                else:
                    kinds.add("up")
                    ok = isinstance(norm(nh), Sym) and norm(nh).name == "PARENT" and isinstance(norm(pipe), Sym) and norm(pipe).name == "PPIPE"
                    agg.add("R04.5", f, "everything else goes to the parent on the parent pipe", ok, "next hop %r pipe %r" % (nh, pipe))
                # the decisions depend on the right bits
                for ev in out.trace:
                    if ev.kind != "cond":
                        continue
                    vals = ev.data[1] if isinstance(ev.data[1], tuple) else (ev.data[1],)
                    for v in vals:
                        b = as_bitv(norm(v))
                        if b is None:
                            continue
                        for i, t in enumerate(b.bits):
                            if t in (0, 1):
                                continue
                            srcs = {s for s in ([t[1]] if t[0] == "s" else list(t[1])) if isinstance(s, tuple) and s[0] in ("to", "own")}
                            okb = all(s[1] == i for s in srcs)
                            agg.add("R04.1", f, "address comparisons are bit-aligned (no digit is compared with a shifted neighbour)", okb,
                                    "in `%s` result bit %d depends on %r" % (ast.unparse(ev.node)[:60], i, sorted(srcs)), ev.node)
            if send_type <= T.CONSTANTS["TX_ROUTED"]:
                want = {"down"} if d == 0 else {"down", "up"}   # everything is a descendant of the master
                agg.add("R04.5", f, "routed sends go down to a child or (except on the master) up to the parent", kinds == want, "node with %d digit(s), send_type %d: %r" % (d, send_type, sorted(kinds)))
    return n


def child_window(ck, agg, nn):
    """the 'direct child' test looks exactly one digit above the own digits"""
    P = ck.prog
    mix = P.cls("network.mixins", "NetworkMixin")
    f = P.method(mix, "_logi_2_phys")
    n = 0
    for d in range(0, 4):
        mask, inv = (1 << (3 * d)) - 1, (0xFFFF << (3 * d)) & 0xFFFF
        own = 0o1234 & mask
        # destination = own digits + one more digit (direct child) / + two more digits (grand child)
        for extra, want_direct in ((1, True), (2, False)):
            if d + extra > 4:
                continue
            n += 1
            to_val = own | (0o5555 & ((1 << (3 * (d + extra))) - 1) & ~mask)
            st, node = nn.fresh(fields={"_mask": mask, "_mask_inv": inv, net.FN("_addr"): own, net.FN("_parent"): Sym("PARENT", "int"), "_parent_pipe": Sym("PPIPE", "int")})
            outs = nn.run(f, node, [Const(to_val), Const(T.CONSTANTS["TX_NORMAL"])], st)
            for out in outs:
                nh = const_of(norm(out.value.items[0])) if out.kind == "return" and isinstance(out.value, Seq) else None
                want = to_val if want_direct else (to_val & ((1 << (3 * (d + 1))) - 1))
                agg.add("R04.5", f, "a direct child is addressed itself, a deeper descendant through the child on its branch", nh == want and const_of(norm(out.value.items[1])) == T.DOWN_ROUTE_PIPE,
                        "node %s -> %s: next hop %r, expected %s" % (oct(own), oct(to_val), oct(nh) if isinstance(nh, int) else nh, oct(want)))
    return n


def translators(ck, agg):
    """R04.2: every pipe address programmed by the network layer comes from _pipe_address()"""
    n = 0
    for f in ck.prog.all_funcs():
        if f.module.name not in ("network.mixins", "rf24_network", "rf24_mesh"):
            continue
        for node in iter_own_nodes(f.node):
            if isinstance(node, ast.Call) and isinstance(node.func, ast.Attribute) and node.func.attr in ("open_rx_pipe", "open_tx_pipe"):
                if f.cls is not None and f.cls.name == "RadioMixin":
                    continue
                n += 1
                arg = node.args[-1] if node.args else None
                ok = isinstance(arg, ast.Call) and isinstance(arg.func, ast.Attribute) and arg.func.attr == "_pipe_address"
                agg.add("R04.2", f, "pipe addresses are produced by the one logical->physical translator", ok,
                        "`%s` programs an address that is not a _pipe_address() result: receivers and transmitters could disagree" % ast.unparse(node)[:80], node)
    return n


def tables(ck, agg, nn):
    """R04.3: default address_suffix has 6 pairwise distinct bytes, none equal to the prefix byte"""
    P = ck.prog
    mix = P.cls("network.mixins", "NetworkMixin")
    init = mix.lookup("__init__")[1]
    suffix = prefix = None
    # the default tables are whatever value the constructor's assignments evaluate to (a list display, a bytes literal, a module
    # constant ...): the right-hand sides are evaluated by the interpreter, not pattern-matched
    from ..engine import Interp
    from ..interp import State, Model, Frame
    from ..model import Ctx
    for node in ast.walk(init.node):
        if isinstance(node, (ast.Assign, ast.AnnAssign)):
            tg = node.targets[0] if isinstance(node, ast.Assign) else node.target
            if isinstance(tg, ast.Attribute) and tg.attr in ("address_suffix", "address_prefix") and node.value is not None:
                it = Interp(P, Model(), Limits())
                st0 = State()
                fr0 = Frame(init, mix, Ctx(P, init, mix), st0, {}, 0, None)
                vals = None
                res = it.ev(node.value, st0, fr0)
                if len(res) == 1:
                    cb = it.concrete_bytes(res[0][1], res[0][0])
                    vals = list(cb) if cb is not None else None
                if tg.attr == "address_suffix":
                    suffix = vals
                else:
                    prefix = vals
    agg.add("R04.3", init, "default address_suffix: six pairwise distinct bytes", suffix is not None and len(suffix) == 6 and len(set(suffix)) == 6, "suffix %r" % (suffix,))
    agg.add("R04.3", init, "default address_prefix: one byte, different from every suffix byte", prefix is not None and len(prefix) == 1 and suffix is not None and prefix[0] not in suffix, "prefix %r" % (prefix,))
    return 2


def pipes_differ_in_byte0(ck, agg, nn):
    """R04.7: for one node, pipes 1..5 (and pipe 0 without multicast) differ only in byte 0"""
    P = ck.prog
    mix = P.cls("network.mixins", "NetworkMixin")
    f = P.method(mix, "_pipe_address")
    sv = nn.model.opaque.pop(f.qualname, None)
    n = 0
    try:
        for am in (True, False):
            per = {}
            for pipe in range(6):
                st, node = nn.fresh(fields={"allow_multicast": am})
                outs = nn.run(f, node, [node_bits(), Const(pipe)], st, limits=Limits(max_paths=4000, loop_unroll=6, depth=8, concrete_loop=12))
                for out in outs:
                    if out.kind != "return" or not isinstance(out.value, Ref):
                        continue
                    items = out.state.heap[out.value.ident].items
                    iters = net.addr_digits(out)
                    per.setdefault(iters, {})[pipe] = [norm(b).key() for b in items]
            for iters, d in per.items():
                pipes = [p for p in d if p >= 1 or not am or iters == 0]
                n += 1
                tails = {tuple(map(repr, d[p][1:])) for p in pipes}
                heads = [repr(d[p][0]) for p in pipes]
                agg.add("R04.7", f, "the pipes of one node share bytes 1-4 (hardware: pipes 2-5 take them from pipe 1)", len(tails) == 1, "allow_multicast=%r, %d digit(s): %d different tails" % (am, iters, len(tails)))
                agg.add("R04.7", f, "the pipes of one node have pairwise distinct first bytes", len(set(heads)) == len(heads), "allow_multicast=%r, %d digit(s): first bytes %r" % (am, iters, heads))
    finally:
        if sv is not None:
            nn.model.opaque[f.qualname] = sv
    return n


def direction(ck, agg):
    """R04.9: RF24Network.write(frame, traffic_direct): with automatic routing the frame is handed to the router for its destination
    (TX_NORMAL); with an explicit direction it is transmitted *to that node / level* - physically when that is the destination itself, as
    a multicast when the frame is addressed to the multicast address, as a logical first hop otherwise (TMRh20 write(header, .., writeDirect))"""
    from . import c07
    P = ck.prog
    nn = net.NetNode(ck, "rf24_network", "RF24Network")
    mix = P.cls("network.mixins", "NetworkMixin")
    f_write = P.method(mix, "_write")
    nn.model.opaque[f_write.qualname] = c07.make_summary(nn, agg, "_write")
    f = P.method(nn.cls, "write")
    K = T.CONSTANTS
    n = 0
    st, node = nn.fresh(fields={net.FN("_frag_enabled"): True, "max_message_length": 144})
    frame = net.sym_frame(st, P, "frame", msg_len=4)
    to_node = st.heap[st.heap[frame.ident].fields["header"].ident].fields["to_node"]
    net.set_rng(st, "direct", (0, 0o7777))
    direct = Sym("direct", "int", rng=(0, 0o7777))
    outs = nn.run(f, node, [frame, direct], st, limits=Limits(max_paths=20000, loop_unroll=2, depth=14, concrete_loop=10))
    for out in outs:
        wr = [e for e in out.trace if e.kind == "summary" and e.data[0] == "_write"]
        if out.kind != "return" or not wr:
            continue
        n += 1
        a0, a1 = [norm(x) for x in wr[0].data[3]["args"][:2]]
        stype = const_of(a1)

        def eq(x, y):
            """True / False / None: did the path decide x == y ?"""
            res = None
            for e in out.trace:
                if e.kind == "cond" and e.seq < wr[0].seq and isinstance(e.node, ast.Compare) and isinstance(e.data[1], tuple) and len(e.data[1]) == 2 and isinstance(e.node.ops[0], (ast.Eq, ast.NotEq)):
                    p_, q_ = [norm(v) for v in e.data[1]]
                    if (p_.key() == norm(x).key() and q_.key() == norm(y).key()) or (q_.key() == norm(x).key() and p_.key() == norm(y).key()):
                        res = e.data[0] if isinstance(e.node.ops[0], ast.Eq) else not e.data[0]
            return res
        auto = eq(direct, Const(K["AUTO_ROUTING"]))
        if auto is True:
            agg.add("R04.9", f, "automatic routing: the frame goes to the router for its destination as TX_NORMAL", a0.key() == norm(to_node).key() and stype == K["TX_NORMAL"],
                    "write(frame): _write(%r, %r)" % (a0, a1), wr[0].node)
            continue
        agg.add("R04.9", f, "an explicit direction is decided by comparing it with AUTO_ROUTING", auto is False, "write(frame, direct): no test of the direction before _write(%r, %r)" % (a0, a1), wr[0].node)
        mc = eq(to_node, Const(K["NETWORK_MULTICAST_ADDR"]))
        phys = eq(to_node, direct)
        if phys is None and mc is True:
            phys = eq(Const(K["NETWORK_MULTICAST_ADDR"]), direct)      # the destination is known to be the multicast address by then
        same_as_dest = phys is True and (a0.key() == norm(to_node).key() or (mc is True and const_of(a0) == K["NETWORK_MULTICAST_ADDR"]))
        agg.add("R04.9", f, "with an explicit direction the frame is transmitted to that node / level", a0.key() == direct.key() or same_as_dest,
                "write(frame, direct): the frame is handed to _write(%r, ..) - not to the given direction; it goes to the address derived from the header instead" % (a0,), wr[0].node)
    # the send type, by the three predicates it may depend on (automatic? destination == direction? destination == multicast address?):
    # one concrete representative per class, so that the decision folds however it is spelled (if-chain, table indexed by the comparisons, ..)
    MC, AUTO = K["NETWORK_MULTICAST_ADDR"], K["AUTO_ROUTING"]
    for to_c, dir_c, want, what in ((0o5, 0o5, K["TX_PHYSICAL"], "the direction is the destination"), (MC, 0o10, K["TX_MULTICAST"], "a multicast frame directed at a level"),
                                    (MC, MC, K["TX_PHYSICAL"], "a multicast frame directed at its own destination"), (0o15, 0o5, K["TX_LOGICAL"], "a unicast frame handed to another first hop"),
                                    (0o15, AUTO, K["TX_NORMAL"], "automatic routing")):
        st2, node2 = nn.fresh(fields={net.FN("_frag_enabled"): True, "max_message_length": 144})
        frame2 = net.sym_frame(st2, P, "frame", {"to_node": to_c}, msg_len=4)
        for out in nn.run(f, node2, [frame2, Const(dir_c)], st2, limits=Limits(max_paths=20000, loop_unroll=2, depth=14, concrete_loop=10)):
            wr = [e for e in out.trace if e.kind == "summary" and e.data[0] == "_write"]
            if out.kind != "return" or not wr:
                continue
            n += 1
            a0, a1 = [const_of(norm(x)) for x in wr[0].data[3]["args"][:2]]
            agg.add("R04.9", f, "send type: physical to the destination itself, multicast for the multicast address, logical otherwise (normal when routed automatically)",
                    a1 == want and a0 == (to_c if dir_c == AUTO else dir_c),
                    "write(frame to %s, direction %s) - %s: _write(%r, send type %r), expected _write(%s, %d)" % (oct(to_c), oct(dir_c), what, a0, a1, oct(to_c if dir_c == AUTO else dir_c), want), wr[0].node)
    agg.add("R04.9", f, "write() reaches the transmitter (anchor)", n >= 4, "%d paths reach _write()" % n)
    return n


def poll_levels(ck, agg):
    """R04.10: the NETWORK_POLL a joining mesh node multicasts to level L is handed to the transmitter as level L's *address*
    (0, 0o1, 0o10, 0o100 - one digit 1 at position L) - not as the level number; the poll itself is a complete NETWORK_POLL frame from the
    unassigned address"""
    from . import c07
    P = ck.prog
    nn = net.NetNode(ck, "rf24_mesh", "RF24MeshNoMaster")
    mix = P.cls("network.mixins", "NetworkMixin")
    nn.model.opaque[P.method(mix, "_write").qualname] = c07.make_summary(nn, agg, "_write")
    nn.model.opaque[P.method(mix, "_net_update").qualname] = lambda model, it, st, fr, node, target, args, kw: [(st, Const(0))]
    f = P.method(nn.cls, "_make_contact")
    K = T.CONSTANTS
    n = 0
    for lvl in range(0, 4):
        st, node = nn.fresh(fields={net.FN("_addr"): K["NETWORK_DEFAULT_ADDR"]})
        for out in nn.run(f, node, [Const(lvl)], st, limits=Limits(max_paths=2000, loop_unroll=1, depth=10, concrete_loop=3)):
            wr = [e for e in out.trace if e.kind == "summary" and e.data[0] == "_write"]
            if not wr:
                continue
            n += 1
            a0, a1 = [const_of(norm(x)) for x in wr[0].data[3]["args"][:2]]
            want = (1 << (3 * (lvl - 1))) if lvl else 0
            agg.add("R04.10", f, "a poll for level L is multicast to the address of level L", a0 == want and a1 == K["TX_MULTICAST"] and len(wr) == 1,
                    "_make_contact(%d): _write(%r, send type %r), the address of level %d is %s" % (lvl, a0, a1, lvl, oct(want)), wr[0].node)
            h = wr[0].data[3].get("header", {})
            okh = const_of(norm(h.get("message_type"))) == K["NETWORK_POLL"] and const_of(norm(h.get("from_node"))) == K["NETWORK_DEFAULT_ADDR"] and const_of(norm(h.get("to_node"))) == K["NETWORK_MULTICAST_ADDR"]
            agg.add("R04.10", f, "the poll is a NETWORK_POLL frame from the unassigned address to the multicast address", okh, "_make_contact(%d): header %r" % (lvl, {k: h.get(k) for k in ("message_type", "from_node", "to_node")}))
            break
    agg.add("R04.10", f, "_make_contact() transmits a poll for every level 0..3 (anchor)", n == 4, "%d of 4 levels reach the transmitter" % n)
    return n


def reconfigure(ck, agg):
    """R04.8: assigning node_address re-runs _begin() for *every* valid value - also the current one (docs/topology: after changing
    address_prefix / address_suffix / allow_multicast the address must be re-assigned so that the six pipes are re-opened on the new
    bytes) - and does nothing for an invalid one"""
    P = ck.prog
    n = 0
    for modname, clsname in (("rf24_network", "RF24NetworkRoutingOnly"), ("rf24_network", "RF24Network")):
        nn = net.NetNode(ck, modname, clsname)
        mix = P.cls("network.mixins", "NetworkMixin")
        f_begin = P.method(mix, "_begin")

        def rec_begin(model, it, st, fr, node, target, args, kwargs):
            it.event(st, fr, "begin-call", node, tuple(args[1:]))
            return [(st, Const(None))]
        nn.model.opaque[f_begin.qualname] = rec_begin
        f = P.method(nn.cls, "node_address", "set")
        for which in ("another address", "the address the node already has"):
            n += 1
            st, node = nn.fresh()
            cur = st.heap[node.ident].fields[net.FN("_addr")]
            val = cur if which.startswith("the address") else Sym("val", "int", rng=(0, 0xFFFF))
            outs = nn.run(f, node, [val], st)
            for out in outs:
                if out.kind != "return":
                    agg.add("R04.8", f, "assigning node_address does not raise", False, "%s: raises %s" % (which, out.value.exc))
                    continue
                calls = [e for e in out.trace if e.kind == "begin-call"]
                valid = [e for e in out.trace if e.kind == "cond" and not isinstance(e.data[1], tuple) and isinstance(norm(e.data[1]), Sym) and isinstance(norm(e.data[1]).name, tuple) and norm(e.data[1]).name[0] == "valid"]
                is_valid = bool(valid) and all(e.data[0] is True for e in valid)
                if is_valid:
                    agg.add("R04.8", f, "a valid node_address (also the current one) re-opens the pipes through _begin()", len(calls) == 1 and calls[0].data and norm(calls[0].data[0]).key() == norm(val).key(),
                            "node_address = %s: %d _begin() call(s) %r - the pipes keep addresses derived from the old prefix/suffix/multicast settings" % (which, len(calls), [c.data for c in calls]))
                else:
                    agg.add("R04.8", f, "an invalid node_address changes nothing", not calls, "node_address = invalid value: _begin() called")
            agg.add("R04.8", f, "the setter has an accepting path", any(o.kind == "return" and [e for e in o.trace if e.kind == "begin-call"] for o in outs), "node_address = %s never reaches _begin()" % which)
    return n


def run(ck):
    ck.explanation = (
        "Static analysis of the routing arithmetic with a symbolic 12-bit address whose bits carry provenance. R04.1/R04.6: _begin is interpreted "
        "once; its paths are exactly the five digit counts, and on each the mask, inverted mask, parent (= address without its top digit), parent "
        "pipe (= the top digit) and level are read off bit by bit (a shift that is not a multiple of 3 or a digit mask other than 7 shows as a "
        "misplaced bit source); six pipes are opened on translations of the own address. R04.5: _logi_2_phys with symbolic destination for every "
        "own digit count x send type: physical/multicast -> given address, pipe 0; descendants -> pipe 5 via the destination cut after one more "
        "digit; otherwise the parent on the parent pipe; every comparison is bit-aligned. R04.2: each address programmed into the radio by the "
        "network modules is a _pipe_address() result (one translator for RX and TX). R04.3: default suffix/prefix bytes distinct. R04.7: the pipes "
        "of one node share bytes 1-4 and have pairwise distinct first bytes (with R14.4: byte k depends on digit k-1 only). R04.8: assigning "
        "node_address calls _begin() for every valid value, the current one included (that is how new prefix/suffix bytes reach the pipes). "
        "R14.1 (re-run here): multicast() addresses exactly the requested level, 0 and 4 included.")
    ck.not_decided = ["that hop-by-hop forwarding reaches every destination in at most 8 hops along the tree path for all 781x780 pairs, and that no two of the "
                      "781x6 physical addresses collide: arithmetic facts over runtime values that need evaluation or proof, not shape"]
    agg = Agg(ck)
    nn = net.NetNode(ck, "rf24_network", "RF24Network")
    nn.merge_funcs = set()
    n1 = begin_structure(ck, agg, nn)
    n2 = next_hop(ck, agg, nn)
    n2 += child_window(ck, agg, nn)
    n3 = translators(ck, agg)
    n4 = tables(ck, agg, nn)
    n5 = pipes_differ_in_byte0(ck, agg, nn)
    n6 = reconfigure(ck, agg)
    # "a multicast addressed to a level is transmitted to exactly that level's address": the level argument's domain (C14's R14.1)
    from . import c14
    n7 = c14.level_domain(ck, agg, net.NetNode(ck, "rf24_network", "RF24Network"))
    # "pipe addresses never collide": byte k of a pipe address depends on exactly octal digit k-1 of the node address, for all four digits (R14.4)
    c14.pipe_address(ck, agg, net.NetNode(ck, "rf24_network", "RF24Network"))
    n8 = direction(ck, agg)
    # "no other node listens on that address": after its own transmissions a node's pipe 0 is back on the address _begin() gave it - the
    # radio layer's pipe-0 discipline (R08.x, shared with C08)
    from . import c08
    from .radio import Radio
    c08.run_for(ck, Radio(ck), agg)
    poll_levels(ck, agg)
    # "routing connects all 781 addresses": every router drops frames whose addresses the validator refuses and write() refuses such
    # destinations, so the validator must accept exactly the address grammar - all of 1..4 digits in 1..5 (R15.3, shared with C15)
    from . import c15
    c15.validator(ck, agg)
    # "every hop is the sender's parent / pipes never collide": pipes and routing fields follow the logical address only because nothing
    # but _begin() stores it (R07.4, shared with C07)
    from . import c07
    c07.addr_writers(ck, agg)
    agg.flush()
    ck.floor("R04.9", "write() paths reaching the transmitter", n8, 4)
    ck.floor("R04.8", "node_address re-assignment scenarios", n6, 4)
    ck.floor("R04.1", "_begin paths", n1, 5)
    ck.floor("R04.5", "next-hop scenarios", n2, 25)
    ck.floor("R04.2", "pipe-address programming sites", n3, 3)
    ck.floor("R04.7", "digit-count groups", n5, 8)
