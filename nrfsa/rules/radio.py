"""shared scenario harness for the register-level rules (C03, C08, C09, C10, C20)"""
import ast
from ..absval import (Const, Unknown, Sym, Seq, BitV, Lin, Bytes, const_of, norm, as_bitv, as_lin, interval,
                      may1_mask, term_deps, from_int, lin_add, NBITS)
from ..interp import State, Ref, Raised, Limits
from ..engine import Interp
from ..effects import RadioModel, old_reg, Regs
from ..rf24state import post_init, shadow_pairs, inv_state
from ..model import AnalysisError
from ..tables import regmap


def regname(r):
    return regmap.REGS[r][0] if r in regmap.REGS else "0x%02X" % r


def lift(st, v):
    """python value -> abstract value"""
    if isinstance(v, (list,)):
        return st.alloc("list", items=[lift(st, x) for x in v])
    if isinstance(v, tuple):
        return Seq([lift(st, x) for x in v], "tuple")
    if isinstance(v, bytearray):
        r = st.alloc("bytearray", items=[Const(b) for b in v])
        return r
    if isinstance(v, bytes):
        return Bytes([(("const", v), Const(len(v)))], "bytes")
    return Const(v)


def bits8(v):
    """list of 8 bit terms of an int-like abstract value, or None"""
    b = as_bitv(norm(v))
    if b is None:
        return None
    if any(x != 0 for x in b.bits[8:]) or b.hi != 0:
        return list(b.bits[:8]) + ["overflow"]
    return list(b.bits[:8])


def subst_bits(bits, facts):
    """apply single-bit facts learned from branch conditions on this path"""
    if not facts or bits is None:
        return bits
    out = []
    for b in bits:
        if isinstance(b, tuple) and b[0] == "s" and b[1] in facts:
            v = facts[b[1]]
            out.append(1 - v if b[2] else v)
        else:
            out.append(b)
    return out


def term_eq(a, b):
    if a == b:
        return True
    if isinstance(a, tuple) and isinstance(b, tuple) and a[0] == "m" and b[0] == "m":
        return a[1] == b[1]
    return False


def fmt_bits(bits):
    def t(b):
        if b in (0, 1):
            return str(b)
        if b == "overflow":
            return "OVF"
        if b[0] == "s":
            s = b[1]
            nm = "old%d" % s[2] if (isinstance(s, tuple) and s[0] == "reg") else ".".join(map(str, s)) if isinstance(s, tuple) else str(s)
            return ("~" if b[2] else "") + nm
        return "mix"
    return "[" + " ".join(t(b) for b in reversed(bits)) + "]"


class Radio:
    """driver class + model + invariant start state"""

    def __init__(self, ck, module="rf24", clsname="RF24"):
        self.ck, self.prog = ck, ck.prog
        self.cls = self.prog.cls(module, clsname)
        self.model = RadioModel(self.prog, self.cls)
        self.it0, self.st_init, self.ref, self.init_outs = post_init(self.prog, self.cls, self.model)
        ck.absorb(self.it0)
        hit = self.cls.lookup("__enter__")
        if hit is not None:
            self.pairs, self.pair_detail, self.enter_out, self.offsets = shadow_pairs(self.prog, self.cls, self.model, self.st_init, self.ref)
        else:
            self.pairs, self.pair_detail, self.enter_out, self.offsets = {}, {}, None, {}
        self.inv = inv_state(self.prog, self.cls, self.model, self.st_init, self.ref, self.pairs, self.offsets)
        # slim the SPI buffers
        cell = self.inv.heap[self.ref.ident]
        for name, v in list(cell.fields.items()):
            if isinstance(v, Ref) and v.kind == "bytearray" and len(self.inv.heap[v.ident].items or []) > 16:
                self.inv.heap[v.ident].items = self.inv.heap[v.ident].items[:3]
        # the STATUS byte cached before the analysed call is transaction 0; the call's own transactions are numbered from 1, so a test of
        # the cached byte can never be mistaken for a test of a byte read during the call
        self.inv.extra["txn"] = -1
        self.model.new_status(self.it0, self.inv, None, self.ref, None)
        self.inv.extra["txn"] = 0

    def old(self, r):
        v = old_reg(r)
        return list(v.bits[:8])

    def fresh(self, pins=None, fields=None):
        """fork of the invariant state with whole registers pinned to ints (shadow pinned too)"""
        st = self.inv.fork()
        st.trace = []
        for r, val in (pins or {}).items():
            self.pin(st, r, val)
        cell = st.heap[self.ref.ident]
        for k, v in (fields or {}).items():
            cell.fields[k] = v
        return st

    def pin(self, st, r, val):
        v = val if not isinstance(val, int) else Const(val)
        st.extra["regs"][r] = v
        p = self.pairs.get(r)
        if p is None:
            return
        name, idx = p
        cell = st.heap[self.ref.ident]
        sh = v
        if r in self.offsets:
            l = as_lin(v)
            sh = norm(lin_add(l, Lin({}, self.offsets[r]))) if l is not None else v
            if isinstance(sh, Lin) and not sh.terms:
                sh = Const(sh.c)
        if idx is None:
            cell.fields[name] = sh
        else:
            st.heap[cell.fields[name].ident].items[idx] = sh

    def run(self, func, args, st, kwargs=None, limits=None):
        it = Interp(self.prog, self.model, limits or Limits(max_paths=6000, loop_unroll=2))
        vals = [lift(st, a) if not hasattr(a, "key") else a for a in args]
        outs = it.run(func, self.cls, self.ref, vals, kwargs, st=st)
        self.ck.absorb(it)
        self.ck.analysed(func)
        return outs

    def user_pipe0_field(self):
        """the field open_rx_pipe(0, addr) stores the caller's address in (besides the register shadow)"""
        if getattr(self, "_p0f", None):
            return self._p0f
        if getattr(self, "_p0f_busy", False):
            return None          # asked from a hook while the inference itself is running open_rx_pipe()
        self._p0f_busy = True
        try:
            return self._infer_p0f()
        finally:
            self._p0f_busy = False

    def _infer_p0f(self):
        f = self.prog.method(self.cls, "open_rx_pipe")
        st = self.fresh()
        probe = Bytes([(("const", b"\x11\x22\x33\x44\x55"), Const(5))], "bytes")
        before = dict(st.heap[self.ref.ident].fields)     # snapshot: the run may continue in (and change) this very state object
        outs = [o for o in self.run(f, [0, probe], st) if o.kind == "return"]
        names = set()
        for o in outs:
            for k, v in o.state.heap[self.ref.ident].fields.items():
                if isinstance(v, Bytes) and v.key() == probe.key():
                    names.add(k)
                elif isinstance(v, Ref) and v.kind == "bytearray" and not (isinstance(before.get(k), Ref) and before[k].ident == v.ident):
                    # the field was re-bound to a buffer that holds the address (a copy - or, wrongly, an alias of the shadow: judged by R08.6)
                    if self.it0.concrete_bytes(v, o.state) == b"\x11\x22\x33\x44\x55":
                        names.add(k)
        if len(names) != 1:
            raise AnalysisError("cannot identify the field holding the user's pipe-0 address (candidates: %s)" % sorted(names))
        self._p0f = names.pop()
        return self._p0f

    def setter(self, name, kind):
        return self.prog.method(self.cls, name, "set" if kind == "prop" else None)

    def getter(self, name, kind):
        return self.prog.method(self.cls, name, "get" if kind == "prop" else None)

    # ------------------------------------------------------------ checks
    def final_reg(self, st, r):
        return st.extra["regs"].get(r) if r in st.extra.get("regs", {}) else None

    def shadow_value(self, st, r):
        p = self.pairs.get(r)
        if p is None:
            return None
        name, idx = p
        cell = st.heap[self.ref.ident]
        v = cell.fields.get(name)
        if idx is not None:
            if not (isinstance(v, Ref) and v.kind == "list"):
                return Unknown(why="shadow list replaced")
            items = st.heap[v.ident].items
            if idx >= len(items):
                return Unknown(why="shadow list shrank")
            v = items[idx]
        return v

    def bytes_of(self, st, v):
        """tuple of item keys for byte-array like values (or None)"""
        v = norm(v) if not isinstance(v, Ref) else v
        if isinstance(v, Ref) and v.kind == "bytearray" and not st.heap[v.ident].opaque:
            return tuple(norm(i).key() for i in st.heap[v.ident].items)
        if isinstance(v, Bytes) and len(v.parts) == 1 and v.parts[0][0][0] == "const":
            return tuple(Const(b).key() for b in v.parts[0][0][1])
        if isinstance(v, Bytes) and len(v.parts) == 1 and v.parts[0][0][0] == "items":
            return tuple(v.parts[0][0][1])
        if isinstance(v, Bytes) and len(v.parts) == 1 and v.parts[0][0][0] == "reg":
            r = v.parts[0][0][1]
            return tuple(Sym(("reg", r, "byte", j), "int").key() for j in range(5))
        if isinstance(v, Const) and isinstance(v.v, (bytes, bytearray)):
            return tuple(Const(b).key() for b in v.v)
        if isinstance(v, Bytes) and v.parts and all(isinstance(const_of(norm(ln)), int) for _t, ln in v.parts):
            # symbolic content of known length: the per-byte symbols the interpreter uses when iterating over it
            out = []
            for tag, ln in v.parts:
                for j in range(const_of(norm(ln))):
                    if tag[0] == "const":
                        out.append(Const(tag[1][j]).key())
                    elif tag[0] == "items" and len(tag) > 2:
                        out.append(norm(tag[2][j]).key())
                    else:
                        from ..interp_stmt import byte_name
                        out.append(Sym(byte_name(tag, j), "int").key())
            return tuple(out)
        return None

    def shadow_matches(self, st, r):
        """(ok, detail) whether the shadow paired with register r equals the register at this state"""
        sh = self.shadow_value(st, r)
        if sh is None:
            return True, "no shadow"
        reg = st.extra["regs"].get(r)
        if reg is None:
            reg = self.inv.extra["regs"].get(r)
        width = regmap.REGS[r][1]
        if width > 1:
            a, b = self.bytes_of(st, sh), self.bytes_of(st, reg)
            if a is None or b is None:
                return False, "shadow %r vs register %r not comparable" % (sh, reg)
            n = min(len(a), len(b))
            # a shorter write leaves the remaining register bytes as they were
            if isinstance(reg, (Bytes, Const)) or (isinstance(reg, Ref)):
                if a[:n] == b[:n] and (len(b) >= len(a) or True):
                    if len(b) < len(a):
                        # the untouched tail of the shadow must be the register's previous tail
                        return True, "prefix of %d bytes" % n
                    return True, ""
            return False, "shadow bytes %s != register bytes %s" % (a, b)
        if r in self.offsets:
            ls, lr = as_lin(norm(sh)), as_lin(norm(reg))
            if ls is None or lr is None:
                return False, "shadow %r vs register %r not comparable" % (sh, reg)
            d = lin_add(ls, lr, -1)
            ok = not d.terms and d.c == self.offsets[r]
            return ok, "shadow - register = %r, expected %d" % (d, self.offsets[r])
        a, b = bits8(sh), bits8(reg)
        if a is None or b is None:
            if norm(sh).key() == norm(reg).key():
                return True, ""
            return False, "shadow %r vs register %r not comparable" % (sh, reg)
        facts = st.extra.get("bitfacts")
        if facts:
            a, b = subst_bits(a, facts), subst_bits(b, facts)
        ok = len(a) == len(b) and all(term_eq(x, y) for x, y in zip(a, b))
        return ok, "shadow %s != register %s" % (fmt_bits(a), fmt_bits(b))

    def legal_write(self, r, v):
        """(ok, detail) for a 1-byte register write of abstract value v"""
        info = regmap.REGS.get(r)
        if info is None:
            return False, "write to undocumented register 0x%02X" % r
        name, width, reserved, _f = info
        b = bits8(v)
        if b is None:
            iv = interval(norm(v))
            lim = regmap.LIMITS.get(r, (0, 255 & ~reserved))
            if iv and None not in iv and lim[0] <= iv[0] and iv[1] <= lim[1] and (reserved == 0 or iv[1] <= (255 & ~reserved) and _contig(reserved, iv[1])):
                return True, ""
            return False, "value %r not provably legal for %s" % (v, name)
        if b[-1] == "overflow":
            return False, "value may exceed 8 bits: %r" % (v,)
        for i in range(8):
            if (reserved >> i) & 1 and b[i] != 0:
                return False, "reserved bit %d of %s may be set: %s" % (i, name, fmt_bits(b))
        lim = regmap.LIMITS.get(r)
        if lim is not None:
            iv = interval(norm(v))
            if not (iv and None not in iv and lim[0] <= iv[0] and iv[1] <= lim[1]):
                return False, "value range %r outside %r for %s" % (iv, lim, name)
        return True, ""


def _contig(reserved, hi):
    return (hi & reserved) == 0 and hi < (reserved & -reserved if reserved else 256)


def regwrites(out):
    """[(event, reg int|None, value)] of 1-byte register writes on a path"""
    res = []
    for ev in out.trace:
        if ev.kind == "regwrite":
            r, v, _t = ev.data
            rc = r if isinstance(r, int) else const_of(norm(r))
            res.append((ev, rc, v, r))
    return res
