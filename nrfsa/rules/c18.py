"""C18 - every advertisement is a well-formed BLE packet for the channel it is sent on (structural clauses)."""
import ast
from ..absval import Const, Sym, Bytes, Seq, Lin, norm, const_of, as_lin, lin_add
from ..interp import Ref, Limits
from ..model import AnalysisError, iter_own_nodes
from ..tables import ble as TB
from .c03 import Agg, value_matches
from .radio import regwrites
from . import ble


def sym_bytes(name, ln):
    return Bytes([(("sym", name), ln)], "bytes")


def scenario(b, show_dbm, named):
    fields = {"_show_dbm": Const(show_dbm), "_mac": sym_bytes("mac", Const(6)),
              "_ble_name": sym_bytes("name", Sym("N", "int", rng=(0, None))) if named else Const(None)}
    st = b.fresh(fields=fields)
    rng = dict(st.extra.get("symrng", {}))
    rng["N"] = (0, None)
    rng[("len", "payload")] = (0, None)
    st.extra["symrng"] = rng
    pl = Bytes([(("param", "payload"), Sym(("len", "payload"), "int", rng=(0, None)))], "bytes", origin=("param", "payload"))
    return st, pl


def expected_total(show_dbm, named):
    """2 header + 6 MAC + 3 flags + 3 TX-power AD + (N + 2) name AD + payload + 3 CRC  (Bluetooth Core: AdvA(6) + AD structures)"""
    t = {("len", "payload"): 1}
    c = TB.HEADER_LEN + TB.MAC_LEN + TB.FLAGS_AD_LEN + TB.CRC_LEN + (TB.TXPOWER_AD_LEN if show_dbm else 0)
    if named:
        t["N"] = 1
        c += 2
    return Lin(t, c)


def net_deps(v):
    from .net import base_deps
    return base_deps(v)


def cells(parts):
    """byte-level view of an assembled packet (see length_algebra)"""
    from ..interp_ext import parse_fmt, STRUCT_CODES
    out = []
    for tag, ln in parts:
        k = tag[0]
        if k == "const":
            out.extend(tag[1])
        elif k == "items":
            for x in tag[2]:
                c = const_of(norm(x))
                out.append(c & 0xFF if isinstance(c, int) else ("v", x))
        elif k == "pack":
            order, codes = parse_fmt(tag[1])
            for c_, x in zip([c for c in codes if c != "x"], tag[2]):
                n_ = STRUCT_CODES[c_][0]
                cv = const_of(norm(x))
                if isinstance(cv, int):
                    out.extend(cv.to_bytes(n_, "big" if order in (">", "!") else "little", signed=cv < 0))
                elif n_ == 1:
                    out.append(("v", x))
                else:
                    out.append(("blk", "pack" + tag[1]))
        elif k == "sym":
            out.append(("blk", tag[1]))
        elif k == "param":
            out.append(("blk", "payload"))
        elif k == "crc24":
            out.append(("blk", "crc"))
        else:
            out.append(("blk", str(k)))
    return out


def length_algebra(ck, agg, b):
    P = ck.prog
    f_mk = P.method(b.cls, "_make_payload")
    f_av = P.method(b.cls, "len_available")
    n = 0
    for show_dbm in (True, False):
        for named in (True, False):
            n += 1
            label = "show_pa_level=%r, name %s" % (show_dbm, "set" if named else "None")
            st, pl = scenario(b, show_dbm, named)
            outs = b.run(f_mk, [pl], st)
            want = expected_total(show_dbm, named)
            kinds = set()
            for out in outs:
                it = b.it0
                if out.kind == "raise":
                    kinds.add("raise")
                    agg.add("R18.1", f_mk, "an oversize packet is refused with ValueError", out.value.exc == "ValueError", "%s: raises %s" % (label, out.value.exc), out.value.node)
                    # region: exactly when the packet would exceed 32 bytes
                    sgn = it.lin_sign(lin_add(want, Lin({}, TB.RADIO_PAYLOAD), -1), out.state)
                    agg.add("R18.1", f_mk, "ValueError exactly when the packet would not fit in 32 bytes", sgn == ">0", "%s: raise region has total - 32 %s" % (label, sgn))
                    agg.add("R18.1", f_mk, "nothing reaches the radio when the packet is refused", not [e for e in out.trace if e.kind in ("cmd", "cmdwriten", "regwrite", "radio-send")], label)
                    continue
                kinds.add("ok")
                v = out.value
                ln = as_lin(norm(v.length())) if isinstance(v, Bytes) else None
                d = lin_add(ln, want, -1) if ln is not None else None
                agg.add("R18.1", f_mk, "assembled length = 2 + 6 + 3 + 3*[pa level] + (len(name)+2)*[name] + len(payload) + 3", d is not None and not d.terms and d.c == 0,
                        "%s: assembled length %r, BLE layout gives %r" % (label, ln, want))
                sgn = it.lin_sign(lin_add(Lin({}, TB.RADIO_PAYLOAD), want, -1), out.state)
                agg.add("R18.1", f_mk, "an accepted packet fits in the radio's 32-byte payload", sgn in (">0", ">=0", "==0"), "%s: accepted although 32 - total is %s" % (label, sgn))
                parts = v.parts if isinstance(v, Bytes) else []
                tags = [p[0] for p in parts]
                # the packet as a sequence of cells: a known byte (int), one byte of known provenance ("v", value), or a block of symbolic
                # length ("blk", label) - whatever statements / library calls put the bytes there (bytes([..]), struct.pack, chunk(), constants)
                cl = cells(parts)
                okh = len(cl) >= 2 and cl[0] == TB.PDU_TYPE and isinstance(cl[1], tuple) and cl[1][0] == "v"
                agg.add("R18.2", f_mk, "PDU header byte 0 is 0x42 (ADV_NONCONN_IND, TxAdd random)", okh, "%s: packet starts %r" % (label, cl[:2]))
                if okh:
                    pls = as_lin(norm(cl[1][1]))
                    dd = lin_add(pls, lin_add(want, Lin({}, TB.HEADER_LEN + TB.CRC_LEN), -1), -1) if pls is not None else None
                    agg.add("R18.2", f_mk, "the length byte counts everything between header and CRC", dd is not None and not dd.terms and dd.c == 0, "%s: length byte %r, expected total - 5" % (label, cl[1][1]))
                shape = [c if isinstance(c, int) else ("?" if c[0] == "v" else c[1]) for c in cl]
                for i_ in range(len(shape) - 2):
                    if shape[i_] == 2 and shape[i_ + 1] == TB.AD_TX_POWER and isinstance(shape[i_ + 2], int):
                        shape[i_ + 2] = "?"          # the PA level, known on this path (looked up in a constant table)
                want_shape = [TB.PDU_TYPE, "?", "mac", 2, TB.AD_FLAGS, 5]
                if show_dbm:
                    want_shape += [2, TB.AD_TX_POWER, "?"]
                if named:
                    want_shape += ["?", TB.AD_SHORT_NAME, "name"]
                want_shape += ["payload", "crc"]
                agg.add("R18.2", f_mk, "field order: header, MAC, flags AD (02 01 05), [TX power AD 02 0A xx], [name AD len 08 name], caller's chunks, CRC", shape == want_shape,
                        "%s: layout %r, expected %r" % (label, shape, want_shape))
                crcs = [e for e in out.trace if e.kind == "crc"]
                if crcs and isinstance(crcs[0].data[0], Bytes):
                    covered = [p[0] for p in crcs[0].data[0].parts]
                    agg.add("R18.2", f_mk, "the CRC covers everything before it and nothing else", covered == tags[:-1] and len(crcs) == 1, "%s: CRC input has %d parts, packet has %d before the CRC" % (label, len(covered), len(tags) - 1))
                    agg.add("R18.5", f_mk, "the CRC is computed with the documented defaults (no overriding arguments)", not crcs[0].data[1] and not crcs[0].data[2], "crc24_ble called with %r %r" % (crcs[0].data[1], crcs[0].data[2]))
                else:
                    agg.add("R18.2", f_mk, "the packet ends with crc24_ble of its content", False, "%s: no CRC computation" % label)
                if named:
                    k_ = shape.index("name") if "name" in shape else -1
                    lv = cl[k_ - 2][1] if k_ >= 2 and isinstance(cl[k_ - 2], tuple) and cl[k_ - 2][0] == "v" else None
                    l0 = as_lin(norm(lv)) if lv is not None else None
                    agg.add("R18.2", f_mk, "the name AD's length byte is len(name) + 1", l0 is not None and l0.terms == {"N": 1} and l0.c == 1, "%s: name AD length %r" % (label, lv))
            agg.add("R18.1", f_mk, "both the fitting and the oversize case exist", kinds == {"ok", "raise"}, "%s: %r" % (label, sorted(kinds)))
            # len_available == 32 - assembled length
            st, pl = scenario(b, show_dbm, named)
            outs = b.run(f_av, [pl], st)
            for out in outs:
                la = as_lin(norm(out.value)) if out.kind == "return" else None
                d = lin_add(lin_add(Lin({}, TB.RADIO_PAYLOAD), want, -1), la, -1) if la is not None else None
                agg.add("R18.1", f_av, "len_available(chunks) == 32 - length of the packet those chunks would make", d is not None and not d.terms and d.c == 0,
                        "%s: len_available is %r, 32 - total is %r" % (label, out.value, lin_add(Lin({}, TB.RADIO_PAYLOAD), want, -1)))
    return n


def transforms(ck, agg, b):
    """R18.3: CRC'd packet -> whitened -> bit-reversed -> RF24.send, exactly once; caller's chunk verbatim"""
    P = ck.prog
    f = P.method(b.cls, "advertise")
    rf = P.cls("rf24", "RF24")
    sends = []

    def rec_send(model, it, st, fr, node, target, args, kwargs):
        it.event(st, fr, "radio-send", node, (args[1], args[2:], dict(kwargs)))
        return [(st, Const(True))]
    b.model.opaque[P.method(rf, "send").qualname] = rec_send
    n = 0
    try:
        for mode in ("bytes", "list", "list of bytearrays", "tuple of bytearrays", "empty"):
            n += 1
            st, pl = scenario(b, False, False)
            if mode == "bytes":
                arg = Bytes([(("param", "buf"), Const(4))], "bytes", origin=("param", "buf"))
            elif mode == "list":
                arg = st.alloc("list", items=[Bytes([(("param", "c0"), Const(3))], "bytes"), Bytes([(("param", "c1"), Const(4))], "bytes")])
            elif mode.endswith("bytearrays"):
                # what chunk() hands out: mutable objects that the caller keeps and advertises again (docs) - they must come back unchanged
                chunks = [Bytes([(("param", "c0"), Const(3))], "bytearray", origin=("param", "c0")), Bytes([(("param", "c1"), Const(4))], "bytearray", origin=("param", "c1"))]
                arg = st.alloc("list", items=chunks) if mode.startswith("list") else Seq(chunks, "tuple")
            else:
                arg = Bytes([], "bytes")
            outs = b.run(f, [arg], st)
            for out in outs:
                if out.kind != "return":
                    agg.add("R18.3", f, "advertise() of a small payload does not raise", False, "%s raises %s" % (mode, out.value.exc))
                    continue
                mut = sorted({str(e.data) for e in out.trace if e.kind == "mutate" and isinstance(e.data, tuple) and e.data[0] == "param"})
                agg.add("R18.2", f, "advertise() leaves the caller's chunks as they are (the same chunks are advertised again and again)", not mut,
                        "%s: advertise() modifies the caller's object(s) %s in place - the next advertise() of the same chunks sends them twice over" % (mode, ", ".join(mut)))
                sd = [e for e in out.trace if e.kind == "radio-send"]
                agg.add("R18.3", f, "exactly one radio payload is sent per advertise()", len(sd) == 1, "%s: %d sends" % (mode, len(sd)))
                if not sd:
                    continue
                v = sd[0].data[0]
                inner, _x = ble.unwrap(v, "reversed")
                inner2, coef = ble.unwrap(inner, "whitened") if inner is not None else (None, None)
                okc = isinstance(inner2, Bytes) and inner2.parts and inner2.parts[-1][0][0] == "crc24"
                agg.add("R18.3", f, "the radio payload is bit-reverse(whiten(packet with CRC)) in that order", okc, "%s: sent value structure %r" % (mode, [p[0][0] for p in v.parts] if isinstance(v, Bytes) else v))
                if okc:
                    tags = [p[0] for p in inner2.parts]
                    if mode == "bytes":
                        okp = any(t == ("param", "buf") for t in tags) and any(t[0] == "items" and len(t[2]) == 2 and const_of(norm(t[2][0])) == 5 and const_of(norm(t[2][1])) == TB.AD_MANUFACTURER for t in tags)
                        agg.add("R18.2", f, "a raw buffer is wrapped as one AD structure [len+1, 0xFF] + the caller's bytes", okp, "parts %r" % ([t[:2] for t in tags],))
                    elif mode != "empty":
                        idx = [i for i, t in enumerate(tags) if t in (("param", "c0"), ("param", "c1"))]
                        agg.add("R18.2", f, "caller's chunks appear verbatim, in order, adjacent", len(idx) == 2 and idx[1] == idx[0] + 1 and tags[idx[0]] == ("param", "c0"), "parts %r" % ([t[:2] for t in tags],))
    finally:
        b.model.opaque.pop(P.method(rf, "send").qualname, None)
    return n


def channel_pairing(ck, agg, b):
    """R18.4: whenever FakeBLE tunes the radio, the whitening index names the same BLE channel"""
    P = ck.prog
    freq = TB.BLE_FREQ
    got = None
    try:
        got = tuple(P.const_value(P.modules["fake_ble"], "BLE_FREQ"))
    except ValueError:
        pass
    agg.add("R18.4", (P.modules["fake_ble"].relpath, "<module>"), "BLE_FREQ maps advertising channels 37, 38, 39 to 2402, 2426, 2480 MHz", got == freq, "BLE_FREQ = %r" % (got,))
    f_hop = P.method(b.cls, "hop_channel")
    f_ch = P.method(b.cls, "channel", "set")
    f_wh = P.method(b.cls, "whiten")
    n = 0
    for cur in (0, 1, 2):
        n += 1
        st = b.fresh({5: freq[cur]}, fields={b.freq_index_field(): Const(cur)})
        for out in b.run(f_hop, [], st):
            if out.kind != "return":
                agg.add("R18.4", f_hop, "hop_channel() does not raise", False, "raises %s" % out.value.exc)
                continue
            idx = const_of(norm(b.obj(out.state).fields.get(b.freq_index_field())))
            ch = const_of(norm(out.state.extra["regs"].get(5)))
            agg.add("R18.4", f_hop, "after hop_channel() RF_CH is the frequency of the whitening channel index", idx in (0, 1, 2) and ch == freq[idx], "index %r, RF_CH %r" % (idx, ch))
            agg.add("R18.4", f_hop, "hop_channel() cycles 37 -> 38 -> 39 -> 37", idx == (cur + 1) % 3, "from index %d to %r" % (cur, idx))
            ok, det = b.shadow_matches(out.state, 5)
            agg.add("R18.4", f_hop, "the channel shadow follows (so `with` restores the same frequency)", ok, det)
    for cur in (0, 1, 2):
        for val in (2, 26, 80, 5, 37, 125):
            n += 1
            st = b.fresh({5: freq[cur]}, fields={b.freq_index_field(): Const(cur)})
            for out in b.run(f_ch, [val], st):
                if out.kind != "return":
                    agg.add("R18.4", f_ch, "channel setter does not raise", False, "raises %s" % out.value.exc)
                    continue
                idx = const_of(norm(b.obj(out.state).fields.get(b.freq_index_field())))
                ch = const_of(norm(out.state.extra["regs"].get(5)))
                agg.add("R18.4", f_ch, "after `channel = x` the whitening channel index still names the frequency the radio is tuned to", idx in (0, 1, 2) and ch == freq[idx],
                        "channel = %d with whitening index %d (BLE channel %d): RF_CH becomes %r but the index stays %r, so the packet is whitened for channel %s and sent on %s MHz" % (
                            val, cur, 37 + cur, ch, idx, 37 + idx if isinstance(idx, int) else "?", 2400 + ch if isinstance(ch, int) else "?"))
                if val not in freq:
                    agg.add("R18.4", f_ch, "frequencies that are not BLE advertising channels are ignored", ch == freq[cur] and not regwrites(out), "channel = %d tunes to %r" % (val, ch))
                ok, det = b.shadow_matches(out.state, 5)
                agg.add("R18.4", f_ch, "the channel shadow follows the register", ok, det)
    for cur in (0, 1, 2):
        n += 1
        st = b.fresh(fields={b.freq_index_field(): Const(cur)})
        for out in b.run(f_wh, [Bytes([(("param", "data"), Const(8))], "bytes")], st):
            wh = [e for e in out.trace if e.kind == "whitened"]
            coef = const_of(norm(wh[0].data[1][0])) if wh and wh[0].data[1] else None
            agg.add("R18.4", f_wh, "the whitening seed is (BLE channel) | 0x40 with channel = 37 + index", coef == ((TB.FIRST_ADV_CHANNEL + cur) | TB.WHITEN_SEED_BIT), "index %d: seed %r" % (cur, coef))
    # leaving and re-entering a `with` block keeps the pairing: the index names the frequency the channel *shadow* holds, which is what
    # __enter__ tunes the radio to again
    for meth in ("__exit__", "__enter__"):
        hit = b.cls.lookup(meth)
        if hit is None or hit[0] != "method":
            continue
        f_cm = hit[1]
        for cur in (0, 1, 2):
            n += 1
            st = b.fresh({5: freq[cur]}, fields={b.freq_index_field(): Const(cur)})
            for out in b.run(f_cm, [Const(None)] * 3 if meth == "__exit__" else [], st):
                if out.kind != "return":
                    continue
                idx = const_of(norm(b.obj(out.state).fields.get(b.freq_index_field())))
                sh = b.shadow_value(out.state, 5)
                shc = const_of(norm(sh)) if sh is not None and hasattr(sh, "key") else None
                agg.add("R18.4", f_cm, "across `with` blocks the whitening index names the frequency the channel shadow holds", idx in (0, 1, 2) and shc == freq[idx],
                        "%s on BLE channel %d: index becomes %r while the channel shadow holds %r - the next block is tuned to %s MHz but whitens for channel %s" % (
                            meth, 37 + cur, idx, shc, 2400 + shc if isinstance(shc, int) else "?", 37 + idx if isinstance(idx, int) else "?"))
    # ... and so does *reading* the channel between two blocks, while another object has the shared radio tuned elsewhere: whatever the
    # getter does to the channel shadow, the whitening index still names the frequency that shadow holds (the next __enter__ tunes to it)
    f_get = P.method(b.cls, "channel", "get")
    for cur in (0, 1, 2):
        for foreign in (76, freq[(cur + 1) % 3]):
            n += 1
            st = b.fresh({5: freq[cur]}, fields={b.freq_index_field(): Const(cur)})
            st.extra["regs"][5] = Const(foreign)          # the register only: another user of the radio retuned it
            for out in b.run(f_get, [], st):
                if out.kind != "return":
                    continue
                idx = const_of(norm(b.obj(out.state).fields.get(b.freq_index_field())))
                sh = b.shadow_value(out.state, 5)
                shc = const_of(norm(sh)) if sh is not None and hasattr(sh, "key") else None
                agg.add("R18.4", f_get, "reading `channel` while another object has retuned the radio keeps whitening index and channel shadow paired", idx in (0, 1, 2) and shc == freq[idx],
                        "ble.channel read on BLE channel %d while RF_CH holds %d: the channel shadow becomes %r with the index still %r - the next `with ble:` is tuned to %s MHz but whitens for channel %s" % (
                            37 + cur, foreign, shc, idx, 2400 + shc if isinstance(shc, int) else "?", 37 + idx if isinstance(idx, int) else "?"))
    # the constructor establishes the pairing
    for out in [o for o in b.init_outs if o.kind == "return"][:2]:
        idx = const_of(norm(b.obj(out.state).fields.get(b.freq_index_field())))
        ch = const_of(norm(out.state.extra["regs"].get(5)))
        agg.add("R18.4", b.cls.lookup("__init__")[1], "a new FakeBLE object is tuned to the channel its whitening index names", idx in (0, 1, 2) and ch == freq[idx], "index %r RF_CH %r" % (idx, ch))
    return n


def constants(ck, agg, b):
    P = ck.prog
    f = P.func("fake_ble", "crc24_ble")
    d = {a.arg: dv for a, dv in zip(f.node.args.args[-len(f.node.args.defaults):], f.node.args.defaults)}
    vals = {}
    for k, v in d.items():
        try:
            vals[k] = P.fold_const(f.module, v)
        except ValueError:
            vals[k] = None
    agg.add("R18.5", f, "BLE CRC-24 polynomial 0x65B and advertising init value 0x555555", vals.get("deg_poly") == TB.CRC_POLY and vals.get("init_val") == TB.CRC_INIT, "defaults %r" % (vals,))
    # name setter: what is stored is what is counted and emitted - bytes.  The length algebra (R18.1) is in bytes; a str kept as given is
    # counted in characters and emitted in (more) UTF-8 bytes
    from ..interp_expr import ty_of
    f_name = P.method(b.cls, "name", "set")
    st = b.fresh(fields={"_show_dbm": Const(False)})
    for out in b.run(f_name, [Sym("n", "str", len=Sym(("len", "n"), "int", rng=(0, 8)))], st):
        if out.kind != "return":
            continue
        v = b.obj(out.state).fields.get("_ble_name")
        agg.add("R18.6", f_name, "a str name is stored encoded (bytes): the packet's length arithmetic counts bytes", ty_of(v) in ("bytes", "bytearray", "byteslike"),
                "name = <str> stores %r (%s): len() of it counts characters, the advertisement carries its UTF-8 bytes" % (v, ty_of(v)))
    # show_pa_level setter: any truthy value switches the 3-byte TX-power structure on, any falsy value off - the packet assembled after
    # `show_pa_level = x` has the length byte and the total length of exactly that layout (a flag kept as given - 2 instead of True - is
    # multiplied into the size arithmetic: the length byte then points past the CRC and every receiver drops the packet)
    f_show = P.method(b.cls, "show_pa_level", "set")
    f_mk = P.method(b.cls, "_make_payload")
    for arg in (Const(True), Const(1), Const(2), Const(0x80), Const(False), Const(0)):
        st, pl = scenario(b, False, False)
        for o1 in b.run(f_show, [arg], st):
            if o1.kind != "return":
                agg.add("R18.6", f_show, "show_pa_level accepts any truth value when there is room", False, "show_pa_level = %r raises %s" % (arg.v, o1.value.exc))
                continue
            want = expected_total(bool(arg.v), False)
            for o2 in b.run(f_mk, [pl], o1.state):
                if o2.kind != "return" or not isinstance(o2.value, Bytes):
                    continue
                cl = cells(o2.value.parts)
                ln = as_lin(norm(o2.value.length()))
                d = lin_add(ln, want, -1) if ln is not None else None
                pls = as_lin(norm(cl[1][1])) if len(cl) > 1 and isinstance(cl[1], tuple) and cl[1][0] == "v" else None
                dd = lin_add(pls, lin_add(want, Lin({}, TB.HEADER_LEN + TB.CRC_LEN), -1), -1) if pls is not None else None
                agg.add("R18.6", f_show, "after `show_pa_level = x` the packet has the layout of bool(x): total length and length byte agree with it",
                        d is not None and not d.terms and d.c == 0 and dd is not None and not dd.terms and dd.c == 0,
                        "show_pa_level = %r: assembled length %r (layout %r), length byte %r (expected layout - 5)" % (arg.v, ln, want, cl[1][1] if len(cl) > 1 and isinstance(cl[1], tuple) else None))
    # mac setter: at least 6 bytes
    f_mac = P.method(b.cls, "mac", "set")
    n = 1
    for arg, label in ((Const(0x112233445566), "int"), (Const(0), "int 0"), (Const(1), "int 1"), (Bytes([(("param", "address"), Const(3))], "bytes"), "3 bytes"), (Bytes([(("param", "address"), Const(6))], "bytes"), "6 bytes"), (Const(None), "None")):
        n += 1
        st = b.fresh(fields={"_mac": Bytes([(("sym", "oldmac"), Const(6))], "bytes")})
        for out in b.run(f_mac, [arg], st):
            if out.kind != "return":
                agg.add("R18.6", f_mac, "mac setter does not raise", False, "%s raises %s" % (label, out.value.exc))
                continue
            m = b.obj(out.state).fields.get("_mac")
            ln = const_of(norm(m.length())) if isinstance(m, Bytes) else None
            agg.add("R18.6", f_mac, "the MAC is always 6 bytes after assignment", ln == TB.MAC_LEN, "mac = %s gives %r bytes" % (label, ln))
            # "the PDU contains the configured MAC": what is stored begins with the value that was given - every int (0 included) as its
            # 6-byte little-endian image, bytes as they are; only the missing tail of a short address (and None) is drawn at random
            first = m.parts[0][0] if isinstance(m, Bytes) and m.parts else None
            if label.startswith("int"):
                okv = first is not None and first[0] == "to_bytes" and first[1] == arg.v and "little" in first[2] and len(m.parts) == 1
            elif label.endswith("bytes"):
                okv = first == ("param", "address")
            else:
                okv = first is not None and first[0] == "random"
            agg.add("R18.6", f_mac, "the stored MAC is the configured one (int: 6-byte little-endian image, bytes: as given, None: random)", okv,
                    "mac = %s (%r) stores %r" % (label, getattr(arg, "v", "<bytes>"), m))
    return n


def _is_reversal(v, name, shift=0, st=None):
    """v == bitreverse8(symbol `name`) << shift, read off the per-bit provenance (all 256 values at once); on a path that has decided
    some bits of the symbol (an implementation that branches on each bit) those bits are expected as the constants the path learnt"""
    from ..absval import as_bitv, NBITS
    bv = as_bitv(norm(v))
    if bv is None or bv.hi != 0:
        return False
    facts = (st.extra.get("bitfacts", {}) if st is not None else {})
    for i, t in enumerate(bv.bits):
        if shift <= i < shift + 8:
            src = (name, 7 - (i - shift))
            want = facts[src] if src in facts else ("s", src, False)
        else:
            want = 0
        if t != want:
            return False
    return True


def _decided(st, trace, name):
    """the value a path has decided for the symbol `name` through a table lookup (`name == k` learnt), or None"""
    facts = [e for e in trace if e.kind == "cond" and isinstance(e.data[1], tuple) and len(e.data[1]) == 2 and e.data[0] is True and isinstance(norm(e.data[1][0]), Sym) and norm(e.data[1][0]).name == name]
    if facts:
        return const_of(norm(facts[-1].data[1][1]))
    rng_ = st.extra.get("symrng", {}).get(name)
    return rng_[0] if rng_ and rng_[0] is not None and rng_[0] == rng_[1] else None


def _reversal_ok(v, name, st, trace):
    if _is_reversal(v, name, 0, st):
        return True
    c_ = const_of(norm(v)) if hasattr(v, "key") else None
    k_ = _decided(st, trace, name)
    return isinstance(c_, int) and isinstance(k_, int) and c_ == _rev8(k_)


def _rev8(k):
    return int("{:08b}".format(k & 0xFF)[::-1], 2)


def bit_order(ck, agg):
    """R18.7: BLE sends every byte LSB first while the nRF24 shifts MSB first - swap_bits() is the exact reversal of the 8 bits of a byte for
    all 256 values, reverse_bits() applies it to every byte, and every data byte enters the CRC register bit-reversed in the top byte.
    swap_bits' loop runs on a byte whose bits carry provenance (no sample values); a byte that is looked up in a module-level table is
    followed through the table (the table is built by executing its defining statements abstractly), one path per table entry."""
    from ..engine import Interp
    from ..interp import State, Model, Frame
    from ..model import Ctx
    P = ck.prog
    n = 0
    f_sw = P.func("fake_ble", "swap_bits")
    it = Interp(P, Model(), Limits(max_paths=4000, concrete_loop=300))
    it.big_tables = True
    st = State()
    st.extra["symrng"] = {"byte": (0, 255)}
    outs = it.run(f_sw, None, None, [Sym("byte", "int", rng=(0, 255))], st=st)
    ck.absorb(it)
    ck.analysed(f_sw)
    for out in outs:
        n += 1
        agg.add("R18.7", f_sw, "swap_bits(b) is b with its 8 bits in reverse order, for every byte value", out.kind == "return" and _reversal_ok(out.value, "byte", out.state, out.trace),
                "swap_bits(byte) returns %r" % (out.value,))
    # reverse_bits(): element-wise.  swap_bits() is proved above, so here it is a summary ("the reversal of its argument"); an
    # implementation that does not call it is run on a single byte instead
    f_rb = P.func("fake_ble", "reverse_bits")

    class M(Model):
        def on_call(self, it, st, fr, node, target, args, kwargs):
            if target.func is f_sw and len(args) == 1 and isinstance(norm(args[0]), Sym):
                return [(st, Sym(("rev", norm(args[0]).name), "int", rng=(0, 255)))]
            return None
    calls_sw = any(isinstance(x, ast.Name) and x.id == f_sw.name for x in ast.walk(f_rb.node))
    nb = 3 if calls_sw else 1
    it = Interp(P, M(), Limits(max_paths=4000, concrete_loop=300))
    it.big_tables = True
    st = State()
    items = [Sym(("in", j), "int", rng=(0, 255)) for j in range(nb)]
    st.extra["symrng"] = {("in", j): (0, 255) for j in range(nb)}
    buf = st.alloc("bytearray", items=list(items), label="buf")
    for out in it.run(f_rb, None, None, [buf], st=st):
        n += 1
        res = it.seq_items(out.value, out.state) if out.kind == "return" else None
        ok = res is not None and len(res) == nb and all(
            (isinstance(norm(res[j]), Sym) and norm(res[j]).name == ("rev", ("in", j))) or _reversal_ok(res[j], ("in", j), out.state, out.trace) for j in range(nb))
        agg.add("R18.7", f_rb, "reverse_bits() reverses the bit order of every byte, in place order", ok, "reverse_bits(%d bytes) gives %r" % (nb, res if res is not None else out.value,))
        src = out.state.heap[buf.ident].items
        agg.add("R18.7", f_rb, "reverse_bits() leaves its argument alone", [norm(x).key() for x in src] == [x.key() for x in items], "argument becomes %r" % (src,))
    ck.absorb(it)
    ck.analysed(f_rb)
    # how a data byte enters the CRC
    f_crc = P.func("fake_ble", "crc24_ble")
    loops = [x for x in ast.walk(f_crc.node) if isinstance(x, ast.For) and isinstance(x.target, ast.Name) and isinstance(x.iter, ast.Name) and x.iter.id == f_crc.node.args.args[0].arg]
    agg.add("R18.7", f_crc, "crc24_ble() takes the data bytes one by one, in order (anchor)", len(loops) == 1, "%d loops over the data argument" % len(loops))
    if len(loops) == 1:
        bname = loops[0].target.id
        uses = [s_ for s_ in loops[0].body if any(isinstance(x, ast.Name) and x.id == bname and isinstance(x.ctx, ast.Load) for x in ast.walk(s_))]
        agg.add("R18.7", f_crc, "each data byte is used once per round", len(uses) == 1 and isinstance(uses[0], (ast.AugAssign, ast.Assign)), "%d statements read the data byte" % len(uses))
        if len(uses) == 1 and isinstance(uses[0], ast.AugAssign) and isinstance(uses[0].op, ast.BitXor):
            it = Interp(P, Model(), Limits(max_paths=4000, concrete_loop=300))
            it.big_tables = True
            st = State()
            st.extra["symrng"] = {"byte": (0, 255)}
            tmp = Frame(f_crc, None, Ctx(P, f_crc, None), st, {}, 0, None)
            st.envs[tmp.fid][bname] = Sym("byte", "int", rng=(0, 255))
            it.stack = []
            # the analyser's bit vectors are 16 bits wide: `X << 16` is split into X (checked bit by bit) and the shift amount
            expr, shift = uses[0].value, 0
            if isinstance(expr, ast.BinOp) and isinstance(expr.op, ast.LShift):
                try:
                    shift = P.fold_const(f_crc.module, expr.right)
                    expr = expr.left
                except ValueError:
                    shift = 0
            agg.add("R18.7", f_crc, "the data byte is aligned to the top byte of the 24-bit CRC register (<< 16)", shift == 16, "shifted by %r" % (shift,), uses[0])
            vals = it.ev(expr, st, tmp)
            from ..interp_stmt import ForkIndex
            flat = []
            for s_, v_ in vals:
                flat.append((s_, v_))
            bad = []
            for s_, v_ in flat:
                n += 1
                if _is_reversal(v_, "byte", 0, s_):
                    continue
                c_ = const_of(norm(v_)) if hasattr(v_, "key") else None
                rng_ = s_.extra.get("symrng", {}).get("byte")
                facts = [e for e in s_.trace if e.kind == "cond" and isinstance(e.data[1], tuple) and e.data[0] is True and isinstance(norm(e.data[1][0]), Sym) and norm(e.data[1][0]).name == "byte"]
                k_ = const_of(norm(facts[-1].data[1][1])) if facts else (rng_[0] if rng_ and rng_[0] == rng_[1] else None)
                if isinstance(c_, int) and isinstance(k_, int) and c_ == _rev8(k_):
                    continue
                bad.append((k_, v_))
            ck.absorb(it)
            agg.add("R18.7", f_crc, "every data byte enters the CRC register bit-reversed (LSB first), in the top byte of the 24 bits", not bad and bool(flat),
                    "crc ^= %s: for data byte %s the value is %r, the reversed byte << 16 is expected (%d case(s))" % (
                        ast.unparse(uses[0].value), "%s" % (bad[0][0],) if bad else "?", bad[0][1] if bad else None, len(bad)), uses[0])
    return n


def run(ck):
    ck.explanation = (
        "Static analysis of fake_ble.FakeBLE with the numerical helpers (crc24_ble, whitener, reverse_bits) summarised as length-preserving / "
        "3-byte functions. R18.1: _make_payload is interpreted with symbolic name and payload lengths for the four option combinations: the "
        "linear length form of the assembled value equals 2+6+3+3*[pa]+(N+2)*[name]+P+3, the raise region is exactly total > 32 (ValueError, before "
        "anything reaches the radio), and len_available() == 32 - total identically. R18.2: concatenation order header(0x42, total-5), MAC, flags "
        "AD 02 01 05, TX-power AD 0x0A + '>b', name AD 0x08 with length N+1, caller's chunks verbatim and adjacent, CRC over exactly what precedes "
        "it. R18.3: advertise() sends exactly reverse_bits(whiten(packet)) once. R18.4: paired-update rule on (_curr_freq, RF_CH): after "
        "hop_channel() and after every `channel = x` from every index the tuned frequency is BLE_FREQ[index]; seed = (37+index)|0x40; the "
        "constructor establishes it. R18.5/R18.6: CRC constants, MAC always 6 bytes.")
    ck.not_decided = ["numerical correctness of crc24_ble, whitener and swap_bits (loops over data), hence 'de-whitens to ...' as a whole"]
    agg = Agg(ck)
    b = ble.Ble(ck)
    n1 = length_algebra(ck, agg, b)
    n2 = transforms(ck, agg, b)
    n3 = channel_pairing(ck, agg, b)
    n4 = constants(ck, agg, b)
    n5 = bit_order(ck, agg)
    # "advertise() loads a radio payload that - read as the on-air bit stream ...": what goes on air first is what is first in the TX FIFO;
    # a payload the radio's previous user failed to deliver is flushed by send() on seeing MAX_RT (R02.4), which neither `with ble:` nor
    # the mode / pipe functions may clear on the way (R03.8, shared with C02 / C03 / C08)
    from . import c08, link
    c08.events_kept(b, agg)
    link.send_prologue(b, agg)
    agg.flush()
    ck.floor("R18.7", "bit-order evaluations", n5, 3)
    ck.floor("R18.1", "option combinations", n1, 4)
    ck.floor("R18.3", "advertise scenarios", n2, 3)
    ck.floor("R18.4", "channel scenarios", n3, 24)
