"""C18 - every advertisement is a well-formed BLE packet for the channel it is sent on (structural clauses)."""
import ast
from ..absval import Const, Sym, Bytes, Seq, Lin, norm, const_of, as_lin, lin_add
from ..interp import Ref, Limits
from ..model import AnalysisError, iter_own_nodes
from ..tables import ble as TB
from .c03 import Agg, value_matches
from .radio import regwrites
from . import ble


def sym_bytes(name, ln):
    return Bytes([(("sym", name), ln)], "bytes")


def scenario(b, show_dbm, named):
    fields = {"_show_dbm": Const(show_dbm), "_mac": sym_bytes("mac", Const(6)),
              "_ble_name": sym_bytes("name", Sym("N", "int", rng=(0, None))) if named else Const(None)}
    st = b.fresh(fields=fields)
    rng = dict(st.extra.get("symrng", {}))
    rng["N"] = (0, None)
    rng[("len", "payload")] = (0, None)
    st.extra["symrng"] = rng
    pl = Bytes([(("param", "payload"), Sym(("len", "payload"), "int", rng=(0, None)))], "bytes", origin=("param", "payload"))
    return st, pl


def expected_total(show_dbm, named):
    """2 header + 6 MAC + 3 flags + 3 TX-power AD + (N + 2) name AD + payload + 3 CRC  (Bluetooth Core: AdvA(6) + AD structures)"""
    t = {("len", "payload"): 1}
    c = TB.HEADER_LEN + TB.MAC_LEN + TB.FLAGS_AD_LEN + TB.CRC_LEN + (TB.TXPOWER_AD_LEN if show_dbm else 0)
    if named:
        t["N"] = 1
        c += 2
    return Lin(t, c)


def length_algebra(ck, agg, b):
    P = ck.prog
    f_mk = P.method(b.cls, "_make_payload")
    f_av = P.method(b.cls, "len_available")
    n = 0
    for show_dbm in (True, False):
        for named in (True, False):
            n += 1
            label = "show_pa_level=%r, name %s" % (show_dbm, "set" if named else "None")
            st, pl = scenario(b, show_dbm, named)
            outs = b.run(f_mk, [pl], st)
            want = expected_total(show_dbm, named)
            kinds = set()
            for out in outs:
                it = b.it0
                if out.kind == "raise":
                    kinds.add("raise")
                    agg.add("R18.1", f_mk, "an oversize packet is refused with ValueError", out.value.exc == "ValueError", "%s: raises %s" % (label, out.value.exc), out.value.node)
                    # region: exactly when the packet would exceed 32 bytes
                    sgn = it.lin_sign(lin_add(want, Lin({}, TB.RADIO_PAYLOAD), -1), out.state)
                    agg.add("R18.1", f_mk, "ValueError exactly when the packet would not fit in 32 bytes", sgn == ">0", "%s: raise region has total - 32 %s" % (label, sgn))
                    agg.add("R18.1", f_mk, "nothing reaches the radio when the packet is refused", not [e for e in out.trace if e.kind in ("cmd", "cmdwriten", "regwrite", "radio-send")], label)
                    continue
                kinds.add("ok")
                v = out.value
                ln = as_lin(norm(v.length())) if isinstance(v, Bytes) else None
                d = lin_add(ln, want, -1) if ln is not None else None
                agg.add("R18.1", f_mk, "assembled length = 2 + 6 + 3 + 3*[pa level] + (len(name)+2)*[name] + len(payload) + 3", d is not None and not d.terms and d.c == 0,
                        "%s: assembled length %r, BLE layout gives %r" % (label, ln, want))
                sgn = it.lin_sign(lin_add(Lin({}, TB.RADIO_PAYLOAD), want, -1), out.state)
                agg.add("R18.1", f_mk, "an accepted packet fits in the radio's 32-byte payload", sgn in (">0", ">=0", "==0"), "%s: accepted although 32 - total is %s" % (label, sgn))
                parts = v.parts if isinstance(v, Bytes) else []
                # header: [0x42, pl_size] with pl_size = total - header(2) - crc(3)
                hd = parts[0][0] if parts else None
                okh = hd is not None and hd[0] == "items" and len(hd[2]) == 2 and const_of(norm(hd[2][0])) == TB.PDU_TYPE
                agg.add("R18.2", f_mk, "PDU header byte 0 is 0x42 (ADV_NONCONN_IND, TxAdd random)", okh, "%s: header %r" % (label, hd[2] if hd else None))
                if okh:
                    pls = as_lin(norm(hd[2][1]))
                    dd = lin_add(pls, lin_add(want, Lin({}, TB.HEADER_LEN + TB.CRC_LEN), -1), -1) if pls is not None else None
                    agg.add("R18.2", f_mk, "the length byte counts everything between header and CRC", dd is not None and not dd.terms and dd.c == 0, "%s: length byte %r, expected total - 5" % (label, hd[2][1]))
                # layout order
                tags = [p[0] for p in parts]
                seq = []
                for t in tags:
                    if t[0] == "sym":
                        seq.append(t[1])
                    elif t[0] == "param":
                        seq.append("payload")
                    elif t[0] == "crc24":
                        seq.append("crc")
                    elif t[0] == "pack":
                        seq.append("pack" + t[1])
                    elif t[0] == "const":
                        if t[1]:
                            seq.append("const:" + t[1].hex())
                    elif t[0] == "items":
                        seq.append("items:" + ",".join(str(const_of(norm(x))) if const_of(norm(x)) is not None else "?" for x in t[2]))
                want_seq = ["items:66,?", "mac", "items:2,1", "const:05"]
                if show_dbm:
                    want_seq += ["items:2,10", "pack>b"]
                if named:
                    want_seq += ["items:?,8", "name"]
                want_seq += ["payload", "crc"]
                agg.add("R18.2", f_mk, "field order: header, MAC, flags AD (02 01 05), [TX power AD 0x0A], [name AD 0x08], caller's chunks, CRC", seq == want_seq, "%s: layout %r" % (label, seq))
                crcs = [e for e in out.trace if e.kind == "crc"]
                if crcs and isinstance(crcs[0].data[0], Bytes):
                    covered = [p[0] for p in crcs[0].data[0].parts]
                    agg.add("R18.2", f_mk, "the CRC covers everything before it and nothing else", covered == tags[:-1] and len(crcs) == 1, "%s: CRC input has %d parts, packet has %d before the CRC" % (label, len(covered), len(tags) - 1))
                    agg.add("R18.5", f_mk, "the CRC is computed with the documented defaults (no overriding arguments)", not crcs[0].data[1] and not crcs[0].data[2], "crc24_ble called with %r %r" % (crcs[0].data[1], crcs[0].data[2]))
                else:
                    agg.add("R18.2", f_mk, "the packet ends with crc24_ble of its content", False, "%s: no CRC computation" % label)
                if named:
                    nm = [t for t in tags if t[0] == "items" and len(t[2]) == 2 and const_of(norm(t[2][1])) == TB.AD_SHORT_NAME]
                    l0 = as_lin(norm(nm[0][2][0])) if nm else None
                    agg.add("R18.2", f_mk, "the name AD's length byte is len(name) + 1", l0 is not None and l0.terms == {"N": 1} and l0.c == 1, "%s: name AD length %r" % (label, nm[0][2][0] if nm else None))
            agg.add("R18.1", f_mk, "both the fitting and the oversize case exist", kinds == {"ok", "raise"}, "%s: %r" % (label, sorted(kinds)))
            # len_available == 32 - assembled length
            st, pl = scenario(b, show_dbm, named)
            outs = b.run(f_av, [pl], st)
            for out in outs:
                la = as_lin(norm(out.value)) if out.kind == "return" else None
                d = lin_add(lin_add(Lin({}, TB.RADIO_PAYLOAD), want, -1), la, -1) if la is not None else None
                agg.add("R18.1", f_av, "len_available(chunks) == 32 - length of the packet those chunks would make", d is not None and not d.terms and d.c == 0,
                        "%s: len_available is %r, 32 - total is %r" % (label, out.value, lin_add(Lin({}, TB.RADIO_PAYLOAD), want, -1)))
    return n


def transforms(ck, agg, b):
    """R18.3: CRC'd packet -> whitened -> bit-reversed -> RF24.send, exactly once; caller's chunk verbatim"""
    P = ck.prog
    f = P.method(b.cls, "advertise")
    rf = P.cls("rf24", "RF24")
    sends = []

    def rec_send(model, it, st, fr, node, target, args, kwargs):
        it.event(st, fr, "radio-send", node, (args[1], args[2:], dict(kwargs)))
        return [(st, Const(True))]
    b.model.opaque[P.method(rf, "send").qualname] = rec_send
    n = 0
    try:
        for mode in ("bytes", "list", "list of bytearrays", "tuple of bytearrays", "empty"):
            n += 1
            st, pl = scenario(b, False, False)
            if mode == "bytes":
                arg = Bytes([(("param", "buf"), Const(4))], "bytes", origin=("param", "buf"))
            elif mode == "list":
                arg = st.alloc("list", items=[Bytes([(("param", "c0"), Const(3))], "bytes"), Bytes([(("param", "c1"), Const(4))], "bytes")])
            elif mode.endswith("bytearrays"):
                # what chunk() hands out: mutable objects that the caller keeps and advertises again (docs) - they must come back unchanged
                chunks = [Bytes([(("param", "c0"), Const(3))], "bytearray", origin=("param", "c0")), Bytes([(("param", "c1"), Const(4))], "bytearray", origin=("param", "c1"))]
                arg = st.alloc("list", items=chunks) if mode.startswith("list") else Seq(chunks, "tuple")
            else:
                arg = Bytes([], "bytes")
            outs = b.run(f, [arg], st)
            for out in outs:
                if out.kind != "return":
                    agg.add("R18.3", f, "advertise() of a small payload does not raise", False, "%s raises %s" % (mode, out.value.exc))
                    continue
                mut = sorted({str(e.data) for e in out.trace if e.kind == "mutate" and isinstance(e.data, tuple) and e.data[0] == "param"})
                agg.add("R18.2", f, "advertise() leaves the caller's chunks as they are (the same chunks are advertised again and again)", not mut,
                        "%s: advertise() modifies the caller's object(s) %s in place - the next advertise() of the same chunks sends them twice over" % (mode, ", ".join(mut)))
                sd = [e for e in out.trace if e.kind == "radio-send"]
                agg.add("R18.3", f, "exactly one radio payload is sent per advertise()", len(sd) == 1, "%s: %d sends" % (mode, len(sd)))
                if not sd:
                    continue
                v = sd[0].data[0]
                inner, _x = ble.unwrap(v, "reversed")
                inner2, coef = ble.unwrap(inner, "whitened") if inner is not None else (None, None)
                okc = isinstance(inner2, Bytes) and inner2.parts and inner2.parts[-1][0][0] == "crc24"
                agg.add("R18.3", f, "the radio payload is bit-reverse(whiten(packet with CRC)) in that order", okc, "%s: sent value structure %r" % (mode, [p[0][0] for p in v.parts] if isinstance(v, Bytes) else v))
                if okc:
                    tags = [p[0] for p in inner2.parts]
                    if mode == "bytes":
                        okp = any(t == ("param", "buf") for t in tags) and any(t[0] == "items" and len(t[2]) == 2 and const_of(norm(t[2][0])) == 5 and const_of(norm(t[2][1])) == TB.AD_MANUFACTURER for t in tags)
                        agg.add("R18.2", f, "a raw buffer is wrapped as one AD structure [len+1, 0xFF] + the caller's bytes", okp, "parts %r" % ([t[:2] for t in tags],))
                    elif mode != "empty":
                        idx = [i for i, t in enumerate(tags) if t in (("param", "c0"), ("param", "c1"))]
                        agg.add("R18.2", f, "caller's chunks appear verbatim, in order, adjacent", len(idx) == 2 and idx[1] == idx[0] + 1 and tags[idx[0]] == ("param", "c0"), "parts %r" % ([t[:2] for t in tags],))
    finally:
        b.model.opaque.pop(P.method(rf, "send").qualname, None)
    return n


def channel_pairing(ck, agg, b):
    """R18.4: whenever FakeBLE tunes the radio, the whitening index names the same BLE channel"""
    P = ck.prog
    freq = TB.BLE_FREQ
    got = None
    try:
        got = tuple(P.const_value(P.modules["fake_ble"], "BLE_FREQ"))
    except ValueError:
        pass
    agg.add("R18.4", (P.modules["fake_ble"].relpath, "<module>"), "BLE_FREQ maps advertising channels 37, 38, 39 to 2402, 2426, 2480 MHz", got == freq, "BLE_FREQ = %r" % (got,))
    f_hop = P.method(b.cls, "hop_channel")
    f_ch = P.method(b.cls, "channel", "set")
    f_wh = P.method(b.cls, "whiten")
    n = 0
    for cur in (0, 1, 2):
        n += 1
        st = b.fresh({5: freq[cur]}, fields={b.freq_index_field(): Const(cur)})
        for out in b.run(f_hop, [], st):
            if out.kind != "return":
                agg.add("R18.4", f_hop, "hop_channel() does not raise", False, "raises %s" % out.value.exc)
                continue
            idx = const_of(norm(b.obj(out.state).fields.get(b.freq_index_field())))
            ch = const_of(norm(out.state.extra["regs"].get(5)))
            agg.add("R18.4", f_hop, "after hop_channel() RF_CH is the frequency of the whitening channel index", idx in (0, 1, 2) and ch == freq[idx], "index %r, RF_CH %r" % (idx, ch))
            agg.add("R18.4", f_hop, "hop_channel() cycles 37 -> 38 -> 39 -> 37", idx == (cur + 1) % 3, "from index %d to %r" % (cur, idx))
            ok, det = b.shadow_matches(out.state, 5)
            agg.add("R18.4", f_hop, "the channel shadow follows (so `with` restores the same frequency)", ok, det)
    for cur in (0, 1, 2):
        for val in (2, 26, 80, 5, 37, 125):
            n += 1
            st = b.fresh({5: freq[cur]}, fields={b.freq_index_field(): Const(cur)})
            for out in b.run(f_ch, [val], st):
                if out.kind != "return":
                    agg.add("R18.4", f_ch, "channel setter does not raise", False, "raises %s" % out.value.exc)
                    continue
                idx = const_of(norm(b.obj(out.state).fields.get(b.freq_index_field())))
                ch = const_of(norm(out.state.extra["regs"].get(5)))
                agg.add("R18.4", f_ch, "after `channel = x` the whitening channel index still names the frequency the radio is tuned to", idx in (0, 1, 2) and ch == freq[idx],
                        "channel = %d with whitening index %d (BLE channel %d): RF_CH becomes %r but the index stays %r, so the packet is whitened for channel %s and sent on %s MHz" % (
                            val, cur, 37 + cur, ch, idx, 37 + idx if isinstance(idx, int) else "?", 2400 + ch if isinstance(ch, int) else "?"))
                if val not in freq:
                    agg.add("R18.4", f_ch, "frequencies that are not BLE advertising channels are ignored", ch == freq[cur] and not regwrites(out), "channel = %d tunes to %r" % (val, ch))
                ok, det = b.shadow_matches(out.state, 5)
                agg.add("R18.4", f_ch, "the channel shadow follows the register", ok, det)
    for cur in (0, 1, 2):
        n += 1
        st = b.fresh(fields={b.freq_index_field(): Const(cur)})
        for out in b.run(f_wh, [Bytes([(("param", "data"), Const(8))], "bytes")], st):
            wh = [e for e in out.trace if e.kind == "whitened"]
            coef = const_of(norm(wh[0].data[1][0])) if wh and wh[0].data[1] else None
            agg.add("R18.4", f_wh, "the whitening seed is (BLE channel) | 0x40 with channel = 37 + index", coef == ((TB.FIRST_ADV_CHANNEL + cur) | TB.WHITEN_SEED_BIT), "index %d: seed %r" % (cur, coef))
    # the constructor establishes the pairing
    for out in [o for o in b.init_outs if o.kind == "return"][:2]:
        idx = const_of(norm(b.obj(out.state).fields.get(b.freq_index_field())))
        ch = const_of(norm(out.state.extra["regs"].get(5)))
        agg.add("R18.4", b.cls.lookup("__init__")[1], "a new FakeBLE object is tuned to the channel its whitening index names", idx in (0, 1, 2) and ch == freq[idx], "index %r RF_CH %r" % (idx, ch))
    return n


def constants(ck, agg, b):
    P = ck.prog
    f = P.func("fake_ble", "crc24_ble")
    d = {a.arg: dv for a, dv in zip(f.node.args.args[-len(f.node.args.defaults):], f.node.args.defaults)}
    vals = {}
    for k, v in d.items():
        try:
            vals[k] = P.fold_const(f.module, v)
        except ValueError:
            vals[k] = None
    agg.add("R18.5", f, "BLE CRC-24 polynomial 0x65B and advertising init value 0x555555", vals.get("deg_poly") == TB.CRC_POLY and vals.get("init_val") == TB.CRC_INIT, "defaults %r" % (vals,))
    # mac setter: at least 6 bytes
    f_mac = P.method(b.cls, "mac", "set")
    n = 1
    for arg, label in ((Const(0x112233445566), "int"), (Bytes([(("param", "address"), Const(3))], "bytes"), "3 bytes"), (Bytes([(("param", "address"), Const(6))], "bytes"), "6 bytes"), (Const(None), "None")):
        n += 1
        st = b.fresh(fields={"_mac": Bytes([(("sym", "oldmac"), Const(6))], "bytes")})
        for out in b.run(f_mac, [arg], st):
            if out.kind != "return":
                agg.add("R18.6", f_mac, "mac setter does not raise", False, "%s raises %s" % (label, out.value.exc))
                continue
            m = b.obj(out.state).fields.get("_mac")
            ln = const_of(norm(m.length())) if isinstance(m, Bytes) else None
            agg.add("R18.6", f_mac, "the MAC is always 6 bytes after assignment", ln == TB.MAC_LEN, "mac = %s gives %r bytes" % (label, ln))
    return n


def run(ck):
    ck.explanation = (
        "Static analysis of fake_ble.FakeBLE with the numerical helpers (crc24_ble, whitener, reverse_bits) summarised as length-preserving / "
        "3-byte functions. R18.1: _make_payload is interpreted with symbolic name and payload lengths for the four option combinations: the "
        "linear length form of the assembled value equals 2+6+3+3*[pa]+(N+2)*[name]+P+3, the raise region is exactly total > 32 (ValueError, before "
        "anything reaches the radio), and len_available() == 32 - total identically. R18.2: concatenation order header(0x42, total-5), MAC, flags "
        "AD 02 01 05, TX-power AD 0x0A + '>b', name AD 0x08 with length N+1, caller's chunks verbatim and adjacent, CRC over exactly what precedes "
        "it. R18.3: advertise() sends exactly reverse_bits(whiten(packet)) once. R18.4: paired-update rule on (_curr_freq, RF_CH): after "
        "hop_channel() and after every `channel = x` from every index the tuned frequency is BLE_FREQ[index]; seed = (37+index)|0x40; the "
        "constructor establishes it. R18.5/R18.6: CRC constants, MAC always 6 bytes.")
    ck.not_decided = ["numerical correctness of crc24_ble, whitener and swap_bits (loops over data), hence 'de-whitens to ...' as a whole"]
    agg = Agg(ck)
    b = ble.Ble(ck)
    n1 = length_algebra(ck, agg, b)
    n2 = transforms(ck, agg, b)
    n3 = channel_pairing(ck, agg, b)
    n4 = constants(ck, agg, b)
    agg.flush()
    ck.floor("R18.1", "option combinations", n1, 4)
    ck.floor("R18.3", "advertise scenarios", n2, 3)
    ck.floor("R18.4", "channel scenarios", n3, 24)
