"""symbolic objects of the network layer (frames, headers, queues) for the interpreter"""
import ast
from ..absval import as_bitv, Const, Sym, Bytes, Seq, BitV, Lin, norm, const_of
from ..interp import State, Ref, Limits, Model
from ..engine import Interp
from ..model import AnalysisError

HDR_FIELDS = ("from_node", "to_node", "frame_id", "message_type", "reserved")
HDR_RANGES = {"from_node": (0, 65535), "to_node": (0, 65535), "frame_id": (0, 65535), "message_type": (0, 255), "reserved": (0, 255)}


def structs(prog):
    m = "network.structs"
    return {n: prog.cls(m, n) for n in ("RF24NetworkHeader", "RF24NetworkFrame", "FrameQueue", "FrameQueueFrag")}


def set_rng(st, name, rng):
    rngs = dict(st.extra.get("symrng", {}))
    rngs[name] = rng
    st.extra["symrng"] = rngs


def sym_header(st, prog, label, pins=None):
    S = structs(prog)
    h = st.alloc("obj", cls=S["RF24NetworkHeader"], label=label)
    for f in HDR_FIELDS:
        if pins and f in pins:
            v = pins[f] if hasattr(pins[f], "key") else Const(pins[f])
        else:
            nm = label + "." + f
            set_rng(st, nm, HDR_RANGES[f])
            v = Sym(nm, "int", rng=HDR_RANGES[f])
        st.heap[h.ident].fields[f] = v
    return h


def sym_frame(st, prog, label, pins=None, msg=None, msg_len=None):
    """frame object with symbolic header fields; message: symbolic bytes of symbolic (or given) length"""
    S = structs(prog)
    fr = st.alloc("obj", cls=S["RF24NetworkFrame"], label=label)
    st.heap[fr.ident].fields["header"] = sym_header(st, prog, label + ".header", pins)
    if msg is None:
        ln_name = ("len", label + ".message")
        if msg_len is None:
            set_rng(st, ln_name, (0, None))
            ln = Sym(ln_name, "int", rng=(0, None))
        else:
            ln = Const(msg_len)
        msg = Bytes([(("sym", label + ".message"), ln)], "byteslike", origin=("obj", label + ".message"))
    st.heap[fr.ident].fields["message"] = msg
    return fr


def sym_queue(st, prog, clsname, nframes=0, max_size=None, label="queue", cache_pins=None):
    S = structs(prog)
    q = st.alloc("obj", cls=S[clsname], label=label)
    items = [sym_frame(st, prog, "%s[%d]" % (label, k)) for k in range(nframes)]
    lst = st.alloc("list", items=items, label=label + "._queue")
    cell = st.heap[q.ident]
    qf = queue_field(prog)
    cell.fields[qf] = lst
    if max_size is None:
        set_rng(st, label + ".max_queue_size", (0, None))
        cell.fields["max_queue_size"] = Sym(label + ".max_queue_size", "int", rng=(0, None))
    else:
        cell.fields["max_queue_size"] = Const(max_size)
    if clsname == "FrameQueueFrag":
        cf = cache_field(prog)
        cell.fields[cf] = sym_frame(st, prog, "cache", cache_pins)
    return q


def queue_field(prog):
    """the list attribute of FrameQueue (assigned a list literal in __init__)"""
    S = structs(prog)
    init = S["FrameQueue"].methods.get("__init__")
    if init is None:
        raise AnalysisError("FrameQueue.__init__ vanished")
    for n in ast.walk(init.node):
        tgt = val = None
        if isinstance(n, ast.AnnAssign):
            tgt, val = n.target, n.value
        elif isinstance(n, ast.Assign) and len(n.targets) == 1:
            tgt, val = n.targets[0], n.value
        if isinstance(tgt, ast.Attribute) and isinstance(val, ast.List) and not val.elts:
            return tgt.attr
    raise AnalysisError("FrameQueue storage list not found")


def cache_field(prog):
    """the reassembly cache attribute of FrameQueueFrag (assigned a frame in __init__)"""
    S = structs(prog)
    init = S["FrameQueueFrag"].methods.get("__init__")
    if init is None:
        raise AnalysisError("FrameQueueFrag.__init__ vanished")
    for n in ast.walk(init.node):
        if isinstance(n, ast.Assign) and len(n.targets) == 1 and isinstance(n.targets[0], ast.Attribute) and isinstance(n.value, ast.Call) \
                and isinstance(n.value.func, ast.Name) and n.value.func.id == "RF24NetworkFrame":
            return n.targets[0].attr
    raise AnalysisError("FrameQueueFrag cache attribute not found")


def run(ck, func, recv, self_val, args, st, model=None, limits=None, decide=False):
    it = Interp(ck.prog, model or Model(), limits or Limits(max_paths=8000, loop_unroll=2))
    it.decide_results = decide
    outs = it.run(func, recv, self_val, list(args), st=st)
    ck.absorb(it)
    ck.analysed(func)
    return outs, it


def field_of(v):
    """('frame.header', 'from_node') for a value that is the symbolic initial content of a header field, else None"""
    v = norm(v)
    if isinstance(v, Sym) and isinstance(v.name, str) and "." in v.name:
        base, f = v.name.rsplit(".", 1)
        return base, f
    return None


def eq_atoms(out, func=None):
    """[(polarity, fieldpath_a, fieldpath_b, event)] for equality tests between header-field symbols on a path"""
    res = []
    for ev in out.trace:
        if ev.kind not in ("cond", "known") or not isinstance(ev.node, ast.Compare):
            continue
        if func is not None and ev.func is not func:
            continue
        op = ev.node.ops[0]
        if not isinstance(op, (ast.Eq, ast.NotEq)):
            continue
        val = ev.data[1]
        if not isinstance(val, tuple) or len(val) != 2:
            continue
        a, b = field_of(val[0]), field_of(val[1])
        pol = ev.data[0] if isinstance(op, ast.Eq) else (not ev.data[0])
        res.append((pol, a, b, ev, val))
    return res


def find_pack(tag, fmt):
    """locate a ('pack', fmt, args) tag inside slice/concat wrappers"""
    if not isinstance(tag, tuple) or not tag:
        return None
    if tag[0] == "pack":
        return tag if tag[1] == fmt else None
    if tag[0] == "slice":
        return find_pack(tag[1], fmt)
    if tag[0] == "concat":
        for t in tag[1]:
            r = find_pack(t, fmt)
            if r is not None:
                return r
    return None


def resolve_unpacked(v, depth=4):
    """follow struct.unpack(struct.pack(..)) chains back to the packed argument"""
    v = norm(v)
    while depth and isinstance(v, Sym) and v.attrs.get("unpack"):
        fmt, k, buf = v.attrs["unpack"][:3]
        hit = None
        for tag, _ln in getattr(buf, "parts", []):
            hit = find_pack(tag, fmt)
            if hit is not None:
                break
        if hit is None or k >= len(hit[2]):
            return v
        v = norm(hit[2][k])
        depth -= 1
    return v


def base_deps(v):
    """symbol names a value depends on, with per-bit sources folded onto their symbol"""
    from ..interp_expr import deps_of
    out = set()
    for d in deps_of(norm(v)):
        if isinstance(d, tuple) and len(d) == 2 and isinstance(d[0], str) and isinstance(d[1], (int, str)):
            out.add(d[0])
        else:
            out.add(d)
    return out


# --------------------------------------------------------------------------
# network node harness: a symbolic node object on top of the radio invariant
# --------------------------------------------------------------------------
from ..absval import Unknown
from ..interp import Raised
from .radio import Radio
from ..tables import contract as _ct

NODE_CLASSES = [("rf24_network", "RF24NetworkRoutingOnly"), ("rf24_network", "RF24Network"),
                ("rf24_mesh", "RF24MeshNoMaster"), ("rf24_mesh", "RF24Mesh")]

# radio registers of a listening network node (what _begin() establishes): RX mode, powered, EN_AA=0x3E, all pipes open, dynamic payloads
LISTENING = {_ct.CONFIG: 0x0F, _ct.EN_AA: 0x3E, _ct.EN_RXADDR: 0x3F, _ct.DYNPD: 0x3F, _ct.FEATURE: 0x05}


def sum_send(model, it, st, fr, node, target, args, kwargs):
    """summary of RF24.send()/resend(): CE low then (on a loaded payload) high; STATUS refreshed; unknown result.
    The summary's frame condition (only STATUS/FIFOs/CE are touched) is verified by rule R07.0."""
    txn, sv = model.new_status(it, st, fr, args[0], node)
    buf = args[1] if len(args) > 1 else kwargs.get("buf")
    it.event(st, fr, "ce", node, Const(False))
    st.extra["ce"] = Const(False)
    regs = st.extra.get("regs", {})
    it.event(st, fr, "radio-send", node, (target.func.name, buf, dict(kwargs), args[2:], txn,
                                            {"EN_AA": regs.get(1), "TX_ADDR": regs.get(0x10), "CONFIG": regs.get(0), "RX_ADDR_P0": regs.get(0x0A)}))
    it.event(st, fr, "ce", node, Const(True))
    st.extra["ce"] = Const(True)
    k = st.extra.get("nsend", 0) + 1
    st.extra["nsend"] = k
    set_rng(st, ("sendresult", k), (0, 1))
    return [(st, Sym(("sendresult", k), "bool"))]


def sum_tx_standby(model, it, st, fr, node, target, args, kwargs):
    """summary of NetworkMixin._tx_standby(): a clock-bounded loop around RF24.resend() (shape verified by R07.0)"""
    selfv = args[0]
    rf = st.heap[selfv.ident].fields.get("_rf24") if isinstance(selfv, Ref) else None
    return sum_send(model, it, st, fr, node, target, [rf] + list(args[1:]), kwargs)


def sum_read(model, it, st, fr, node, target, args, kwargs):
    """summary of RF24.read(): None, or a payload of 1..32 bytes of unknown content"""
    txn, sv = model.new_status(it, st, fr, args[0], node)
    s2 = st.fork()
    it.budget()
    it.event(st, fr, "radio-read", node, ("none", txn))
    k = s2.extra.get("nread", 0) + 1
    s2.extra["nread"] = k
    ln = ("len", "rx%d" % k)
    set_rng(s2, ln, (1, 32))
    it.event(s2, fr, "radio-read", node, ("payload", txn, k))
    pay = Bytes([(("rx", k), Sym(ln, "int", rng=(1, 32)))], "bytearray")
    return [(st, Const(None)), (s2, pay)]


def sum_available(model, it, st, fr, node, target, args, kwargs):
    txn, sv = model.new_status(it, st, fr, args[0], node)
    return [(st, Sym(st.fresh_name("available"), "bool"))]


def sum_pipe_address(model, it, st, fr, node, target, args, kwargs):
    """summary of NetworkMixin._pipe_address(): a fresh 5-byte address determined by (node address, pipe)"""
    it.event(st, fr, "pipe-address", node, (args[1], args[2]))
    r = Bytes([(("pipeaddr", repr(norm(args[1]).key()), repr(norm(args[2]).key())), Const(5))], "bytearray")
    return [(st, r)]


def sum_valid(model, it, st, fr, node, target, args, kwargs):
    """summary of is_address_valid(): pure predicate"""
    v = norm(args[0])
    c = const_of(v)
    if c is not None or (isinstance(v, Const) and v.v is None):
        return None  # concrete: let the interpreter run it
    k = st.extra.get("nvalid", 0) + 1
    st.extra["nvalid"] = k
    return [(st, Sym(("valid", k, repr(v.key())[:60]), "bool", of=v))]


def sum_enqueue(model, it, st, fr, node, target, args, kwargs):
    """summary of FrameQueue(Frag).enqueue() for radio-state analyses: the queue classes live in network/structs.py, which never
    references the radio; the call only yields a boolean"""
    it.event(st, fr, "enqueue", node, (args[1] if len(args) > 1 else None,))
    k = st.extra.get("nenq", 0) + 1
    st.extra["nenq"] = k
    return [(st, Sym(("enqueued", k), "bool"))]


def radio_merge_key(nn):
    """states that agree on everything a continuation can observe about the radio are explored once"""
    def key(it, func, st, v):
        if nn.merge_funcs != "*" and func.name not in nn.merge_funcs:
            return None
        regs = st.extra.get("regs", {})
        rk = tuple(sorted((r, _canon(x)) for r, x in regs.items() if r != 7))
        ce = repr(st.extra.get("ce"))
        vv = norm(v) if hasattr(v, "key") else v
        if isinstance(vv, Sym) and vv.ty == "bool":
            vk = "bool?"
        else:
            vk = _canon(vv)
        return (func.qualname, rk, ce, vk, _watched(st))
    return key


import re as _re


_CANON = {}
_DIGITS = _re.compile(r"\d+")


def _canon(v):
    hit = _CANON.get(id(v))
    if hit is not None and hit[0] is v:
        return hit[1]
    r = _canon_raw(v)
    if len(_CANON) > 400000:
        _CANON.clear()
    _CANON[id(v)] = (v, r)
    return r


def _canon_raw(v):
    v = norm(v) if hasattr(v, "key") and not isinstance(v, Ref) else v
    if isinstance(v, Ref):
        return "ref:%s" % (v.label or v.kind)
    if isinstance(v, Const):
        return repr(v.v)[:80]
    if hasattr(v, "key"):
        return _DIGITS.sub("#", repr(v.key()))[:200]
    return repr(v)[:50]


def _watched(st):
    """canonical content of the objects a continuation can observe: the node, its frame buffer and header, the radio object"""
    out = []
    for ident, label in sorted(st.extra.get("watch", {}).items(), key=lambda kv: kv[1]):
        cell = st.heap.get(ident)
        if cell is None or cell.fields is None:
            continue
        for fname, fv in sorted(cell.fields.items()):
            if isinstance(fv, Ref):
                out.append((label, fname, "ref:" + (st.extra["watch"].get(fv.ident) or fv.kind)))
            elif isinstance(fv, (Const, Sym, BitV, Lin)):
                out.append((label, fname, _canon(fv)))
    return tuple(out)


def _trace_print(st, kinds):
    """fingerprint of the path's events of the given kinds (what per-path rules read): states that differ in them are never merged"""
    out = []
    for e in st.trace:
        if e.kind in kinds:
            fp = getattr(e, "_fp", None)
            if fp is None:
                fp = (e.kind, _fp_data(e.data))
                try:
                    e._fp = fp
                except AttributeError:
                    pass
            out.append(fp)
    return tuple(out)


def _fp_data(x, depth=0):
    if depth > 4:
        return "..."
    if isinstance(x, dict):
        return tuple(sorted((str(k), _fp_data(v, depth + 1)) for k, v in x.items()))
    if isinstance(x, (list, tuple)):
        return tuple(_fp_data(v, depth + 1) for v in x)
    if hasattr(x, "key") or isinstance(x, Ref):
        return _canon(x)
    return repr(x)[:60]


def radio_loop_key(nn, trace_kinds=()):
    """trace_kinds: event kinds whose per-path sequence the rules of the caller read (e.g. the `_write` summaries)"""
    def key(it, st, fr):
        regs = st.extra.get("regs", {})
        rk = tuple(sorted((r, _canon(x)) for r, x in regs.items() if r != 7))
        rng = st.extra.get("symrng", {})
        # a local that holds a symbol is known by what the path has learnt about it too (a transmission result found True / False)
        nz, zr = st.extra.get("nonzero", ()), st.extra.get("zero", ())

        def learnt(v):
            if not isinstance(v, Sym):
                return None
            k_ = v.key()
            return (rng.get(v.name), True if k_ in nz else (False if k_ in zr else None))
        env = tuple(sorted((k, _canon(v), learnt(v)) for k, v in st.envs[fr.fid].items()))
        return (rk, repr(st.extra.get("ce")), env, _watched(st), _trace_print(st, trace_kinds) if trace_kinds else ())
    return key


class NetNode:
    """a symbolic network/mesh node on a radio that satisfies the listening invariant"""

    def __init__(self, ck, module, clsname, summaries=True):
        self.ck, self.prog = ck, ck.prog
        use_program(ck.prog)
        self.cls = ck.prog.cls(module, clsname)
        self.radio = Radio(ck)
        self.model = self.radio.model
        P = ck.prog
        rf = self.radio.cls
        if summaries:
            self.model.opaque[P.method(rf, "send").qualname] = sum_send
            self.model.opaque[P.method(rf, "resend").qualname] = sum_send
            self.model.opaque[P.method(rf, "read").qualname] = sum_read
            self.model.opaque[P.method(rf, "available").qualname] = sum_available
            mix = P.cls("network.mixins", "NetworkMixin")
            self.model.opaque[P.method(mix, "_pipe_address").qualname] = sum_pipe_address
            self.model.opaque[P.method(mix, "_tx_standby").qualname] = sum_tx_standby
            self.model.opaque[P.func("network.structs", "is_address_valid").qualname] = sum_valid
        self.merge_funcs = set()

    def fresh(self, addr=None, pins=None, fields=None, queue="FrameQueueFrag", frame_pins=None, msg_len=None, own_p0=b"\x01\x02\x03\x04\x05"):
        """state + node Ref.  addr: int (concrete routing attributes are NOT derived: masks stay symbolic unless given in fields)"""
        regs = dict(LISTENING)
        regs.update(pins or {})
        st = self.radio.fresh(regs)
        st.extra["ce"] = Const(True)
        # the node's own pipe-0 address is what the radio remembers as the user's reading address
        p0f = self.radio.user_pipe0_field()
        from .c08 import pin_addr
        pin_addr(self.radio, st, 0x0A, own_p0)
        # _begin() hands the radio a bytearray produced by _pipe_address(): a mutable heap object, so stored references can be seen
        st.heap[self.radio.ref.ident].fields[p0f] = st.alloc("bytearray", items=[Const(b) for b in own_p0], label="own_p0")
        node = st.alloc("obj", cls=self.cls, label="node")
        cell = st.heap[node.ident]
        cell.fields["_rf24"] = self.radio.ref
        ints = {FN("_addr"): (0, 0o7777), "_mask": (0, 0xFFFF), "_mask_inv": (0, 0xFFFF), FN("_net_lvl"): (0, 4), FN("_parent"): (0, 0o7777), "_parent_pipe": (0, 5),
                "tx_timeout": (0, None), "route_timeout": (0, None), "max_message_length": (0, None), FN("_id"): (0, 255)}
        for k, rng in ints.items():
            set_rng(st, "node." + k, rng)
            cell.fields[k] = Sym("node." + k, "int", rng=rng)
        if addr is not None:
            cell.fields[FN("_addr")] = Const(addr)
        for k in (FN("_relay_enabled"), FN("_frag_enabled"), "allow_multicast", "ret_sys_msg", FN("_parenthood"), "_do_dhcp"):
            cell.fields[k] = Sym("node." + k, "bool")
        cell.fields["queue"] = sym_queue(st, self.prog, queue, nframes=0, max_size=None, label="queue")
        cell.fields["frame_buf"] = sym_frame(st, self.prog, "frame_buf", frame_pins, msg_len=msg_len)
        cell.fields["address_suffix"] = st.alloc("bytearray", items=[Const(b) for b in (0xC3, 0x3C, 0x33, 0xCE, 0x3E, 0xE3)], label="suffix")
        cell.fields["address_prefix"] = st.alloc("bytearray", items=[Const(0xCC)], label="prefix")
        cell.fields["block_less_callback"] = Const(None)
        cell.fields["dhcp_dict"] = st.alloc("dict", items=[], opaque=True, label="dhcp_dict")
        for k, v in (fields or {}).items():
            cell.fields[k] = v if hasattr(v, "key") else Const(v)
        fb = cell.fields["frame_buf"]
        st.extra["watch"] = {node.ident: "node", fb.ident: "frame_buf", st.heap[fb.ident].fields["header"].ident: "frame_buf.header",
                             self.radio.ref.ident: "radio"}
        return st, node

    def run(self, func, node, args, st, kwargs=None, limits=None, decide=False):
        it = Interp(self.prog, self.model, limits or Limits(max_paths=60000, loop_unroll=2, depth=14))
        it.decide_results = decide      # a predicate that returns an undecided comparison: one outcome per truth value
        vals = [a if hasattr(a, "key") else Const(a) for a in args]
        outs = it.run(func, self.cls, node, vals, kwargs, st=st)
        self.ck.absorb(it)
        self.ck.analysed(func)
        self.last_it = it
        return outs


def addr_digits(out, name="node_addr"):
    """number of octal digits the path established for a symbolic address `name` (bits carry provenance (name, i)): the largest k such
    that the path took a branch on `(addr >> 3(k-1)) != 0` as true - counted from the truth tests themselves, so it does not matter which
    loop shape or helper performs them.  0 for the all-zero path."""
    best = 0
    for e in out.trace:
        if e.kind not in ("cond", "known") or e.data[0] is not True:
            continue
        v = e.data[1]
        if isinstance(v, tuple):
            # addr.bit_length() == k, decided by the interpreter's fork on the highest set bit: ceil(k / 3) digits
            if len(v) == 2 and isinstance(e.node, ast.Call) and isinstance(e.node.func, ast.Attribute) and e.node.func.attr == "bit_length":
                b = as_bitv(norm(v[0])) if hasattr(v[0], "key") else None
                k = const_of(norm(v[1]))
                if b is not None and isinstance(k, int) and all(t == 0 or (isinstance(t, tuple) and t[0] == "s" and t[1] == (name, i)) for i, t in enumerate(b.bits)):
                    best = max(best, (k + 2) // 3)
            continue
        b = as_bitv(norm(v)) if hasattr(v, "key") else None
        if b is None:
            continue
        t0 = b.bits[0]
        if not (isinstance(t0, tuple) and t0[0] == "s" and isinstance(t0[1], tuple) and t0[1][0] == name and isinstance(t0[1][1], int)):
            continue
        sh = t0[1][1]
        if sh % 3:
            continue
        ok = all((t == 0) or (isinstance(t, tuple) and t[0] == "s" and t[1] == (name, sh + i) and not t[2]) for i, t in enumerate(b.bits))
        if ok:
            best = max(best, sh // 3 + 1)
    return best


def handler_args(f, mtype):
    """arguments for a frame handler: the message type if the handler takes it as a parameter; nothing if it reads the type from the
    frame buffer itself (the scenarios pin frame_buf.header.message_type to the same value either way)"""
    nparams = len(f.node.args.args) - 1
    return [mtype if hasattr(mtype, "key") else Const(mtype)] if nparams >= 1 else []


# ---- private field names are inferred from the public accessors that expose them, so renaming one is not noticed -----------------------
_FIELD_SOURCES = {
    # canonical private name: (module, class, public property whose getter returns / reads it)
    "_addr": ("network.mixins", "NetworkMixin", "node_address"),
    "_net_lvl": ("network.mixins", "NetworkMixin", "multicast_level"),
    "_parent": ("network.mixins", "NetworkMixin", "parent"),
    "_frag_enabled": ("network.mixins", "NetworkMixin", "fragmentation"),
    "_relay_enabled": ("network.mixins", "NetworkMixin", "multicast_relay"),
    "_id": ("rf24_mesh", "RF24MeshNoMaster", "node_id"),
    "_parenthood": ("rf24_mesh", "RF24MeshNoMaster", "allow_children"),
}
_FIELD_CACHE = {}
_CURRENT = [None]


def use_program(prog):
    _CURRENT[0] = prog


def FN(name):
    """actual name of the private field canonically called `name` in the tree under analysis (the canonical name if it cannot be told)"""
    prog = _CURRENT[0]
    if prog is None or name not in _FIELD_SOURCES:
        return name
    key = (id(prog), name)
    if key not in _FIELD_CACHE:
        mod, cls, prop = _FIELD_SOURCES[name]
        actual = name
        try:
            c = prog.cls(mod, cls)
            hit = c.lookup(prop)
            g = hit[1].getter if hit and hit[0] == "prop" else None
            if g is not None:
                loads = []
                for x in ast.walk(g.node):
                    if isinstance(x, ast.Attribute) and isinstance(x.ctx, ast.Load) and isinstance(x.value, ast.Name) and x.value.id == "self":
                        h2 = c.lookup(x.attr)
                        if x.attr.startswith("_") and not x.attr.startswith("__") and not (h2 and h2[0] in ("prop", "method")):
                            loads.append(x.attr)
                uniq = sorted(set(loads))
                if len(uniq) == 1:
                    actual = uniq[0]
        except AnalysisError:
            pass
        _FIELD_CACHE[key] = actual
    return _FIELD_CACHE[key]
