"""symbolic objects of the network layer (frames, headers, queues) for the interpreter"""
import ast
from ..absval import Const, Sym, Bytes, Seq, BitV, Lin, norm, const_of
from ..interp import State, Ref, Limits, Model
from ..engine import Interp
from ..model import AnalysisError

HDR_FIELDS = ("from_node", "to_node", "frame_id", "message_type", "reserved")
HDR_RANGES = {"from_node": (0, 65535), "to_node": (0, 65535), "frame_id": (0, 65535), "message_type": (0, 255), "reserved": (0, 255)}


def structs(prog):
    m = "network.structs"
    return {n: prog.cls(m, n) for n in ("RF24NetworkHeader", "RF24NetworkFrame", "FrameQueue", "FrameQueueFrag")}


def set_rng(st, name, rng):
    rngs = dict(st.extra.get("symrng", {}))
    rngs[name] = rng
    st.extra["symrng"] = rngs


def sym_header(st, prog, label, pins=None):
    S = structs(prog)
    h = st.alloc("obj", cls=S["RF24NetworkHeader"], label=label)
    for f in HDR_FIELDS:
        if pins and f in pins:
            v = pins[f] if hasattr(pins[f], "key") else Const(pins[f])
        else:
            nm = label + "." + f
            set_rng(st, nm, HDR_RANGES[f])
            v = Sym(nm, "int", rng=HDR_RANGES[f])
        st.heap[h.ident].fields[f] = v
    return h


def sym_frame(st, prog, label, pins=None, msg=None, msg_len=None):
    """frame object with symbolic header fields; message: symbolic bytes of symbolic (or given) length"""
    S = structs(prog)
    fr = st.alloc("obj", cls=S["RF24NetworkFrame"], label=label)
    st.heap[fr.ident].fields["header"] = sym_header(st, prog, label + ".header", pins)
    if msg is None:
        ln_name = ("len", label + ".message")
        if msg_len is None:
            set_rng(st, ln_name, (0, None))
            ln = Sym(ln_name, "int", rng=(0, None))
        else:
            ln = Const(msg_len)
        msg = Bytes([(("sym", label + ".message"), ln)], "byteslike", origin=("obj", label + ".message"))
    st.heap[fr.ident].fields["message"] = msg
    return fr


def sym_queue(st, prog, clsname, nframes=0, max_size=None, label="queue", cache_pins=None):
    S = structs(prog)
    q = st.alloc("obj", cls=S[clsname], label=label)
    items = [sym_frame(st, prog, "%s[%d]" % (label, k)) for k in range(nframes)]
    lst = st.alloc("list", items=items, label=label + "._queue")
    cell = st.heap[q.ident]
    qf = queue_field(prog)
    cell.fields[qf] = lst
    if max_size is None:
        set_rng(st, label + ".max_queue_size", (0, None))
        cell.fields["max_queue_size"] = Sym(label + ".max_queue_size", "int", rng=(0, None))
    else:
        cell.fields["max_queue_size"] = Const(max_size)
    if clsname == "FrameQueueFrag":
        cf = cache_field(prog)
        cell.fields[cf] = sym_frame(st, prog, "cache", cache_pins)
    return q


def queue_field(prog):
    """the list attribute of FrameQueue (assigned a list literal in __init__)"""
    S = structs(prog)
    init = S["FrameQueue"].methods.get("__init__")
    if init is None:
        raise AnalysisError("FrameQueue.__init__ vanished")
    for n in ast.walk(init.node):
        tgt = val = None
        if isinstance(n, ast.AnnAssign):
            tgt, val = n.target, n.value
        elif isinstance(n, ast.Assign) and len(n.targets) == 1:
            tgt, val = n.targets[0], n.value
        if isinstance(tgt, ast.Attribute) and isinstance(val, ast.List) and not val.elts:
            return tgt.attr
    raise AnalysisError("FrameQueue storage list not found")


def cache_field(prog):
    """the reassembly cache attribute of FrameQueueFrag (assigned a frame in __init__)"""
    S = structs(prog)
    init = S["FrameQueueFrag"].methods.get("__init__")
    if init is None:
        raise AnalysisError("FrameQueueFrag.__init__ vanished")
    for n in ast.walk(init.node):
        if isinstance(n, ast.Assign) and len(n.targets) == 1 and isinstance(n.targets[0], ast.Attribute) and isinstance(n.value, ast.Call) \
                and isinstance(n.value.func, ast.Name) and n.value.func.id == "RF24NetworkFrame":
            return n.targets[0].attr
    raise AnalysisError("FrameQueueFrag cache attribute not found")


def run(ck, func, recv, self_val, args, st, model=None, limits=None):
    it = Interp(ck.prog, model or Model(), limits or Limits(max_paths=8000, loop_unroll=2))
    outs = it.run(func, recv, self_val, list(args), st=st)
    ck.absorb(it)
    ck.analysed(func)
    return outs, it


def field_of(v):
    """('frame.header', 'from_node') for a value that is the symbolic initial content of a header field, else None"""
    v = norm(v)
    if isinstance(v, Sym) and isinstance(v.name, str) and "." in v.name:
        base, f = v.name.rsplit(".", 1)
        return base, f
    return None


def eq_atoms(out, func=None):
    """[(polarity, fieldpath_a, fieldpath_b, event)] for equality tests between header-field symbols on a path"""
    res = []
    for ev in out.trace:
        if ev.kind not in ("cond", "known") or not isinstance(ev.node, ast.Compare):
            continue
        if func is not None and ev.func is not func:
            continue
        op = ev.node.ops[0]
        if not isinstance(op, (ast.Eq, ast.NotEq)):
            continue
        val = ev.data[1]
        if not isinstance(val, tuple) or len(val) != 2:
            continue
        a, b = field_of(val[0]), field_of(val[1])
        pol = ev.data[0] if isinstance(op, ast.Eq) else (not ev.data[0])
        res.append((pol, a, b, ev, val))
    return res


def find_pack(tag, fmt):
    """locate a ('pack', fmt, args) tag inside slice/concat wrappers"""
    if not isinstance(tag, tuple) or not tag:
        return None
    if tag[0] == "pack":
        return tag if tag[1] == fmt else None
    if tag[0] == "slice":
        return find_pack(tag[1], fmt)
    if tag[0] == "concat":
        for t in tag[1]:
            r = find_pack(t, fmt)
            if r is not None:
                return r
    return None


def resolve_unpacked(v, depth=4):
    """follow struct.unpack(struct.pack(..)) chains back to the packed argument"""
    v = norm(v)
    while depth and isinstance(v, Sym) and v.attrs.get("unpack"):
        fmt, k, buf = v.attrs["unpack"]
        hit = None
        for tag, _ln in getattr(buf, "parts", []):
            hit = find_pack(tag, fmt)
            if hit is not None:
                break
        if hit is None or k >= len(hit[2]):
            return v
        v = norm(hit[2][k])
        depth -= 1
    return v


def base_deps(v):
    """symbol names a value depends on, with per-bit sources folded onto their symbol"""
    from ..interp_expr import deps_of
    out = set()
    for d in deps_of(norm(v)):
        if isinstance(d, tuple) and len(d) == 2 and isinstance(d[0], str) and isinstance(d[1], (int, str)):
            out.add(d[0])
        else:
            out.add(d)
    return out
