"""C09 - `with` restores an object's complete radio configuration.

Given C03's invariant (every shadow equals its register whenever the object's
block is left), the property reduces to: started with *arbitrary* register
contents (another object used the radio), __enter__ leaves every configuration
register equal to the value its shadow stands for.  That is decided by one
abstract run of __enter__ per driver class on a state whose registers are
unconstrained symbols while the shadows hold the invariant's symbols."""
import ast
from ..absval import Const, norm, const_of, Bytes, Seq, BitV, Lin, Sym, Unknown, sym_bits, as_lin, lin_add
from ..interp import Ref, Raised, State, Limits
from ..engine import Interp
from ..effects import Regs, old_reg
from ..tables import regmap, contract
from ..model import AnalysisError, iter_own_nodes
from .radio import Radio, regname, bits8, term_eq, fmt_bits, regwrites
from .c03 import Agg


from ..interp_expr import deps_of


def havoc_regs(radio, st):
    regs = Regs()
    for r in regmap.REGS:
        w = regmap.REGS[r][1]
        if w == 1:
            regs[r] = sym_bits(lambda i, r=r: ("other", r, i), 8)
        else:
            regs[r] = Bytes([(("other", r), Const(w))], "bytearray")
    st.extra["regs"] = regs
    return st


def check_enter(radio, agg, cls, func_enter, self_ref, st, label, who):
    it = Interp(radio.prog, radio.model, Limits(max_paths=2000))
    outs = it.run(func_enter, cls, self_ref, [], st=st)
    radio.ck.absorb(it)
    radio.ck.analysed(func_enter)
    good = [o for o in outs if o.kind == "return"]
    agg.add("R09.1", who, "__enter__ never raises and has a normal path", len(good) >= 1 and len(outs) == len(good), "%s: %d paths, %d normal" % (label, len(outs), len(good)))
    for out in good:
        written = set()
        for ev in out.trace:
            if ev.kind in ("regwrite", "regwriten"):
                r = ev.data[0]
                rc = r if isinstance(r, int) else const_of(norm(r))
                if rc is not None:
                    written.add(rc)
                else:
                    agg.add("R09.1", who, "register address constant in __enter__", False, "%s: %r" % (label, r), ev.node)
        for r in regmap.CONFIG_REGS:
            okr = r in written
            if not okr:
                # a path that skips the write is fine only if it has just read the register and found it equal to the shadow
                for ev in out.trace:
                    if ev.kind == "cond" and isinstance(ev.node, ast.Compare) and isinstance(ev.data[1], tuple) and len(ev.data[1]) == 2 and isinstance(ev.node.ops[0], (ast.Eq, ast.NotEq)):
                        eq = ev.data[0] if isinstance(ev.node.ops[0], ast.Eq) else not ev.data[0]
                        deps = [set(d for d in deps_of(norm(x))) for x in ev.data[1]]
                        cur = [any(isinstance(d, tuple) and len(d) >= 2 and d[0] == "other" and d[1] == r for d in ds) for ds in deps]
                        if eq and any(cur) and not all(cur):
                            okr = True
            agg.add("R09.1", who, "%s is restored on entry (on every path)" % regname(r), okr,
                    "%s: a path through __enter__ does not write %s (and has not found the register equal to the shadow), so another object's setting survives" % (label, regname(r)))
        regs = out.state.extra["regs"]
        for r in regmap.CONFIG_REGS:
            if r not in written:
                continue
            want = radio.inv.extra["regs"][r]
            got = regs.get(r)
            if regmap.REGS[r][1] > 1:
                a, b = radio.bytes_of(out.state, got), radio.bytes_of(radio.inv, want)
                ok = a is not None and a == b
                agg.add("R09.2", who, "%s restored from its own shadow" % regname(r), ok, "%s: register gets %s, shadow stands for %s" % (label, a, b))
                continue
            if r in radio.offsets:
                lg, lw = as_lin(norm(got)), as_lin(norm(want))
                ok = lg is not None and lw is not None and not lin_add(lg, lw, -1).terms and lin_add(lg, lw, -1).c == 0
                agg.add("R09.2", who, "%s restored from its own shadow" % regname(r), ok, "%s: register gets %r, shadow stands for %r" % (label, got, want))
                continue
            gb, wb = bits8(got), bits8(want)
            if r == 0 and wb is not None:
                wb = contract.put(wb, 0x02, 0x02)  # entering powers the radio up
            ok = gb is not None and wb is not None and len(gb) == 8 and all(term_eq(x, y) for x, y in zip(gb, wb))
            agg.add("R09.2", who, "%s restored from its own shadow" % regname(r), ok,
                    "%s: register gets %s, shadow stands for %s" % (label, fmt_bits(gb) if gb else got, fmt_bits(wb) if wb else want))
            okl, det = radio.legal_write(r, got)
            agg.add("R09.2", who, "%s restored with a legal value" % regname(r), okl, "%s: %s" % (label, det))
        for r in regmap.CONFIG_REGS:
            ok, det = radio.shadow_matches(out.state, r)
            agg.add("R09.2", who, "shadow of %s equals the register after entry" % regname(r), ok, "%s: %s" % (label, det))
        ces = [e for e in out.trace if e.kind == "ce"]
        agg.add("R09.3", who, "CE is driven low on entry", bool(ces) and const_of(norm(ces[0].data)) in (0, False) and all(const_of(norm(e.data)) in (0, False) for e in ces),
                "%s: CE writes %r" % (label, [e.data for e in ces]))
        rv = out.value
        agg.add("R09.4", who, "__enter__ returns the object itself", isinstance(rv, Ref) and rv.ident == (self_ref.ident), "%s: returns %r" % (label, rv))
    return good


def check_exit(radio, agg, cls, func_exit, self_ref, st, label, who):
    it = Interp(radio.prog, radio.model, Limits(max_paths=2000))
    outs = it.run(func_exit, cls, self_ref, [Const(None)] * 3, st=st)
    radio.ck.absorb(it)
    radio.ck.analysed(func_exit)
    for out in outs:
        if out.kind != "return":
            agg.add("R09.3", who, "__exit__ never raises", False, "%s raises %s" % (label, out.value.exc))
            continue
        ces = [e for e in out.trace if e.kind == "ce"]
        agg.add("R09.3", who, "CE is low after leaving the block", bool(ces) and const_of(norm(ces[-1].data)) in (0, False), "%s: CE writes %r" % (label, [e.data for e in ces]))
        regs = out.state.extra["regs"]
        got = bits8(regs.get(0))
        want = contract.put(radio.old(0), 0x02, 0)
        agg.add("R09.3", who, "CONFIG: only PWR_UP is cleared on exit", got is not None and all(term_eq(x, y) for x, y in zip(got, want)),
                "%s: CONFIG holds %s, documented %s" % (label, fmt_bits(got) if got else regs.get(0), fmt_bits(want)))
        for r in regmap.CONFIG_REGS:
            if r != 0:
                cur = regs.get(r, radio.inv.extra["regs"][r])
                same = cur is radio.inv.extra["regs"][r] or (hasattr(cur, "key") and cur.key() == radio.inv.extra["regs"][r].key())
                agg.add("R09.3", who, "%s untouched on exit" % regname(r), same, "%s: %s changed to %r" % (label, regname(r), cur))
            ok, det = radio.shadow_matches(out.state, r)
            agg.add("R09.3", who, "shadow of %s equals the register after exit" % regname(r), ok, "%s: %s" % (label, det))
        t = radio.it0.truth(out.value, out.state, None)
        agg.add("R09.3", who, "__exit__ does not swallow exceptions (falsy return)", t is False, "%s: returns %r" % (label, out.value))


def wrappers(ck, radio, agg):
    """every class that holds a driver object (field typed RF24) and defines __enter__/__exit__ must delegate"""
    n = 0
    for cls in ck.prog.all_classes():
        if radio.cls in cls.mro:
            continue
        ft = ck.prog.field_types(cls)
        holder = [a for a, t in ft.items() if radio.cls in t["direct"]]
        if not holder:
            continue
        ent, ext = cls.lookup("__enter__"), cls.lookup("__exit__")
        concrete = cls
        agg.add("R09.4", (cls.module.relpath, cls.name), "class holding a driver object is a context manager", bool(ent and ext),
                "%s holds an RF24 in %s but defines no __enter__/__exit__" % (cls.name, holder))
        if not (ent and ext):
            continue
        n += 1
        st = havoc_regs(radio, radio.fresh())
        obj = st.alloc("obj", cls=concrete, label="node")
        st.heap[obj.ident].fields[holder[0]] = radio.ref
        it = Interp(ck.prog, radio.model, Limits(max_paths=2000))
        outs = it.run(ent[1], concrete, obj, [], st=st)
        ck.absorb(it)
        ck.analysed(ent[1])
        who = ent[1]
        for out in outs:
            if out.kind != "return":
                agg.add("R09.4", who, "wrapper __enter__ does not raise", False, "raises %s" % out.value.exc)
                continue
            written = {const_of(norm(e.data[0])) if not isinstance(e.data[0], int) else e.data[0] for e in out.trace if e.kind in ("regwrite", "regwriten")}
            miss = [regname(r) for r in regmap.CONFIG_REGS if r not in written]
            agg.add("R09.4", who, "wrapper __enter__ delegates to the driver's restore", not miss, "%s.__enter__ leaves %s unrestored" % (cls.name, miss))
            agg.add("R09.4", who, "wrapper __enter__ returns the wrapper", isinstance(out.value, Ref) and out.value.ident == obj.ident, "returns %r" % (out.value,))
        st = radio.fresh()
        obj = st.alloc("obj", cls=concrete, label="node")
        st.heap[obj.ident].fields[holder[0]] = radio.ref
        it = Interp(ck.prog, radio.model, Limits(max_paths=2000))
        outs = it.run(ext[1], concrete, obj, [Const(None)] * 3, st=st)
        ck.absorb(it)
        ck.analysed(ext[1])
        for out in outs:
            if out.kind != "return":
                agg.add("R09.4", ext[1], "wrapper __exit__ does not raise", False, "raises %s" % out.value.exc)
                continue
            ces = [e for e in out.trace if e.kind == "ce"]
            got = bits8(out.state.extra["regs"].get(0))
            want = contract.put(radio.old(0), 0x02, 0)
            agg.add("R09.4", ext[1], "wrapper __exit__ powers the radio down with CE low",
                    bool(ces) and const_of(norm(ces[-1].data)) in (0, False) and got is not None and all(term_eq(x, y) for x, y in zip(got, want)),
                    "CE writes %r, CONFIG %s" % ([e.data for e in ces], fmt_bits(got) if got else None))
            t = it.truth(out.value, out.state, None)
            agg.add("R09.4", ext[1], "wrapper __exit__ does not swallow exceptions", t is False, "returns %r" % (out.value,))
    return n


MUTABLE_NODES = (ast.List, ast.Dict, ast.Set, ast.ListComp, ast.DictComp, ast.SetComp)
TABLE_MUTATORS = ("append", "extend", "insert", "pop", "remove", "clear", "sort", "reverse", "update", "setdefault", "popitem", "add", "discard")


def _is_mutable_expr(val):
    return isinstance(val, MUTABLE_NODES) or (isinstance(val, ast.BinOp) and any(isinstance(x, MUTABLE_NODES) for x in ast.walk(val))) or \
        (isinstance(val, ast.Call) and isinstance(val.func, ast.Name) and val.func.id in ("list", "dict", "set", "bytearray"))


def _writers_of(prog, name, as_attr):
    """functions that store into / mutate / re-bind the shared object called `name` (reached as an attribute `x.name`, or - for module
    globals - as the bare name); reads, lookups and iteration do not count"""
    writers = []

    def base_is(b):
        while isinstance(b, ast.Subscript):
            b = b.value
        if as_attr:
            return isinstance(b, ast.Attribute) and b.attr == name
        return isinstance(b, ast.Name) and b.id == name
    for f in prog.all_funcs():
        declared_global = any(isinstance(x, ast.Global) and name in x.names for x in ast.walk(f.node))
        for node in iter_own_nodes(f.node):
            if isinstance(node, (ast.Assign, ast.AugAssign, ast.AnnAssign, ast.Delete)):
                tgs = node.targets if isinstance(node, (ast.Assign, ast.Delete)) else [node.target]
                for t in tgs:
                    for tt in (t.elts if isinstance(t, (ast.Tuple, ast.List)) else [t]):
                        if isinstance(tt, ast.Subscript) and base_is(tt):
                            writers.append(f.qualname)
                        elif as_attr and isinstance(tt, ast.Attribute) and tt.attr == name and not (isinstance(tt.value, ast.Name) and tt.value.id == "self"):
                            writers.append(f.qualname)        # Class.name = ..  (self.name = .. creates an instance attribute instead)
                        elif (not as_attr) and isinstance(tt, ast.Name) and tt.id == name and declared_global:
                            writers.append(f.qualname)
            if isinstance(node, ast.Call) and isinstance(node.func, ast.Attribute) and node.func.attr in TABLE_MUTATORS and base_is(node.func.value):
                writers.append(f.qualname)
    return sorted(set(writers))


def no_leak(ck, agg, radios):
    """R09.5 - configuration lives in per-instance attributes only: an object shared by all instances (class attribute, module global) may
    be a lookup table, but nothing in the package may write to it"""
    n = 0
    for cls in ck.prog.all_classes():
        for name, val in cls.class_attrs.items():
            n += 1
            if val is None or not _is_mutable_expr(val):
                agg.add("R09.5", (cls.module.relpath, cls.name), "class attribute %s is not shared mutable state" % name, True, "")
                continue
            writers = _writers_of(ck.prog, name, True)
            agg.add("R09.5", (cls.module.relpath, cls.name), "class attribute %s is not shared mutable state" % name, not writers,
                    "class-level mutable object %s.%s is shared by all instances and written by %s" % (cls.name, name, writers))
    for mod in ck.prog.modules.values():
        for node in mod.tree.body:
            tgts, val = [], None
            if isinstance(node, ast.Assign):
                tgts, val = node.targets, node.value
            elif isinstance(node, ast.AnnAssign) and node.value is not None:
                tgts, val = [node.target], node.value
            if val is None or not _is_mutable_expr(val):
                continue
            for t in tgts:
                if isinstance(t, ast.Name):
                    n += 1
                    writers = _writers_of(ck.prog, t.id, False)
                    agg.add("R09.5", (mod.relpath, "<module>"), "module global %s is not mutable driver state" % t.id, not writers,
                            "module-level mutable object %s is written by %s" % (t.id, writers))
    # every shadow container is allocated inside the constructor (distinct per object, distinct per register)
    for radio in radios:
        cell = radio.st_init.heap[radio.ref.ident]
        seen = {}
        for r, p in radio.pairs.items():
            if p is None:
                continue
            v = cell.fields.get(p[0])
            if p[1] is not None and isinstance(v, Ref):
                v = radio.st_init.heap[v.ident].items[p[1]]
            if isinstance(v, Ref):
                n += 1
                agg.add("R09.5", (radio.cls.module.relpath, radio.cls.name + ".__init__"), "shadow of %s is a distinct per-instance object" % regname(r),
                        v.ident not in seen, "shadow container shared with %s" % regname(seen.get(v.ident, 0)))
                seen[v.ident] = r
    return n


def run(ck):
    ck.explanation = (
        "Static analysis. (1) One abstract run of RF24.__enter__ from a state whose registers are unconstrained symbols (another object "
        "reconfigured the radio) while the shadows hold the invariant's symbols: every configuration register of the datasheet table must be "
        "written (R09.1) with exactly the value its shadow stands for, PWR_UP forced to 1 (R09.2); combined with C03 (every setter keeps "
        "shadow == register) this is the property for every interleaving of blocks. (2) __exit__: CE low, only PWR_UP cleared, falsy return "
        "(R09.3). (3) Every class holding a driver object or overriding __enter__/__exit__ (RadioMixin and its four concrete classes, FakeBLE) "
        "is analysed the same way and must reach the same effects (R09.4). (4) No class-level or module-level mutable object carries "
        "configuration, each shadow container is allocated per instance (R09.5). (5) The constructors of RF24 and FakeBLE, run abstractly, end "
        "in a state where every shadow equals its register (R09.6) - the base case of the induction, including FakeBLE's direct shadow edits. "
        "(6) The inductive step: C03's setter/getter/pipe/address scenarios are re-run here, so every public operation provably leaves each shadow "
        "equal to its register (R03.3) and a drifting shadow is reported by this check too.")
    ck.not_decided = ["the CE/listen role is not a register and is not restored by `with` (documented); reported as an observation only"]
    agg = Agg(ck)
    radio = Radio(ck)
    f_enter = ck.prog.method(radio.cls, "__enter__")
    f_exit = ck.prog.method(radio.cls, "__exit__")
    st = havoc_regs(radio, radio.fresh())
    good = check_enter(radio, agg, radio.cls, f_enter, radio.ref, st, "RF24.__enter__", f_enter)
    check_exit(radio, agg, radio.cls, f_exit, radio.ref, radio.fresh(), "RF24.__exit__", f_exit)
    # subclasses of the driver (FakeBLE)
    radios = [radio]
    nsub = 0
    for cls in ck.prog.all_classes():
        if cls is not radio.cls and radio.cls in cls.mro:
            nsub += 1
            sub = Radio(ck, cls.module.name, cls.name)
            radios.append(sub)
            fe, fx = ck.prog.method(cls, "__enter__"), ck.prog.method(cls, "__exit__")
            check_enter(sub, agg, cls, fe, sub.ref, havoc_regs(sub, sub.fresh()), cls.name + ".__enter__", (cls.module.relpath, cls.name + ".__enter__"))
            check_exit(sub, agg, cls, fx, sub.ref, sub.fresh(), cls.name + ".__exit__", (cls.module.relpath, cls.name + ".__exit__"))
            # the inductive step on the subclass' refusing paths: a configuration call the subclass rejects (FakeBLE raises
            # NotImplementedError from setters it overrides, also when an inherited helper reaches them) leaves every shadow equal to
            # its register - otherwise the next __enter__ programs what was refused
            from . import c03
            from ..tables import contract as _ct
            for name, (kind, gen) in _ct.SETTERS.items():
                try:
                    func = sub.setter(name, kind)
                except Exception:  # noqa
                    continue
                if func is None:
                    continue
                inits = [o for o in sub.init_outs if o.kind == "return"][:1]
                for label, args, _expect in gen():
                    if not inits:
                        break
                    # from the state the subclass' constructor establishes (a FakeBLE never has auto-ack or dynamic payloads on: the
                    # setters that could change that are the ones it refuses)
                    st0 = inits[0].state.fork()
                    st0.trace = []
                    for out in sub.run(func, args, st0):
                        if out.kind == "raise":
                            for r in regmap.CONFIG_REGS:
                                ok, det = sub.shadow_matches(out.state, r)
                                agg.add("R09.7", func, "%s: shadow of %s still equals the register when the call is refused" % (cls.name, regname(r)), ok,
                                        "%s.%s raises %s: %s - the next `with` block programs the refused value" % (cls.name, label, out.value.exc, det))
    # R09.6 constructors establish the invariant
    for rd in radios:
        init = rd.cls.lookup("__init__")[1]
        normal = [o for o in rd.init_outs if o.kind == "return"]
        agg.add("R09.6", init, "constructor has a normal path", bool(normal), "no normal path")
        for out in normal:
            for r in regmap.CONFIG_REGS:
                ok, det = rd.shadow_matches(out.state, r)
                if r not in out.state.extra.get("regs", {}):
                    ok, det = False, "register never written by the constructor"
                agg.add("R09.6", init, "after %s(): shadow of %s equals the register" % (rd.cls.name, regname(r)), ok, det)
            for ev, rc, v, rexpr in regwrites(out):
                if rc is not None and rc != 0x50:
                    okl, det = rd.legal_write(rc, v)
                    agg.add("R09.6", init, "constructor writes a legal value to %s" % regname(rc), okl, det, ev.node)
    nw = wrappers(ck, radio, agg)
    nl = no_leak(ck, agg, radios)
    # inductive step (anchor "every setter/getter keeps its shadow current"): the C03 rule set, whose R03.3 obligations state that every
    # public operation leaves shadow == register; a shadow that drifts makes the next __enter__ restore a value the object never set
    from . import c03
    nstep = c03.run_setters(radio, agg, contract.SETTERS) + c03.run_getters(radio, agg, contract.GETTERS) + c03.run_pipes(radio, agg) + c03.run_address(radio, agg)
    nstep += c03.run_misc(radio, agg)
    c03.run_rest(radio, agg)        # closure: any other member that stores a shadow (read-only properties, helpers)
    c03.run_carrier(radio, agg)     # start/stop_carrier_wave leave RF_SETUP's shadow equal to the register
    # the subclass overrides the channel setter: its shadow must follow the register there too (R18.4, shared with C18)
    from . import c18, ble as _ble
    c18.channel_pairing(ck, agg, _ble.Ble(ck))
    agg.flush()
    ck.floor("R09.7", "setter/getter/pipe scenarios of the inductive step", nstep, 450)
    ck.floor("R09.1", "configuration registers", len(regmap.CONFIG_REGS), 22)
    ck.floor("R09.4", "wrapper classes holding a driver", nw, 1)
    ck.floor("R09.4", "driver subclasses", nsub, 1)
    ck.floor("R09.5", "class/module attributes scanned", nl, 8)
