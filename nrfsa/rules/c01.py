"""C01 - link payload integrity (the clauses visible in the shape of the driver)."""
import ast
from ..absval import Const, norm, const_of, Bytes, Lin, Sym, as_lin, lin_add
from ..interp import Ref, Limits, Model
from ..engine import Interp
from ..tables import regmap, contract
from ..model import AnalysisError, iter_own_nodes
from .radio import Radio
from .c03 import Agg
from . import link, c10


def framing(ck, radio, agg, rule="R01.5"):
    """SPI framing of the four primitives, analysed with the effect model switched off:
    MOSI[0] = command (| 0x20 for register writes), payload at MOSI[1:len+1], out_end == in_end == len + 1,
    MISO[0] lands in the STATUS cache, reads return a fresh slice MISO[1:len+1]."""
    from ..interp import State
    n = 0
    status = radio.model.status
    for role, f in radio.model.prims.items():
        n += 1
        it = Interp(ck.prog, Model(), Limits(max_paths=200))
        st = radio.fresh()
        ck.analysed(f)
        if role == "read1":
            args = [Sym("reg", "int", rng=(0, 255))]
        elif role == "readn":
            args = [Sym("reg", "int", rng=(0, 255)), Sym("n", "int", rng=(1, 32))]
            rngs = dict(st.extra.get("symrng", {}))
            rngs["n"] = (1, 32)
            st.extra["symrng"] = rngs
        elif role == "writen":
            args = [Sym("reg", "int", rng=(0, 255)), link.param_buf("out_buf")]
            link.sym_len_state(radio, st, "out_buf")
        elif role == "cmd":
            args = [Sym("reg", "int", rng=(0, 255))]
        else:
            args = [Sym("reg", "int", rng=(0, 255)), Sym("value", "int", rng=(0, 255))]
        # the SPI device is external here (the spidev wrapper is checked separately)
        for node in iter_own_nodes(f.node):
            if isinstance(node, ast.With):
                for item in node.items:
                    ce = item.context_expr
                    if isinstance(ce, ast.Attribute) and isinstance(ce.value, ast.Name) and ce.value.id == "self":
                        st.heap[radio.ref.ident].fields[ce.attr] = Sym(("ext", "spidev"), "ext", notnone=True)
        # full-size SPI buffers as the constructor allocates them
        if status[0] == "item":
            init_cell = radio.st_init.heap[radio.ref.ident]
            for node in iter_own_nodes(f.node):
                if isinstance(node, ast.Call) and isinstance(node.func, ast.Attribute) and node.func.attr == "write_readinto":
                    for k, b in enumerate(node.args[:2]):
                        if isinstance(b, ast.Attribute) and isinstance(b.value, ast.Name) and b.value.id == "self":
                            src = init_cell.fields.get(b.attr)
                            size = len(radio.st_init.heap[src.ident].items) if isinstance(src, Ref) and not radio.st_init.heap[src.ident].opaque else 0
                            agg.add(rule, f, "SPI buffer %s holds a 32-byte payload plus the command/STATUS byte" % ("MOSI" if k == 0 else "MISO"), size >= 33,
                                    "buffer self.%s has %d bytes" % (b.attr, size))
                            items = [Const(0)] * max(size, 3)
                            if k == 1:
                                items = [st.heap[st.heap[radio.ref.ident].fields[b.attr].ident].items[0]] + items[1:]
                            st.heap[radio.ref.ident].fields[b.attr] = st.alloc("bytearray", items=items, label=b.attr)
        outs = it.run(f, radio.cls, radio.ref, args, st=st)
        ck.absorb(it)
        for out in outs:
            if out.kind != "return":
                agg.add(rule, f, "primitive does not raise", False, "raises %s" % out.value.exc)
                continue
            ios = [e for e in out.trace if e.kind == "io" and e.data[0] and e.data[0].endswith("write_readinto")]
            agg.add(rule, f, "exactly one SPI transfer", len(ios) == 1, "%d transfers" % len(ios))
            if len(ios) != 1:
                continue
            a, kw = ios[0].data[1], ios[0].data[2]
            # expected transfer length
            if role == "read1":
                want = Lin({}, 2)
            elif role == "write1":
                want = Lin({}, 2)
            elif role == "cmd":
                want = Lin({}, 1)
            elif role == "readn":
                want = Lin({"n": 1}, 1)
            else:
                want = Lin({("len", "out_buf"): 1}, 1)
            if "out_end" in kw or "in_end" in kw:
                for k in ("out_end", "in_end"):
                    l = as_lin(norm(kw.get(k))) if kw.get(k) is not None else None
                    ok = l is not None and not lin_add(l, want, -1).terms and lin_add(l, want, -1).c == 0
                    agg.add(rule, f, "%s == payload length + 1" % k, ok, "%s is %r, expected %r" % (k, kw.get(k), want))
                # full driver: buffers are fields of self; the MISO buffer is the STATUS cache
                mosi, miso = a[0], a[1]
                cell = out.state.heap[radio.ref.ident]
                okb = isinstance(miso, Ref) and status[0] == "item" and isinstance(cell.fields.get(status[1]), Ref) and cell.fields[status[1]].ident == miso.ident
                agg.add(rule, f, "MISO byte 0 lands in the STATUS cache", okb, "MISO buffer %r is not the cached buffer" % (miso,))
                stores = [e for e in out.trace if e.kind == "itemstore" and isinstance(e.data[0], Ref) and isinstance(mosi, Ref) and e.data[0].ident == mosi.ident]
                first = [e for e in stores if const_of(norm(e.data[1])) == 0]
                agg.add(rule, f, "MOSI byte 0 carries the command", bool(first), "no store to MOSI[0]")
                if first:
                    v = norm(first[-1].data[2])
                    if role in ("read1", "readn", "cmd"):
                        okc = isinstance(v, Sym) and v.name == "reg"
                        agg.add(rule, f, "read command byte is the register/command unchanged", okc, "MOSI[0] = %r" % (v,))
                    elif role == "writen":
                        okc = _is_or20(v)
                        agg.add(rule, f, "write command byte is 0x20 | register", okc, "MOSI[0] = %r" % (v,))
                if role == "writen":
                    ss = [e for e in out.trace if e.kind == "slicestore" and isinstance(e.data[0], Ref) and e.data[0].ident == mosi.ident]
                    oks = False
                    if len(ss) == 1:
                        b = ss[0].data[1]
                        lo = const_of(norm(b[0])) if b else None
                        hi = as_lin(norm(b[1])) if len(b) > 1 else None
                        src = ss[0].data[2]
                        oks = lo == 1 and hi is not None and not lin_add(hi, want, -1).terms and lin_add(hi, want, -1).c == 0 and isinstance(src, Bytes) and src.origin == ("param", "out_buf")
                    agg.add(rule, f, "payload occupies MOSI[1:len+1]", oks, "slice stores %r" % [(e.data[1], e.data[2]) for e in ss])
            else:
                # lite driver: MOSI is built per call, MISO is a fresh buffer, STATUS stored from MISO[0]
                mosi, miso = a[0], a[1]
                sw = [e for e in out.trace if e.kind == "fieldwrite" and e.data[1] == status[1]]
                agg.add(rule, f, "MISO byte 0 lands in the STATUS cache", len(sw) == 1 and status[0] == "field", "stores to %s: %d" % (status[1], len(sw)))
                ml = link_len(radio, out.state, mosi)
                il = link_len(radio, out.state, miso)
                okl = ml is not None and il is not None and not lin_add(ml, want, -1).terms and lin_add(ml, want, -1).c == 0 and not lin_add(il, want, -1).terms and lin_add(il, want, -1).c == 0
                agg.add(rule, f, "MOSI and MISO lengths == payload length + 1", okl, "MOSI %r, MISO %r, expected %r" % (ml, il, want))
            # return value of reads
            if role == "readn":
                v = out.value
                okr = False
                if isinstance(v, Bytes) and len(v.parts) == 1 and v.parts[0][0][0] == "slice":
                    tag = v.parts[0][0]
                    l = as_lin(norm(v.parts[0][1]))
                    okr = tag[2] == 1 and l is not None and l.terms == {"n": 1} and l.c == 0
                elif isinstance(v, Ref):
                    okr = True
                agg.add(rule, f, "read returns the fresh slice MISO[1:n+1]", okr, "returns %r" % (v,))
    return n


def _is_or20(v):
    from ..absval import BitV
    if not isinstance(v, BitV):
        return False
    ok = v.bits[5] == 1
    for i, b in enumerate(v.bits[:8]):
        if i == 5:
            continue
        ok = ok and isinstance(b, tuple) and b[0] == "s" and b[1] == ("reg", i) and not b[2]
    return ok


def link_len(radio, st, v):
    v = norm(v) if not isinstance(v, Ref) else v
    if isinstance(v, Bytes):
        return as_lin(norm(v.length()))
    if isinstance(v, Ref) and v.kind == "bytearray":
        cell = st.heap[v.ident]
        if not cell.opaque:
            return Lin({}, len(cell.items))
        if cell.fields and "len" in cell.fields:
            return as_lin(norm(cell.fields["len"]))
    return None


def spidev_wrapper(ck, agg, rule="R01.5"):
    """SPIDevCtx.write_readinto copies exactly in_end bytes of the transfer result and sends out_buf[:out_end]"""
    cls = ck.prog.cls("wrapper.cpy_spidev", "SPIDevCtx")
    f = ck.prog.method(cls, "write_readinto")
    ck.analysed(f)
    src = ast.unparse(f.node)
    body = [n for n in iter_own_nodes(f.node)]
    ok_in = ok_out = False
    for n in body:
        if isinstance(n, ast.Assign) and isinstance(n.targets[0], ast.Subscript) and isinstance(n.targets[0].slice, ast.Slice):
            t = n.targets[0]
            if isinstance(t.value, ast.Name) and t.value.id == "in_buf" and t.slice.lower is None and isinstance(t.slice.upper, ast.Name) and t.slice.upper.id == "in_end":
                ok_in = True
                for c in ast.walk(n.value):
                    if isinstance(c, ast.Subscript) and isinstance(c.value, ast.Name) and c.value.id == "out_buf" and isinstance(c.slice, ast.Slice) \
                            and c.slice.lower is None and isinstance(c.slice.upper, ast.Name) and c.slice.upper.id == "out_end":
                        ok_out = True
    agg.add(rule, f, "MISO bytes are stored into in_buf[:in_end]", ok_in, "no store `in_buf[:in_end] = ...`")
    agg.add(rule, f, "MOSI bytes sent are out_buf[:out_end]", ok_out, "transfer does not send out_buf[:out_end]")
    return 1


def run(ck):
    ck.explanation = (
        "Static analysis of the transmit/receive entry points of rf24.RF24. R01.1: write() is abstractly interpreted with a buffer of symbolic "
        "length; the region of lengths reaching the W_TX_PAYLOAD command under dynamic payloads is computed from the path conditions and must be "
        "exactly [1,32], every other length must raise ValueError before any SPI or CE effect. R01.2: with static payloads the length of the "
        "loaded value (a linear form over len(buf) and the configured length P) must equal P on the padding, truncation and exact paths and its "
        "content must be buf, buf + zero bytes, or the prefix buf[:P]. R01.3: no public method applies an in-place operation to a caller-owned "
        "buffer (aliasing tracked from the parameter). R01.4: command byte 0xA0/0xB0 by ask_no_ack, flags cleared first, CE pulse. R01.5: framing "
        "of the four SPI primitives and of the spidev wrapper. R01.6 (= R10.6): read() sizes, fetches and clears RX_DR only. R01.7: list input. "
        "R01.8 (= R02.4): for all 128 cached STATUS values send() flushes a failed or excess payload out of the TX FIFO before loading exactly the caller's.")
    ck.not_decided = ["that the peer's read() returns the bytes, exactly once, in order, attributed to the right pipe, for every channel / data rate / "
                      "CRC / address width - needs two radios and the air"]
    radio = Radio(ck)
    agg = Agg(ck)
    n1 = link.write_gate(radio, agg)
    n2 = link.write_static(radio, agg)
    n3 = link.no_mutation(radio, agg)
    n4 = link.write_cmd(radio, agg)
    n5 = framing(ck, radio, agg)
    n5 += spidev_wrapper(ck, agg)
    n6 = c10.read_fn(radio, agg)
    n7 = link.send_list(radio, agg)
    # 'exactly once, in order': a payload that failed earlier must not be left in front of the next one (shared with C02/R02.4)
    n8 = link.send_prologue(radio, agg, rule="R01.8")
    # write() chooses between "unchanged" and "pad/truncate" from the driver's cached copies of DYNPD / FEATURE / RX_PW_P0: the rules above
    # hold for the radio only while every setter keeps those copies equal to the registers (C03's R03.3 obligations, re-run here)
    from . import c03
    n9 = c03.run_setters(radio, agg, contract.SETTERS)
    # ... and every getter: several of them refresh the cached copy from the register they read (the whole register, not the bit they return)
    n9 += c03.run_getters(radio, agg, contract.GETTERS)
    # "attributed to the pipe whose address it was sent to": the addresses handed to open_rx_pipe() must not stay shared with the caller
    # (R08.1: the driver keeps private copies)
    from . import c08
    c08.user_addr_writers(radio, agg, radio.user_pipe0_field())
    # "exactly once, in order, attributed to the pipe it was sent to": nothing but the caller's payload is in the TX FIFO when send() starts
    # (left-over ACK payloads are flushed on TX entry) and pipe 0 returns to the reading address after a transmission (R08.x, shared with C08)
    c08.run_for(ck, radio, agg)
    # "for all six receiving pipes": the pipe a payload is attributed to is decoded by the status accessors (R10.1, shared with C10), and
    # the static payload widths / addresses of every pipe are what `with` re-programs from the cached copies (R09.1/R09.2, shared with C09)
    c10.run_for(ck, radio, agg)
    from . import c09
    c09.check_enter(radio, agg, radio.cls, ck.prog.method(radio.cls, "__enter__"), radio.ref, c09.havoc_regs(radio, radio.fresh()), "RF24.__enter__", ck.prog.method(radio.cls, "__enter__"))
    # the sibling driver rf24_lite.RF24 implements the same write()/send()/read()/any() contract (C20 judges it in full); the payload path
    # rules are applied to it here as well, so that a change to either driver's payload path is reported under C01 itself
    lite = Radio(ck, "rf24_lite", "RF24")
    link.write_gate(lite, agg, lite=True)
    link.write_static(lite, agg, lite=True)
    link.no_mutation(lite, agg)
    link.write_cmd(lite, agg, lite=True)
    framing(ck, lite, agg)
    c10.run_for(ck, lite, agg, lite=True)
    link.send_prologue(lite, agg, lite=True, rule="R01.8")
    # FakeBLE.advertise takes caller buffers too
    ble = Radio(ck, "fake_ble", "FakeBLE")
    fadv = ck.prog.method(ble.cls, "advertise")
    link.radio_ble_mutation(ble, agg, fadv) if hasattr(link, "radio_ble_mutation") else None
    agg.flush()
    ck.floor("R01.1", "write() paths under dynamic payloads", n1, 6)
    ck.floor("R01.2", "static shaping paths", n2, 3)
    ck.floor("R01.3", "public methods with caller buffers", n3, 7)
    ck.floor("R01.5", "SPI primitives", n5, 3)
    ck.floor("R01.6", "read scenarios", n6, 40)
    ck.floor("R01.7", "list/tuple paths", n7, 2)
    ck.floor("R01.8", "send() prologue scenarios", n8, 256)
    ck.floor("R03", "setter scenarios (cached configuration follows the registers)", n9, 250)
