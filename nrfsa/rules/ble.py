"""FakeBLE harness: the radio invariant state of a FakeBLE object + summaries of the bit-level helpers
(CRC-24, whitening, bit reversal are numerical loops over data: their *numerics* are declined, their
length behaviour and call order are what the rules need)."""
from ..absval import Const, Sym, Bytes, Seq, norm, const_of
from ..interp import Ref, Limits
from ..model import AnalysisError
from .radio import Radio


def sum_crc(model, it, st, fr, node, target, args, kwargs):
    data = args[0]
    it.event(st, fr, "crc", node, (data, args[1:], dict(kwargs)))
    key = repr(norm(data).key())[:120] if hasattr(data, "key") else "?"
    return [(st, Bytes([(("crc24", key), Const(3))], "bytearray"))]


def _same_len(name):
    def h(model, it, st, fr, node, target, args, kwargs):
        data = args[0]
        it.event(st, fr, name, node, (data, args[1:]))
        ln = it.length_of(data, st)
        key = repr(norm(data).key())[:120] if hasattr(data, "key") else "?"
        extra = repr(norm(args[1]).key()) if len(args) > 1 and hasattr(args[1], "key") else ""
        return [(st, Bytes([((name, key, extra, data), ln if ln is not None else Sym(st.fresh_name("len"), "int", rng=(0, None)))], "bytearray"))]
    return h


class Ble(Radio):
    def __init__(self, ck):
        Radio.__init__(self, ck, "fake_ble", "FakeBLE")
        P = ck.prog
        self.model.opaque[P.func("fake_ble", "crc24_ble").qualname] = sum_crc
        self.model.opaque[P.func("fake_ble", "whitener").qualname] = _same_len("whitened")
        self.model.opaque[P.func("fake_ble", "reverse_bits").qualname] = _same_len("reversed")

    def obj(self, st):
        return st.heap[self.ref.ident]

    def freq_index_field(self):
        """name of the field that holds the index (0..2) of the current BLE channel: the field of self that whiten() reads and
        hop_channel() or the channel setter writes - inferred, so renaming it is not noticed"""
        if getattr(self, "_fif", None) is None:
            import ast
            P = self.prog
            fw, fh = P.method(self.cls, "whiten"), P.method(self.cls, "hop_channel")
            loads = {n.attr for n in ast.walk(fw.node) if isinstance(n, ast.Attribute) and isinstance(n.ctx, ast.Load) and isinstance(n.value, ast.Name) and n.value.id == "self"}
            writers = [fh]
            try:
                writers.append(P.method(self.cls, "channel", "set"))     # hop_channel() may leave the bookkeeping to the channel setter
            except AnalysisError:
                pass
            stores = {n.attr for w in writers for n in ast.walk(w.node) if isinstance(n, ast.Attribute) and isinstance(n.ctx, ast.Store) and isinstance(n.value, ast.Name) and n.value.id == "self"}
            cand = sorted(x for x in loads & stores if self.cls.lookup(x) is None or self.cls.lookup(x)[0] not in ("prop", "method"))
            if len(cand) != 1:
                raise AnalysisError("cannot identify the field holding the BLE channel index (candidates: %r)" % (cand,))
            self._fif = cand[0]
        return self._fif


def unwrap(v, name):
    """the input of a same-length transform value produced by the summaries above"""
    v = norm(v)
    if isinstance(v, Bytes) and len(v.parts) == 1 and v.parts[0][0][0] == name:
        return v.parts[0][0][3], v.parts[0][0][2]
    return None, None
