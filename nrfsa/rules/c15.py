"""C15 - no received frame can crash a node or make it forward garbage.

Exception-escape analysis: every raise-capable construct reachable from
update() of the four node classes is enumerated by abstractly interpreting
update() on an arbitrary received payload (1..32 unknown bytes); each site must
be discharged by the abstract values / guard facts of the path, or by the
frozen table below (one reason per entry)."""
import ast
from ..absval import Const, Sym, Bytes, Seq, BitV, norm, const_of, NBITS, as_bitv
from ..interp import Ref, Limits, State, Model, Raised
from ..engine import Interp
from ..interp_expr import deps_of
from ..model import AnalysisError, iter_own_nodes, reachable
from ..tables import rf24network as T
from .c03 import Agg, value_matches
from . import net, c07, c05
from .common import iter_mutation_sites

# raise-capable sites that the abstract domains cannot discharge are judged by the *provenance of the value* (never by the text or the
# position of the site, so moving or renaming code does not change the verdict)
def table_value(v):
    """is v an entry of the master's lease table?  Table invariant (C16): keys are node IDs - one byte by protocol (header.reserved or a
    1-byte file field); values are logical addresses - 12 bits, produced by _dhcp (R16.1) or loaded from a '<H' field.  Both fit every
    16-bit struct code."""
    v = norm(v)
    role = v.attrs.get("role") if isinstance(v, Sym) else None
    return bool(role) and role[0] in ("dict-key", "dict-val") and str(role[1]).endswith("dhcp_dict")


COLLECT = {"index", "itemstore", "unpack", "packarg", "mayraise", "raised", "to_bytes", "negindex", "pop"}


def validator(ck, agg):
    """R15.3: grammar accepted by is_address_valid, derived from its code with a symbolic 16-bit address"""
    P = ck.prog
    f = P.func("network.structs", "is_address_valid")
    ck.analysed(f)
    bits = tuple(("s", ("a", i), False) for i in range(NBITS))
    a = BitV(bits, 0, (0, 65535))
    it = Interp(P, Model(), Limits(max_paths=20000, loop_unroll=10, concrete_loop=24))
    it.decide_results = True
    outs = it.run(f, args=[a], st=State())
    ck.absorb(it)
    acc_digits, digit_sets, specials = set(), [], None
    for out in outs:
        if out.kind != "return":
            agg.add("R15.3", f, "is_address_valid() never raises", False, "raises %s" % out.value.exc)
            continue
        iters = len([e for e in out.trace if e.kind == "loop-iter"])
        if value_matches(out.value, True):
            sp = [e for e in out.trace if e.kind == "cond" and isinstance(e.node, ast.Compare) and isinstance(e.node.ops[0], ast.In) and e.data[0] is True]
            if sp:
                tup = sp[0].data[1][1]
                specials = sorted(const_of(norm(x)) for x in tup.items) if isinstance(tup, Seq) else None
                continue
            # digit predicate: the comparisons evaluated on the digit bits of each iteration
            per_iter = {}
            for e in out.trace:
                if e.kind != "cond" or not isinstance(e.node, ast.Compare) or not isinstance(e.data[1], tuple):
                    continue
                l, r = norm(e.data[1][0]), norm(e.data[1][1])
                for dv, cv, flip in ((l, r, False), (r, l, True)):
                    b = as_bitv(dv)
                    c = const_of(cv)
                    if b is None or not isinstance(c, int) or isinstance(dv, Const):
                        continue
                    srcs = [t[1][1] for t in b.bits if isinstance(t, tuple) and t[0] == "s"]
                    if c == 0 and srcs and max(srcs) == NBITS - 1 and srcs == list(range(min(srcs), NBITS)) and isinstance(e.node.ops[0], (ast.Eq, ast.NotEq)):
                        continue        # `rest == 0` / `rest != 0`: the test whether digits remain, not a digit test (judged below)
                    if len(srcs) != 3 or any(t not in (0,) and not (isinstance(t, tuple) and t[0] == "s") for t in b.bits):
                        agg.add("R15.3", f, "each digit test looks at exactly one octal digit (3 bits)", len(srcs) in (1, 3) and iters >= 6,
                                "`%s` tests bits %r" % (ast.unparse(e.node), srcs), e.node)
                        continue
                    k = min(srcs) // 3
                    agg.add("R15.3", f, "digit tests are aligned to octal digits", sorted(srcs) == [3 * k, 3 * k + 1, 3 * k + 2] and [t[1][1] for t in b.bits[:3] if isinstance(t, tuple)] == [3 * k, 3 * k + 1, 3 * k + 2],
                            "`%s` tests bits %r" % (ast.unparse(e.node), srcs), e.node)
                    op = type(e.node.ops[0])
                    ok_vals = set()
                    for d in range(8):
                        x, y = (c, d) if flip else (d, c)
                        res = {ast.Lt: x < y, ast.LtE: x <= y, ast.Gt: x > y, ast.GtE: x >= y, ast.Eq: x == y, ast.NotEq: x != y}.get(op)
                        if res is None:
                            continue
                        if res == e.data[0]:
                            ok_vals.add(d)
                    per_iter.setdefault(k, set(range(8)))
                    per_iter[k] &= ok_vals
            digit_sets.append(per_iter)
            # number of digits of the accepted address = digits tested, provided the path also established that nothing is left above them
            # (read from the tests themselves, not from the number of loop iterations)
            nd = (max(per_iter) + 1) if per_iter else 0
            rest_zero = False
            for e in out.trace:
                if e.kind not in ("cond", "known"):
                    continue
                val, is_zero = e.data[1], e.data[0] is False
                if isinstance(val, tuple):
                    # rest == 0 (true) / rest != 0 (false)
                    if not (len(val) == 2 and isinstance(e.node, ast.Compare) and isinstance(e.node.ops[0], (ast.Eq, ast.NotEq))):
                        continue
                    x, y = (val[0], val[1]) if const_of(norm(val[1])) == 0 else (val[1], val[0])
                    if const_of(norm(y)) != 0:
                        continue
                    val, is_zero = x, (e.data[0] is True) == isinstance(e.node.ops[0], ast.Eq)
                if not is_zero:
                    continue
                b = as_bitv(norm(val)) if hasattr(val, "key") else None
                if b is None:
                    continue
                if all((t == 0 and 3 * nd + i >= NBITS) or (isinstance(t, tuple) and t[0] == "s" and t[1] == ("a", 3 * nd + i) and not t[2]) for i, t in enumerate(b.bits)) and 3 * nd < NBITS:
                    rest_zero = True
            acc_digits.add(nd if (rest_zero and sorted(per_iter) == list(range(nd))) else 99)
    lo, hi = T.VALID_DIGITS
    allowed = set(range(lo, hi + 1))
    bad = [(k, sorted(v)) for ps in digit_sets for k, v in ps.items() if v != allowed and not (k >= 5)]
    agg.add("R15.3", f, "every digit of an accepted address is in 1..5", not bad and any(ps for ps in digit_sets), "digit regions that differ: %r" % bad[:4])
    agg.add("R15.3", f, "an accepted address has at most 4 octal digits (12 bits, levels 0..4)", acc_digits == set(range(0, T.MAX_LEVEL + 1)),
            "addresses with %s digits are accepted (99 = an accepting path that does not establish that no further digits follow): e.g. 0o11111 is 'valid', and _pipe_address() then indexes past its 5-byte buffer" % sorted(acc_digits))
    want_sp = sorted([T.CONSTANTS["NETWORK_MULTICAST_ADDR"], T.CONSTANTS["NETWORK_MULTICAST_ADDR_LVL_2"], T.CONSTANTS["NETWORK_MULTICAST_ADDR_LVL_4"]])
    agg.add("R15.3", f, "the only other accepted values are the reserved multicast addresses 0o100, 0o10, 0o1000", specials == want_sp, "special addresses %r" % (specials and [oct(x) for x in specials],))
    it2 = Interp(P, Model(), Limits())
    o2 = it2.run(f, args=[Const(None)], st=State())
    agg.add("R15.3", f, "None is not a valid address", len(o2) == 1 and o2[0].kind == "return" and value_matches(o2[0].value, False), "is_address_valid(None) -> %r" % (o2[0].value if o2 else None,))
    return max(acc_digits) if acc_digits else 0


def pipe_address_capacity(ck, agg, max_digits):
    """_pipe_address must not raise for any address the validator lets through"""
    nn = net.NetNode(ck, "rf24_network", "RF24Network")
    P = ck.prog
    mix = P.cls("network.mixins", "NetworkMixin")
    f = P.method(mix, "_pipe_address")
    nn.model.opaque.pop(f.qualname, None)
    nbits = min(NBITS, 3 * max(max_digits, 4))
    n = 0
    for am in (True, False):
        for pipe in (0, 1, 5):
            n += 1
            st, node = nn.fresh(fields={"allow_multicast": am})
            a = BitV(tuple(("s", ("node_addr", i), False) if i < nbits else 0 for i in range(NBITS)), 0, (0, (1 << nbits) - 1))
            outs = nn.run(f, node, [a, Const(pipe)], st, limits=Limits(max_paths=6000, loop_unroll=8, depth=8, concrete_loop=12))
            for out in outs:
                if out.kind == "raise":
                    iters = net.addr_digits(out)
                    agg.add("R15.1", f, "translating a validated address into a pipe address never raises", False,
                            "an address of %d octal digits passes is_address_valid() but makes `%s` raise %s (pipe %d)" % (
                                iters, ast.unparse(out.value.node)[:50] if out.value.node is not None else "?", out.value.exc, pipe), out.value.node)
                else:
                    agg.add("R15.1", f, "translating a validated address into a pipe address never raises", True, "")
    return n


def site_key(ev):
    node = ev.node
    try:
        src = ast.unparse(node)
    except Exception:
        src = "?"
    kind = ev.kind
    if kind in ("index", "negindex"):
        return "index " + src[:70]
    if kind == "itemstore":
        return "store " + src[:70]
    if kind in ("unpack", "packarg"):
        return "struct " + src[:70]
    if kind == "raised":
        return "raise " + src[:70]
    return kind + " " + src[:70]


def collect_from(ck, agg, it, outs, label, fu, counter):
    for ev, stack in it.collected:
        ok, why = judge(ev)
        if ok is None:
            continue
        counter[0] += 1
        fn = ev.func
        key = site_key(ev)
        fq = fn.qualname.split(":", 1)[1] if fn else "?"
        if not ok and ev.kind == "packarg" and ev.data[1] in ("h", "H") and table_value(ev.data[2]):
            agg.add("R15.1", fn, "a lease-table entry is packed into a 16-bit field", True, "table invariant: one-byte node IDs, 12-bit addresses (C16)", ev.node)
            continue
        agg.add("R15.1", fn, key, ok, "%s: %s" % (label, why), ev.node)
    for out in outs:
        if out.kind == "raise":
            fn = out.value.func
            agg.add("R15.1", fn if fn is not None else fu, "raise `%s`" % (ast.unparse(out.value.node)[:60] if out.value.node is not None else out.value.exc), False,
                    "%s: %s escapes (%s)" % (label, out.value.exc, out.value.msg), out.value.node)
    agg.add("R15.1", fu, "analysis has complete paths", any(o.kind == "return" for o in outs), "%s: no complete path" % label)


def escape(ck, agg):
    """R15.1: raise-capable sites reachable from update() on an arbitrary payload.  Compositional: update() with _write() as a
    summary; _write() on an arbitrary frame buffer; the queue classes on an arbitrary frame; _pipe_address() separately."""
    P = ck.prog
    n = 0
    counter = [0]
    mix = P.cls("network.mixins", "NetworkMixin")
    f_upd = P.method(mix, "_net_update")
    f_write = P.method(mix, "_write")
    S = net.structs(P)
    for clsmod, clsname in net.NODE_CLASSES:
        for ident in ((0, 5) if clsname.startswith("RF24Mesh") else (None,)):
            nn = net.NetNode(ck, clsmod, clsname)
            sum_upd = c07.make_summary(nn, Agg(ck), "_net_update")
            sum_write = c07.make_summary(nn, Agg(ck), "_write")
            nn.model.on_recursion = lambda it, st, fr, node, target, args, kw, s_=sum_upd, nn_=nn: s_(nn_.model, it, st, fr, node, target, [fr.self_val] + list(args), kw)
            nn.model.opaque[f_write.qualname] = sum_write
            for qc in ("FrameQueue", "FrameQueueFrag"):
                nn.model.opaque[P.method(S[qc], "enqueue").qualname] = net.sum_enqueue
            if clsname == "RF24Mesh":
                # the master part is analysed from the summary of the shared _net_update() (itself analysed through RF24MeshNoMaster,
                # after checking that RF24Mesh overrides nothing _net_update() reaches)
                base = P.cls("rf24_mesh", "RF24MeshNoMaster")
                ra = {f_ for f_, _r in reachable(P, f_upd, nn.cls)}
                rb = {f_ for f_, _r in reachable(P, f_upd, base)}
                if ra != rb:
                    raise AnalysisError("RF24Mesh overrides a method reached from _net_update(): %s" % sorted(x.qualname for x in ra ^ rb))
                nn.model.opaque[f_upd.qualname] = sum_upd
            nn.merge_funcs = "*"
            nn.model.merge_key = net.radio_merge_key(nn)
            nn.model.loop_key = net.radio_loop_key(nn)
            n += 1
            fields = {}
            if ident is not None:
                fields[net.FN("_id")] = ident
                if ident == 0:
                    fields[net.FN("_addr")] = 0
            st, node = nn.fresh(fields=fields)
            fu = P.method(nn.cls, "update")
            it = Interp(P, nn.model, Limits(max_paths=100000, loop_unroll=2, depth=16, concrete_loop=10))
            it.collect = set(COLLECT)
            try:
                outs = it.run(fu, nn.cls, node, [], st=st)
            except AnalysisError as exc:
                raise AnalysisError("%s.update(): %s" % (clsname, exc))
            ck.absorb(it)
            ck.analysed(fu)
            collect_from(ck, agg, it, outs, "%s.update()%s" % (clsname, "" if ident is None else " (node id %d)" % ident), fu, counter)
    # _write() with an arbitrary frame buffer
    nn = net.NetNode(ck, "rf24_network", "RF24Network")
    sum_upd = c07.make_summary(nn, Agg(ck), "_net_update")
    nn.model.opaque[f_upd.qualname] = sum_upd
    nn.model.on_recursion = lambda it, st, fr, node, target, args, kw: sum_upd(nn.model, it, st, fr, node, target, [fr.self_val] + list(args), kw)
    for qc in ("FrameQueue", "FrameQueueFrag"):
        nn.model.opaque[P.method(S[qc], "enqueue").qualname] = net.sum_enqueue
    nn.merge_funcs = "*"
    nn.model.merge_key = net.radio_merge_key(nn)
    nn.model.loop_key = net.radio_loop_key(nn)
    for send_type in (0, 1, 2, 3, 4):
        for mlen in ((None, 25) if ck.tier == "quick" else (None, 0, 24, 25, 144)):
            n += 1
            st, node = nn.fresh(msg_len=mlen)
            net.set_rng(st, "write_direct", (0, 0o7777))
            it = Interp(P, nn.model, Limits(max_paths=100000, loop_unroll=2, depth=16, concrete_loop=10))
            it.collect = set(COLLECT)
            outs = it.run(f_write, nn.cls, node, [Sym("write_direct", "int", rng=(0, 0o7777)), Const(send_type)], st=st)
            ck.absorb(it)
            ck.analysed(f_write)
            collect_from(ck, agg, it, outs, "_write(send_type=%d, message of %s bytes)" % (send_type, "any number of" if mlen is None else mlen), f_write, counter)
    # the queue classes with an arbitrary frame
    for qc in ("FrameQueue", "FrameQueueFrag"):
        for nfr in (0, 2):
            n += 1
            st = State()
            q = net.sym_queue(st, P, qc, nframes=nfr, max_size=None)
            frame = net.sym_frame(st, P, "frame")
            fe = P.method(S[qc], "enqueue")
            it = Interp(P, Model(), Limits(max_paths=20000, loop_unroll=2))
            it.collect = set(COLLECT)
            outs = it.run(fe, S[qc], q, [frame], st=st)
            ck.absorb(it)
            ck.analysed(fe)
            collect_from(ck, agg, it, outs, "%s.enqueue(arbitrary frame)" % qc, fe, counter)
    return n, counter[0]


def judge(ev):
    """(ok, why) for a collected raise-capable event; ok None = not a raise-capable instance"""
    k, d = ev.kind, ev.data
    if k == "index":
        base, idx, ln, safe = d
        if isinstance(base, Ref) and base.kind == "dict":
            return None, ""
        return bool(safe), "index %r may be outside the object (length %r): IndexError" % (idx, ln)
    if k == "negindex":
        return None, ""
    if k == "itemstore":
        safe = d[4]
        return bool(safe), "store index %r may be out of range: IndexError" % (d[1],)
    if k == "unpack":
        fmt, buf, ln, ok = d[:4]
        return bool(ok), "struct.unpack(%r) may receive a buffer of length %r: struct.error" % (fmt, ln)
    if k == "packarg":
        fmt, code, v, ok = d
        return bool(ok), "struct.pack(%r): argument %r may not fit code %r: struct.error" % (fmt, v, code)
    if k == "mayraise":
        return False, "%s: %r may raise" % (d[0], d[1])
    if k == "to_bytes":
        return bool(d[2]), "int.to_bytes may overflow"
    if k == "pop":
        return None, ""
    if k == "raised":
        if getattr(d[2], "caught", False):
            return None, ""   # handled by an enclosing try/except
        return False, "%s is raised here (%s)" % (d[0], d[1])
    return None, ""


def loops(ck, agg):
    """R15.4: every loop reachable from update() has a classified variant"""
    P = ck.prog
    seen = set()
    n = 0
    from ..effects import find_primitives, find_status_cache
    rf = P.cls("rf24", "RF24")
    status_field = find_status_cache(P, rf, find_primitives(P, rf))[1]
    prims = set(find_primitives(P, rf).values())
    spi_funcs = set()
    from .common import class_funcs
    for fi in class_funcs(rf):
        if fi in prims or any(g in prims for g, _rc in reachable(P, fi, rf)):
            spi_funcs.add(fi)
    for clsmod, clsname in net.NODE_CLASSES:
        cls = P.cls(clsmod, clsname)
        fu = P.method(cls, "update")
        for f, _r in reachable(P, fu, cls):
            if f in seen:
                continue
            seen.add(f)
            for loop, stmt, what, ok in iter_mutation_sites(f.node):
                agg.add("R15.6", f, "a container is not resized while update() iterates over it (RuntimeError / skipped entries)", ok,
                        "%s (line %d) and the loop can go on to its next iteration" % (what, stmt.lineno), stmt)
            for node in iter_own_nodes(f.node):
                if isinstance(node, ast.For):
                    n += 1
                    it_src = node.iter
                    fin = finite_iter(it_src)
                    agg.add("R15.4", f, "for-loop over a finite iterable `%s`" % ast.unparse(it_src)[:40], fin, "iterable not recognised as finite", node)
                elif isinstance(node, ast.While):
                    n += 1
                    kind = classify_while(node, status_field)
                    if kind is None and polls_radio(P, f, _r, node, spi_funcs):
                        kind = "hardware"
                    agg.add("R15.4", f, "while-loop `%s` has a bounded variant" % ast.unparse(node.test)[:50], kind is not None,
                            "no clock test, consumed FIFO or strictly decreasing counter found: the loop may not terminate on hostile input", node)
    return n


def stale_report(ck, agg):
    """R15.7: what _net_update() returns describes the frame that is in frame_buf.  The mesh layer acts on (returned type, frame_buf)
    as a pair (lookup / release / address request handling), so a type remembered from an earlier frame must not be returned once a later
    frame - in particular a discarded one with invalid addresses - has been decoded into frame_buf: the master would answer to an
    unvalidated address.  _net_update() is interpreted for three reads with its two handlers summarised (they return an unknown
    (keep_updating, type) pair); on every return the returned type must be 0 / a constant, or come from the handler that ran on the most
    recently decoded frame."""
    P = ck.prog
    mix = P.cls("network.mixins", "NetworkMixin")
    f = P.method(mix, "_net_update")
    n = 0
    for clsmod, clsname in (("rf24_network", "RF24Network"), ("rf24_mesh", "RF24Mesh")):
        nn = net.NetNode(ck, clsmod, clsname)

        def handler(model, it, st, fr, node, target, args, kwargs):
            k = len([e for e in st.trace if e.kind == "unpack"])
            it.event(st, fr, "handled", node, k)
            return [(st, Seq([Sym(st.fresh_name("keep"), "bool"), Sym(("handled-type", k), "int", rng=(0, 255))], "tuple"))]
        for hn in ("_handle_frame_for_this_node", "_handle_frame_for_other_node"):
            nn.model.opaque[P.method(mix, hn).qualname] = handler
        nn.model.loop_key = net.radio_loop_key(nn, trace_kinds=("unpack", "handled", "radio-read"))
        st, node = nn.fresh()
        outs = nn.run(f, node, [], st, limits=Limits(max_paths=20000, loop_unroll=3, depth=14, concrete_loop=10))
        for out in outs:
            # R15.4 (progress, by value): the reception loop is bounded because every round takes a payload out of the 3-level RX FIFO.  A
            # read that returned nothing took nothing (RF24.read() leaves a zero-width payload where it is), so the loop must be left on
            # that path - going round again can spin forever on the same FIFO content
            empties = [e for e in out.trace if e.kind == "radio-read" and e.data[0] == "none"]
            for e0 in empties:
                again = [e for e in out.trace if e.kind == "loop-iter" and e.seq > e0.seq and e0.node is not None and any(x is e0.node for x in ast.walk(e.node))]
                agg.add("R15.4", f, "after a read that returned nothing the reception loop is left (it would not make progress)", not again,
                        "%s: read() returned None and the loop goes round again (next iteration at line %s): with a zero-length payload at the head of the RX FIFO "
                        "available() stays True and update() never returns" % (clsname, getattr(again[0].node, "lineno", "?") if again else "?"), e0.node)
            if out.kind != "return":
                continue
            n += 1
            decoded = len([e for e in out.trace if e.kind == "unpack"])
            v = norm(out.value)
            src = v.name[1] if isinstance(v, Sym) and isinstance(v.name, tuple) and v.name[0] == "handled-type" else None
            ok = isinstance(v, Const) or (src is not None and src == decoded)
            agg.add("R15.7", f, "the returned message type belongs to the frame that is in frame_buf (never a type remembered from an earlier frame)", ok,
                    "%s: %d frames were decoded into frame_buf, the returned type %r stems from frame %s - the caller (RF24Mesh.update) would treat the last, "
                    "possibly discarded frame as a message of that type and answer to its unvalidated address" % (clsname, decoded, v, src))
    return n


def finite_iter(x):
    """an iterable expression that can only yield finitely many items: containers and views of them, range/enumerate/zip/.. over finite
    arguments, comprehensions and generator expressions over finite iterables.  (There is no generator *function*, `iter(callable, ..)`,
    `itertools` or `while`-driven iterator in the package: R00.1 / closed world.)"""
    if isinstance(x, (ast.Name, ast.Attribute, ast.Tuple, ast.List, ast.Set, ast.Dict, ast.Subscript, ast.Constant, ast.BinOp)):
        return True
    if isinstance(x, (ast.GeneratorExp, ast.ListComp, ast.SetComp, ast.DictComp)):
        return all(finite_iter(g.iter) for g in x.generators)
    if isinstance(x, ast.IfExp):
        return finite_iter(x.body) and finite_iter(x.orelse)
    if isinstance(x, ast.Call):
        fn = x.func
        if isinstance(fn, ast.Name) and fn.id in ("range", "enumerate", "zip", "reversed", "sorted", "list", "tuple", "set", "map", "filter", "bytes", "bytearray", "dict"):
            return all(finite_iter(a) or isinstance(a, (ast.Lambda,)) or not isinstance(a, (ast.GeneratorExp,)) for a in x.args) if fn.id != "range" else True
        if isinstance(fn, ast.Attribute) and fn.attr in ("items", "keys", "values", "split", "copy"):
            return True
    return False


def polls_radio(P, f, recv, node, spi_funcs):
    """a loop that performs an SPI transaction with the radio on every iteration and has an exit that is not a constant: it waits for the
    radio (TX_DS / MAX_RT / a payload) - bounded by the hardware's retransmit limit, assumption 2 - whatever local name holds the STATUS byte"""
    from ..model import Ctx
    has_exit = not (isinstance(node.test, ast.Constant) and node.test.value) or any(isinstance(x, (ast.Break, ast.Return)) for b in node.body for x in ast.walk(b))
    if not has_exit:
        return False
    ctx = Ctx(P, f, recv)
    # locals that alias a method (`fetch = self._rf24.read`, also inside a tuple assignment)
    alias = {}
    for a in ast.walk(f.node):
        if isinstance(a, ast.Assign):
            for t in a.targets:
                pairs = []
                if isinstance(t, ast.Name):
                    pairs = [(t, a.value)]
                elif isinstance(t, ast.Tuple) and isinstance(a.value, ast.Tuple) and len(t.elts) == len(a.value.elts):
                    pairs = list(zip(t.elts, a.value.elts))
                for tn, tv in pairs:
                    if isinstance(tn, ast.Name) and isinstance(tv, ast.Attribute):
                        alias.setdefault(tn.id, []).append(tv)
    for part in [node.test] + list(node.body):
        for x in ast.walk(part):
            if isinstance(x, ast.Call):
                try:
                    tg = ctx.resolve_call(x, strict=False)
                except AnalysisError:
                    tg = []
                if any(t.kind == "func" and t.func in spi_funcs for t in tg):
                    return True
                if isinstance(x.func, ast.Name) and x.func.id in alias:
                    for tv in alias[x.func.id]:
                        if any(kind == "method" and obj in spi_funcs for kind, obj, _rc in ctx.resolve_attr(tv)):
                            return True
    return False


def classify_while(node, status_field=None):
    src_test = ast.unparse(node.test)
    if status_field and any(isinstance(x, ast.Attribute) and x.attr == status_field for x in ast.walk(node.test)):
        # polls the radio's STATUS: ends when the radio raises TX_DS or MAX_RT, i.e. within (ARC+1) x ARD (hardware, assumption 2)
        return "hardware"
    body_src = [ast.unparse(b) for b in node.body]

    def has_clock(n):
        return any(isinstance(x, ast.Call) and isinstance(x.func, ast.Attribute) and x.func.attr.startswith("monotonic") for x in ast.walk(n))
    if has_clock(node.test):
        return "clock"
    for b in ast.walk(node):
        if isinstance(b, ast.If) and has_clock(b.test) and any(isinstance(x, (ast.Break, ast.Return)) for x in ast.walk(b)):
            return "clock"
    # consumes the RX FIFO: x = <radio>.read(); if x is None: return / break   (the FIFO holds at most 3 payloads and the radio is
    # not listening while update() runs a handler that transmits; assumption 2)
    for b in node.body:
        if isinstance(b, ast.Assign) and isinstance(b.value, ast.Call) and isinstance(b.value.func, ast.Attribute) and b.value.func.attr == "read":
            tgt = b.targets[0].id if isinstance(b.targets[0], ast.Name) else None
            for c in node.body:
                if isinstance(c, ast.If) and isinstance(c.test, ast.Compare) and isinstance(c.test.left, ast.Name) and c.test.left.id == tgt \
                        and isinstance(c.test.ops[0], ast.Is) and isinstance(c.test.comparators[0], ast.Constant) and c.test.comparators[0].value is None \
                        and any(isinstance(x, (ast.Return, ast.Break)) for x in c.body):
                    return "fifo"
    # monotone counter that the test reads, updated at the top level of the body with no `continue` before the update
    names = {x.id for x in ast.walk(node.test) if isinstance(x, ast.Name)} | {ast.unparse(x) for x in ast.walk(node.test) if isinstance(x, ast.Attribute)}
    assigned = {}
    for x in ast.walk(node):
        if isinstance(x, (ast.Assign, ast.AugAssign, ast.AnnAssign)):
            for t in (x.targets if isinstance(x, ast.Assign) else [x.target]):
                for y in ast.walk(t):
                    if isinstance(y, (ast.Name, ast.Attribute)):
                        assigned[ast.unparse(y)] = assigned.get(ast.unparse(y), 0) + 1
    skipped = False
    for b in node.body:
        if isinstance(b, ast.AugAssign) and ast.unparse(b.target) in names and not skipped and assigned.get(ast.unparse(b.target)) == 1:
            tname = ast.unparse(b.target)
            step = b.value.value if isinstance(b.value, ast.Constant) and isinstance(b.value.value, int) else None
            if isinstance(b.op, ast.Sub) and step and step > 0:
                return "counter"
            if isinstance(b.op, ast.Add) and step and step > 0 and any(isinstance(x, ast.BinOp) and isinstance(x.op, ast.RShift) and ast.unparse(x.right) == tname for x in ast.walk(node.test)):
                return "shift-amount"   # `while v >> s: s += k`: a non-negative value shifted ever further right reaches 0
            if isinstance(b.op, ast.RShift) and step and step > 0:
                return "shift"
            if isinstance(b.op, ast.Add) and step and step > 0 and isinstance(node.test, ast.Compare) and len(node.test.ops) == 1:
                # `i < bound` / `i <= bound` / `bound > i` with a bound the loop does not change
                l, op, r = node.test.left, node.test.ops[0], node.test.comparators[0]
                if isinstance(op, (ast.Lt, ast.LtE)) and ast.unparse(l) == tname:
                    bound = r
                elif isinstance(op, (ast.Gt, ast.GtE)) and ast.unparse(r) == tname:
                    bound = l
                else:
                    bound = None
                if bound is not None and not any(ast.unparse(y) in assigned for y in ast.walk(bound) if isinstance(y, (ast.Name, ast.Attribute))) \
                        and not any(isinstance(y, ast.Call) for y in ast.walk(bound)):
                    return "counter-up"
        if isinstance(b, ast.Assign) and len(b.targets) == 1 and ast.unparse(b.targets[0]) in names and isinstance(b.value, ast.BinOp) and isinstance(b.value.op, ast.BitAnd) and not skipped:
            inner = b.value.left
            if isinstance(inner, ast.BinOp) and isinstance(inner.op, ast.LShift):
                return "shift-out"  # mask = (mask << 3) & 0xFFFF: at most 16/3 iterations
        if any(isinstance(x, ast.Continue) for x in ast.walk(b)):
            skipped = True
    return None


def run(ck):
    ck.explanation = (
        "Static analysis. R15.3: is_address_valid is interpreted once with a symbolic 16-bit address with per-bit provenance; the accepted paths "
        "give the grammar: number of digits, the region of each digit test (evaluated over 0..7 from the comparison operators and constants on the "
        "path), the reserved values; compared with docs/topology (0, or 1-4 octal digits each 1..5, plus 0o100/0o10/0o1000). The translator "
        "_pipe_address is interpreted for every address length the validator admits and must not raise. R15.1: update() of the four node classes "
        "(mesh: node id 0 and 5) is interpreted on an arbitrary received payload (RF24.read summarised as 'None or 1..32 unknown bytes') with "
        "_write/_write_to_pipe inlined and path merging; every subscript, struct.pack/unpack, bytes([..]) and explicit raise that is evaluated "
        "is collected even from merged paths and must be discharged by the abstract values and guard facts, else by the frozen table (reason per "
        "entry), else it is a finding. R15.2 (= R05.3/R05.4): both address validations dominate queueing and forwarding. R15.7: over three reads, "
        "the type _net_update() returns stems from the frame last decoded into frame_buf (the mesh layer acts on the pair). R15.4: every loop "
        "reachable from update() is classified (clock-bounded / consumes the RX FIFO / decreasing counter or shifted-out mask / finite iterator).")
    ck.not_decided = ["user callbacks (block_less_callback) are an assumption: they are the user's code"]
    agg = Agg(ck)
    maxd = validator(ck, agg)
    n0 = pipe_address_capacity(ck, agg, maxd)
    n1, sites = escape(ck, agg)
    nnode = net.NetNode(ck, "rf24_network", "RF24Network")
    nnode.merge_funcs = set()
    n2 = c05.receive(ck, agg, nnode)
    n3 = loops(ck, agg)
    n4 = stale_report(ck, agg)
    # "... or make it forward garbage": whatever a node re-transmits (routing, relay, NETWORK_ACK, forwarded mesh frames) leaves through
    # _write_to_pipe - a frame that fits one payload goes out under its own header with its whole message, longer ones in 24-byte steps
    # (shared with C11/R11.6)
    from . import c11
    n5 = c11.fragment_loop(ck, agg, rule="R15.8")
    # ... and under the header it was received with: every forwarded / queued frame is re-packed from the decoded header, so pack() must
    # put back every bit unpack() took (field order, widths, masks: R11.1-R11.5, shared with C11)
    c11.header_rules(ck, agg)
    # the level used to index the pipe-address tables when relaying is what _begin() derived from the current address - afresh on every call,
    # 0..4 (R04.1; a level that accumulates over re-addressing indexes past the 6-byte suffix table inside update())
    from . import c04
    c04.begin_structure(ck, agg, net.NetNode(ck, "rf24_network", "RF24Network"))
    # "... or make it forward garbage": after a failed forward the dead frame is flushed by the next send() because MAX_RT is still
    # latched - no setter the network layer calls in between (listen) may clear it (R03.8, shared with C03)
    from . import c03
    from .radio import Radio
    from ..tables import contract as _ct
    c03.run_setters(Radio(ck), agg, _ct.SETTERS)
    from . import c08
    c08.events_kept(Radio(ck), agg)
    # the master answers an address request once: no request stays pending, or a later frame of any kind (also a discarded one sitting in
    # frame_buf) is served as if it were the request (R16.6, shared with C16)
    from . import c16
    c16.dispatch(ck, agg, c16.master(ck))
    # "... forward garbage / bounded time": send() discards a payload the node gave up on (R02.4, shared with C02), and only the origin's
    # routed write waits for a NETWORK_ACK - a relay never blocks in update() (R13.3, shared with C13)
    from . import link, c13
    link.send_prologue(Radio(ck), agg)
    nn13 = net.NetNode(ck, "rf24_network", "RF24Network")
    nn13.merge_funcs = set()
    c13.write_rules(ck, agg, nn13)
    agg.flush()
    ck.floor("R15.8", "re-transmission scenarios by message length", n5, 30)
    ck.floor("R15.1", "update() analyses", n1, 12)
    ck.floor("R15.1", "raise-capable site evaluations", sites, 40)
    ck.floor("R15.4", "loops reachable from update()", n3, 12)
    ck.floor("R15.7", "_net_update() return paths over three reads", n4, 8)
