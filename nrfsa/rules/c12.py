"""C12 - the frame queue is a bounded, duplicate-free FIFO of private copies."""
import ast
from ..absval import Const, Sym, Bytes, Seq, norm, const_of
from ..interp import Ref, Limits
from ..model import AnalysisError, iter_own_nodes
from .c03 import Agg, value_matches
from . import net

READERS = {"len", "bool"}


def mutators(ck, agg, qf):
    """R12.1 (ownership half): the storage list is changed only by methods of the queue classes, and those are reachable only through the
    queue's own API (enqueue, dequeue, the constructors) - a call-graph rule; *how* each API function changes the list is decided by the
    abstract runs of deq_peek / enqueue_rules / move_ctor, so `pop(0)` vs `del q[0]` vs a helper does not matter"""
    from ..model import reachable
    from .common import attr_mutations, class_funcs
    n = 0
    S = net.structs(ck.prog)
    P = ck.prog
    qcls = S["FrameQueue"]
    api = {"enqueue", "dequeue", "__init__"}
    muts = {}
    for f in P.all_funcs():
        sites = attr_mutations(f.node, qf)
        if not sites:
            continue
        n += len(sites)
        in_queue_cls = f.cls is not None and qcls in f.cls.mro
        agg.add("R12.1", f, "the queue storage is changed only inside the queue classes", in_queue_cls,
                "%s changes the storage list from outside (%s)" % (f.qualname, ", ".join(sorted({w for _n, w in sites}))), sites[0][0])
        if in_queue_cls:
            muts[f] = sites
    agg.add("R12.1", (qcls.module.relpath, qcls.name), "the queue storage has mutators (anchor)", bool(muts), "no function changes `%s`" % qf)
    # every other public method of the queue classes must not reach a mutator
    for cls in (S["FrameQueue"], S["FrameQueueFrag"]):
        for c in cls.mro:
            for fi in class_funcs(c):
                if fi.name in api or (fi.name.startswith("_") and not fi.name.startswith("__")):
                    continue
                n += 1
                reach = {g for g, _r in reachable(P, fi, cls, stop=lambda g, r: g.name in api and g is not fi)}
                bad = sorted({m.qualname for m in muts if (m in reach and m.name not in api) or m is fi})
                agg.add("R12.1", fi, "only enqueue(), dequeue() and the constructors change the queue storage", not bad,
                        "%s can change the storage through %s" % (fi.qualname, ", ".join(bad)))
    return n


def _registry(out):
    """unpacked-field symbols by name, collected from the heap and the trace of one path (so a copy of a copy can be followed)"""
    reg = {}
    seen = set()

    def walk(x, d=0):
        if d > 6 or id(x) in seen:
            return
        seen.add(id(x))
        if isinstance(x, Sym):
            if x.attrs.get("unpack"):
                reg.setdefault(x.name, x)
            return
        if isinstance(x, (tuple, list)):
            for y in x:
                walk(y, d + 1)
        elif isinstance(x, Seq):
            for y in x.items:
                walk(y, d + 1)
    for cell in out.state.heap.values():
        for v in (getattr(cell, "fields", None) or {}).values():
            walk(v)
    for ev in out.trace:
        walk(ev.data)
    return reg


def _src(v, reg=None, depth=6):
    """what a header field value is made of, through unpack(pack()) copies (of copies)"""
    r = net.resolve_unpacked(v, depth=8)
    d = set()
    for x in net.base_deps(r):
        if isinstance(x, tuple) and len(x) == 2 and isinstance(x[0], tuple) and isinstance(x[1], int):
            x = x[0]                                     # one bit of an unpacked field
        if reg is not None and depth and x in reg and norm(r) is not reg[x] and not (isinstance(norm(r), Sym) and norm(r).name == x):
            d |= _src(reg[x], reg, depth - 1)
        else:
            d.add(x)
    if not d and const_of(norm(r)) is not None:
        return frozenset({("const", const_of(norm(r)))})
    return frozenset(d)


def _kept_bits(v, name):
    """how many low bits of the symbol `name` the value v carries in place (a copy through pack()/unpack() keeps the packed width)"""
    from ..absval import BitV, NBITS
    r = norm(net.resolve_unpacked(v, depth=8))
    if isinstance(r, Sym) and r.name == name:
        return NBITS
    if not isinstance(r, BitV):
        return 0
    n = 0
    for i, b in enumerate(r.bits):
        if b == ("s", (name, i), False):
            n += 1
        else:
            break
    return n if all(b == 0 for b in r.bits[n:]) and r.hi == 0 else 0


WIRE_WIDTH = {"from_node": 12, "to_node": 12, "frame_id": 16, "message_type": 8, "reserved": 8}     # TMRh20 header: 12-bit addresses, 16-bit id, two bytes


def enqueue_rules(ck, agg, qf):
    S = net.structs(ck.prog)
    from .c06 import consts
    K = consts(ck)
    cf = net.cache_field(ck.prog)
    n = 0
    from ..interp import State
    # every way a frame enters the storage list: the plain queue, and the reassembling queue for an unfragmented frame and for the
    # LAST fragment that completes the cached message (which stores the *cache*, not the caller's frame)
    scen = [("FrameQueue", None, "frame"), ("FrameQueueFrag", 65, "unfragmented frame"), ("FrameQueueFrag", K["MSG_FRAG_LAST"], "completing LAST fragment")]
    for clsname, typ, what in scen:
      cls = S[clsname]
      f = ck.prog.method(cls, "enqueue")
      nstored = 0
      for mx in range(0, 4):
        for k in range(0, 4):
            st = State()
            q = net.sym_queue(st, ck.prog, clsname, nframes=k, max_size=mx)
            frame = net.sym_frame(st, ck.prog, "frame", {"message_type": typ} if typ is not None else None)
            cache0 = st.heap[q.ident].fields.get(cf) if clsname == "FrameQueueFrag" else None
            outs, it = net.run(ck, f, cls, q, [frame], st)
            n += 1
            for out in outs:
                if out.kind != "return":
                    agg.add("R12.5", f, "enqueue() does not raise", False, "%s: raises %s" % (what, out.value.exc))
                    continue
                apps = [e for e in out.trace if e.kind == "append" and e.data[2] and e.data[2].endswith(qf)]
                stored = bool(apps)
                nstored += stored
                reg = _registry(out) if stored else None
                agg.add("R12.5", f, "enqueue() returns True exactly when the frame was stored", value_matches(out.value, stored), "%s, max=%d len=%d: stored=%r but returns %r" % (what, mx, k, stored, out.value))
                if k >= mx:
                    agg.add("R12.4", f, "a full (or over-full) queue accepts nothing", not stored,
                            "%s, max_queue_size=%d with %d frames queued: the frame is stored (capacity guard only catches len == max)" % (what, mx, k))
                if stored:
                    agg.add("R12.4", f, "the queue never grows beyond max_queue_size", k + 1 <= mx and len(apps) == 1, "%s, max_queue_size=%d: %d frames after enqueue" % (what, mx, k + len(apps)))
                    # R12.2 private copy: nobody outside the storage list keeps a reference to the stored object
                    obj = apps[0].data[1]
                    news = [e.data[1].ident for e in out.trace if e.kind == "new"]
                    cache1 = out.state.heap[q.ident].fields.get(cf) if cache0 is not None else None
                    ok = isinstance(obj, Ref) and obj.ident != frame.ident and (obj.ident in news or (cache0 is not None and isinstance(cache1, Ref) and cache1.ident != obj.ident))
                    agg.add("R12.2", f, "the stored object is private to the queue: not the caller's frame, not the live reassembly cache", ok, "%s: appends %r (caller's frame is %r, cache at exit %r)" % (what, obj, frame, cache1))
                    if ok:
                        hdr = out.state.heap[obj.ident].fields.get("header")
                        fh = out.state.heap[frame.ident].fields.get("header")
                        ch = out.state.heap[cache1.ident].fields.get("header") if isinstance(cache1, Ref) else None
                        agg.add("R12.2", f, "the stored frame has its own header object", isinstance(hdr, Ref) and isinstance(fh, Ref) and hdr.ident != fh.ident and not (isinstance(ch, Ref) and ch.ident == hdr.ident), "%s: header %r shared with the caller or the cache" % (what, hdr))
                        msg = out.state.heap[obj.ident].fields.get("message")
                        # (a handed-over reassembly cache owns its message already)
                        okm = (isinstance(msg, Bytes) and msg.origin is None) or obj.ident not in news
                        agg.add("R12.2", f, "the stored message is a fresh immutable copy", okm, "%s: message %r aliases the caller's buffer" % (what, msg))
                        if typ != K["MSG_FRAG_LAST"]:
                            # the header fields are those of the caller's frame (through pack/unpack)
                            good = True
                            if isinstance(hdr, Ref):
                                for k2, fld in enumerate(net.HDR_FIELDS):
                                    v = out.state.heap[hdr.ident].fields.get(fld)
                                    v0 = st.heap[st.heap[frame.ident].fields["header"].ident].fields[fld]
                                    good = good and _src(v, reg) == _src(v0)
                                    if isinstance(norm(v0), Sym):
                                        kb = _kept_bits(v, norm(v0).name)
                                        agg.add("R12.2", f, "the queued copy keeps the whole %s (%d bits)" % (fld, WIRE_WIDTH[fld]), kb >= WIRE_WIDTH[fld],
                                                "%s: the stored %s keeps only the low %d bits of the caller's value - two frames that differ above that are queued as equal, a later duplicate is not recognised" % (what, fld, kb))
                            agg.add("R12.2", f, "the copy carries the caller's header fields", good, "%s: stored header fields are not those of the caller's frame" % what)
                    # FIFO: appended at the tail
                    lst = out.state.heap[q.ident].fields[qf]
                    items = out.state.heap[lst.ident].items
                    agg.add("R12.1", f, "new frames are stored at the tail", items and isinstance(items[-1], Ref) and items[-1].ident == obj.ident and len(items) == k + 1, "%s: storage after enqueue: %r" % (what, items))
                    # R12.3 (generic, by value): before the append, every stored frame was compared with what is being stored and
                    # found different in origin, frame id or type - whatever code path the append is on
                    hdr = out.state.heap[obj.ident].fields.get("header") if isinstance(obj, Ref) else None
                    if isinstance(hdr, Ref) and k:
                        want = {fl: _src(out.state.heap[hdr.ident].fields.get(fl), reg) for fl in ("from_node", "frame_id", "message_type")}
                        differs = set()
                        for pol, a, b, ev, val in net.eq_atoms(out, None):
                            if ev.seq > apps[0].seq or pol is not False:
                                continue
                            for (x, xv), (y, yv) in (((a, val[0]), (b, val[1])), ((b, val[1]), (a, val[0]))):
                                if x and isinstance(x[0], str) and x[0].startswith("queue[") and x[0].endswith(".header") and x[1] in want and want[x[1]] and _src(yv, reg) == want[x[1]]:
                                    differs.add(x[0])
                        miss = [i for i in range(k) if "queue[%d].header" % i not in differs]
                        agg.add("R12.3", f, "whatever is stored was first found to differ from every stored frame in origin, frame id or type", not miss,
                                "%s with %d frame(s) queued: the stored frame (origin %s, id %s, type %s) is appended without a failed comparison against stored frame(s) %r - a duplicate is queued twice" % (
                                    what, k, *[sorted(want[x]) for x in ("from_node", "frame_id", "message_type")], miss), apps[0].node)
                # R12.3 duplicate atoms
                atoms = net.eq_atoms(out, None)
                if k and k < mx and typ is None:
                    per_elem = {}
                    for pol, a, b, ev, val in atoms:
                        for x, y in ((a, b), (b, a)):
                            if x and y and x[0].startswith("queue[") and y[0] == "frame.header" and x[1] == y[1]:
                                per_elem.setdefault(x[0], {})[x[1]] = pol
                    if not stored:
                        dup = [e for e, d in per_elem.items() if all(d.get(fl) is True for fl in ("from_node", "frame_id", "message_type"))]
                        agg.add("R12.3", f, "a frame is refused as duplicate only if origin, frame id and type all equal a stored frame", bool(dup),
                                "refused with tests %r" % (per_elem,))
                    else:
                        miss = [i for i in range(k) if not any(v is False for v in per_elem.get("queue[%d].header" % i, {}).values())]
                        agg.add("R12.3", f, "a frame is accepted only after differing from every stored frame in origin, frame id or type", not miss,
                                "accepted without a failed comparison against stored frame(s) %r (tests %r)" % (miss, per_elem))
                        used = set()
                        for d in per_elem.values():
                            used |= set(d)
                        agg.add("R12.3", f, "duplicate test compares exactly origin, frame id and type", used <= {"from_node", "frame_id", "message_type"}, "fields compared: %r" % (sorted(used),))
      agg.add("R12.4", f, "some path stores the %s (anchor)" % what, nstored > 0, "no scenario on the capacity grid stores the %s" % what)
    return n


def deq_peek(ck, agg, qf):
    S = net.structs(ck.prog)
    cls = S["FrameQueue"]
    n = 0
    from ..interp import State
    for name in ("dequeue", "peek"):
        f = ck.prog.method(cls, name)
        for k in (0, 1, 3):
            st = State()
            q = net.sym_queue(st, ck.prog, "FrameQueue", nframes=k, max_size=6)
            lst0 = list(st.heap[st.heap[q.ident].fields[qf].ident].items)
            outs, it = net.run(ck, f, cls, q, [], st)
            for out in outs:
                n += 1
                items = out.state.heap[out.state.heap[q.ident].fields[qf].ident].items
                if k == 0:
                    agg.add("R12.1", f, "%s() on an empty queue returns None" % name, out.kind == "return" and isinstance(norm(out.value), Const) and norm(out.value).v is None and not items, "returns %r" % (out.value,))
                    continue
                ok = out.kind == "return" and isinstance(out.value, Ref) and out.value.ident == lst0[0].ident
                agg.add("R12.1", f, "%s() returns the oldest frame" % name, ok, "returns %r, oldest is %r" % (out.value, lst0[0]))
                if name == "dequeue":
                    agg.add("R12.1", f, "dequeue() removes exactly the head, order of the rest kept", [i.ident for i in items] == [i.ident for i in lst0[1:]], "storage after: %r" % (items,))
                else:
                    agg.add("R12.1", f, "peek() removes nothing", [i.ident for i in items] == [i.ident for i in lst0], "storage after: %r" % (items,))
    f = ck.prog.method(cls, "__len__")
    for k in (0, 2):
        st = State()
        q = net.sym_queue(st, ck.prog, "FrameQueue", nframes=k, max_size=6)
        outs, it = net.run(ck, f, cls, q, [], st)
        for out in outs:
            n += 1
            agg.add("R12.1", f, "len() is the number of stored frames", out.kind == "return" and value_matches(out.value, k), "returns %r for %d frames" % (out.value, k))
    return n


def move_ctor(ck, agg, qf):
    """R12.6: FrameQueue(q)/FrameQueueFrag(q) drain q in order, keep max_queue_size; the fragmentation setter swaps on change only"""
    S = net.structs(ck.prog)
    n = 0
    from ..interp import State
    for dst in ("FrameQueue", "FrameQueueFrag"):
      for nfr, mx in ((3, 2), (8, 10), (0, 3), (1, 9)):
        for src in ("FrameQueue", "FrameQueueFrag"):
            st = State()
            q = net.sym_queue(st, ck.prog, src, nframes=nfr, max_size=mx, label="queue")
            lst0 = list(st.heap[st.heap[q.ident].fields[qf].ident].items)
            cls = S[dst]
            new = st.alloc("obj", cls=cls, label="new")
            f = cls.lookup("__init__")[1]
            outs, it = net.run(ck, f, cls, new, [q], st)
            for out in outs:
                n += 1
                if out.kind != "return":
                    agg.add("R12.6", f, "move constructor does not raise", False, "%s(%s) raises %s" % (dst, src, out.value.exc))
                    continue
                nl = out.state.heap[new.ident].fields.get(qf)
                items = out.state.heap[nl.ident].items if isinstance(nl, Ref) else None
                agg.add("R12.6", f, "all frames move to the new queue in order (no capacity filter)", items is not None and [i.ident for i in items if isinstance(i, Ref)] == [i.ident for i in lst0],
                        "%s(%s with %d frames, max %d): new storage holds %s frames" % (dst, src, nfr, mx, len(items) if items is not None else None))
                ol = out.state.heap[out.state.heap[q.ident].fields[qf].ident].items
                agg.add("R12.6", f, "the old queue is left empty", not ol, "old storage %r" % (ol,))
                agg.add("R12.6", f, "max_queue_size is carried over", value_matches(out.state.heap[new.ident].fields.get("max_queue_size"), mx), "new max_queue_size %r" % (out.state.heap[new.ident].fields.get("max_queue_size"),))
                if dst == "FrameQueueFrag":
                    cf = net.cache_field(ck.prog)
                    c = out.state.heap[new.ident].fields.get(cf)
                    agg.add("R12.6", f, "the fragment cache is a fresh frame", isinstance(c, Ref) and c.ident in [e.data[1].ident for e in out.trace if e.kind == "new"], "cache %r" % (c,))
    # default construction
    for dst in ("FrameQueue", "FrameQueueFrag"):
        st = State()
        cls = S[dst]
        new = st.alloc("obj", cls=cls, label="new")
        f = cls.lookup("__init__")[1]
        outs, it = net.run(ck, f, cls, new, [], st)
        for out in outs:
            n += 1
            nl = out.state.heap[new.ident].fields.get(qf)
            ok = out.kind == "return" and isinstance(nl, Ref) and not out.state.heap[nl.ident].items and not out.state.heap[nl.ident].opaque
            agg.add("R12.6", f, "a new queue is empty and has its own storage list", ok, "%s(): storage %r" % (dst, nl))
            mq = out.state.heap[new.ident].fields.get("max_queue_size")
            agg.add("R12.6", f, "default capacity is 6 (documented)", value_matches(mq, 6), "max_queue_size %r" % (mq,))
    # fragmentation setter
    mix = ck.prog.cls("network.mixins", "NetworkMixin")
    fs = ck.prog.method(mix, "fragmentation", "set")
    for cur in (True, False):
      for nfr in (2, 0):
        for new in (True, False, 1, 0):
            st = State()
            node = st.alloc("obj", cls=mix, label="node")
            q = net.sym_queue(st, ck.prog, "FrameQueueFrag" if cur else "FrameQueue", nframes=nfr, max_size=4)
            lst0 = list(st.heap[st.heap[q.ident].fields[qf].ident].items)
            cell = st.heap[node.ident]
            cell.fields["queue"] = q
            # the flag the getter returns
            fg = ck.prog.method(mix, "fragmentation", "get")
            flag = None
            for x in ast.walk(fg.node):
                if isinstance(x, ast.Return) and isinstance(x.value, ast.Attribute):
                    flag = x.value.attr
            if flag is None:
                raise AnalysisError("fragmentation getter does not return a field")
            cell.fields[flag] = Const(cur)
            cell.fields["max_message_length"] = Const(144 if cur else 24)
            outs, it = net.run(ck, fs, mix, node, [Const(new)], st)
            for out in outs:
                n += 1
                if out.kind != "return":
                    agg.add("R12.6", fs, "fragmentation setter does not raise", False, "raises %s" % out.value.exc)
                    continue
                nq = out.state.heap[node.ident].fields.get("queue")
                want_cls = "FrameQueueFrag" if new else "FrameQueue"
                agg.add("R12.6", fs, "queue class follows the fragmentation flag", isinstance(nq, Ref) and nq.cls.name == want_cls, "fragmentation %r -> %r: queue is %r" % (cur, new, nq))
                if isinstance(nq, Ref):
                    items = out.state.heap[out.state.heap[nq.ident].fields[qf].ident].items
                    agg.add("R12.6", fs, "queued frames survive the switch in order", [i.ident for i in items if isinstance(i, Ref)] == [i.ident for i in lst0], "storage %r" % (items,))
                    agg.add("R12.6", fs, "max_queue_size survives the switch", value_matches(out.state.heap[nq.ident].fields.get("max_queue_size"), 4), "max %r" % (out.state.heap[nq.ident].fields.get("max_queue_size"),))
                    if bool(new) == cur:
                        agg.add("R12.6", fs, "no swap when the setting does not change (reassembly cache kept)", nq.ident == q.ident, "queue object replaced although the flag is unchanged")
                agg.add("R12.6", fs, "the flag is updated", value_matches(out.state.heap[node.ident].fields.get(flag), bool(new)), "flag %r" % (out.state.heap[node.ident].fields.get(flag),))
                mm = out.state.heap[node.ident].fields.get("max_message_length")
                agg.add("R12.6", fs, "max_message_length follows (144 / 24)", value_matches(mm, 144 if new else 24), "max_message_length %r" % (mm,))
    return n


def run(ck):
    ck.explanation = (
        "Static analysis of network/structs.py FrameQueue (and the fragmentation setter). R12.1: every syntactic use of the storage list in the "
        "whole package is classified (append only in enqueue/move constructor, pop(0) only in dequeue, [0] only in peek, len/iteration/truthiness), "
        "and dequeue/peek/len are abstractly interpreted on queues of 0..3 symbolic frames (tail-in, head-out => FIFO). R12.2: on every storing path "
        "the appended object is allocated inside enqueue(), has its own header object and an immutable message decoded from frame.pack(). R12.3: "
        "path conditions: a refusal as duplicate requires equality of origin, frame id and type with one stored frame; an acceptance requires a "
        "failed comparison against every stored frame. R12.4/R12.5: enqueue() is interpreted on the grid max_queue_size x queue length in 0..3 "
        "(exact for order comparisons of two integers): stores iff len < max, returns True iff stored. R12.6: move constructors and the "
        "fragmentation setter move all frames in order, keep max_queue_size, swap only on change.")
    ck.not_decided = []
    agg = Agg(ck)
    qf = net.queue_field(ck.prog)
    n1 = mutators(ck, agg, qf)
    n2 = enqueue_rules(ck, agg, qf)
    n3 = deq_peek(ck, agg, qf)
    n4 = move_ctor(ck, agg, qf)
    # "frames leave the queue with the fields and bytes they had when enqueued": the private copy is made through frame.pack() /
    # unpack() - the codec must not clip or alter it (R11.1-R11.8, shared with C11)
    from . import c11
    c11.header_rules(ck, agg)
    # the sibling FrameQueueFrag feeds re-assembled messages into the same storage: its cache discipline (R06.x, shared with C06)
    from . import c06

    class _NoSeq:
        """the sequencing clause R06.2 (C06's known finding) says nothing about the queue's own contract; every other cache rule does"""
        def __init__(self, a):
            self.a = a

        def add(self, rule, *rest, **kw):
            if rule != "R06.2":
                self.a.add(rule, *rest, **kw)

        def __getattr__(self, k):
            return getattr(self.a, k)
    c06._core(ck, _NoSeq(agg))
    agg.flush()
    ck.floor("R12.1", "mutation sites and public methods examined", n1, 5)
    ck.floor("R12.4", "enqueue scenarios on the capacity grid", n2, 16)
    ck.floor("R12.1", "dequeue/peek/len scenarios", n3, 8)
    ck.floor("R12.6", "move/switch scenarios", n4, 14)
