"""C05 - a network message reaches its destination exactly once, intact (the clauses visible in one node's code)."""
import ast
from ..absval import Const, Sym, Bytes, Seq, Lin, norm, const_of, as_lin, lin_add
from ..interp import Ref, Limits, State
from ..model import AnalysisError, reachable
from ..tables import rf24network as T
from .c03 import Agg, value_matches
from . import net, c07
from .c13 import same, eq_test

M = T.CONSTANTS["MAX_FRAG_SIZE"]
MCAST = T.CONSTANTS["NETWORK_MULTICAST_ADDR"]


def frame_size(ck, agg, nn):
    """R05.1: every buffer handed to RF24.send() by the network layer is at most 32 bytes (single-frame branch, symbolic length)"""
    P = ck.prog
    mix = P.cls("network.mixins", "NetworkMixin")
    f = P.method(mix, "_write_to_pipe")
    st, node = nn.fresh(addr=0o1)
    outs = nn.run(f, node, [Const(0o2), Const(5), Const(False)], st, limits=Limits(max_paths=20000, loop_unroll=2, depth=14, concrete_loop=10))
    n = 0
    for out in outs:
        for ev in out.trace:
            if ev.kind == "radio-send" and ev.data[0] == "send":
                n += 1
                buf = ev.data[1]
                if isinstance(buf, Bytes) and any(p[0][0] == "slice" for p in buf.parts):
                    continue  # fragment of a long message: boundaries are decided for concrete lengths by C11/R11.6
                ln = as_lin(norm(buf.length())) if isinstance(buf, Bytes) else None
                ok = ln is not None and nn.last_it.lin_sign(lin_add(Lin({}, T.MAX_FRAME_SIZE), ln, -1), out.state) in (">0", ">=0", "==0")
                agg.add("R05.1", f, "every frame handed to the radio is at most 32 bytes", ok, "frame of length %r may exceed 32 bytes" % (buf.length() if isinstance(buf, Bytes) else buf,), ev.node)
                tags = [p[0] for p in buf.parts] if isinstance(buf, Bytes) else []
                okh = bool(tags) and tags[0][0] == "pack"
                agg.add("R05.1", f, "every frame starts with the packed header", okh, "frame parts %r" % (tags,), ev.node)
    return n


def validate(ck, agg, nn):
    """R05.2: _validate_msg_len regions and the gate in front of _write"""
    P = ck.prog
    mix = P.cls("network.mixins", "NetworkMixin")
    f = P.method(mix, "_validate_msg_len")
    n = 0
    for maxlen, frag in ((144, True), (24, False), (144, False), (50, True)):
        n += 1
        st, node = nn.fresh(fields={"max_message_length": maxlen, net.FN("_frag_enabled"): frag})
        net.set_rng(st, "length", (0, None))
        outs = nn.run(f, node, [Sym("length", "int", rng=(0, None))], st, decide=True)
        trues = []
        for out in outs:
            rng = out.state.extra["symrng"].get("length")
            lo, hi = rng
            if out.kind == "raise":
                agg.add("R05.2", f, "messages longer than max_message_length raise ValueError", out.value.exc == "ValueError" and lo == maxlen + 1 and hi is None,
                        "max=%d frag=%r: raises %s for length in %r" % (maxlen, frag, out.value.exc, rng))
            elif value_matches(out.value, False):
                agg.add("R05.2", f, "False exactly for lengths above 24 with fragmentation off", (not frag) and lo == M + 1 and hi == maxlen, "max=%d frag=%r: False for length in %r" % (maxlen, frag, rng))
            else:
                agg.add("R05.2", f, "the result is a boolean", value_matches(out.value, True), "returns %r" % (out.value,))
                trues.append(rng)
        want_hi = maxlen if frag else min(M, maxlen)
        cover = sorted(trues)
        okc = bool(cover) and cover[0][0] == 0 and cover[-1][1] == want_hi and all(cover[i][1] + 1 == cover[i + 1][0] for i in range(len(cover) - 1))
        agg.add("R05.2", f, "True exactly for the lengths that can be sent as they are", okc, "max=%d frag=%r: True for lengths in %r, expected [0,%d]" % (maxlen, frag, cover, want_hi))
    # the gate: every public sender reaches _write only through the validation, truncating on False
    f_write = P.method(mix, "_write")
    nn.model.opaque[f_write.qualname] = c07.make_summary(nn, agg, "_write")
    nsend = 0
    for clsmod, clsname in net.NODE_CLASSES:
        n2 = net.NetNode(ck, clsmod, clsname)
        n2.model, n2.radio = nn.model, nn.radio
        for nm in ("write", "send", "multicast"):
            hit = n2.cls.lookup(nm)
            if hit is None or hit[0] != "method":
                continue
            fi = hit[1]
            if not any(f_ is f_write for f_, _r in reachable(P, fi, n2.cls)):
                continue
            if clsname.startswith("RF24Mesh") and nm == "send":
                continue  # delegates to write() after the lookup; analysed through write()
            nsend += 1
            st, node = n2.fresh(fields={net.FN("_frag_enabled"): False, "max_message_length": 144})
            names = [x.arg for x in fi.node.args.args][1:]
            anns = {x.arg: (ast.unparse(x.annotation) if x.annotation is not None else "") for x in fi.node.args.args}
            args, msgparam = [], None
            for pn in names:
                ann = anns.get(pn, "")
                if "RF24NetworkFrame" in ann:
                    a = net.sym_frame(st, P, pn)
                    msgparam = ("frame", a)
                    args.append(a)
                elif "RF24NetworkHeader" in ann:
                    args.append(net.sym_header(st, P, pn))
                elif "bytes" in ann or pn == "message":
                    net.set_rng(st, ("len", pn), (0, None))
                    a = Bytes([(("param", pn), Sym(("len", pn), "int", rng=(0, None)))], "byteslike", origin=("param", pn))
                    msgparam = ("bytes", pn)
                    args.append(a)
                else:
                    net.set_rng(st, pn, (0, 65535))
                    args.append(Sym(pn, "int", rng=(0, 65535)))
            outs = n2.run(fi, node, args, st, limits=Limits(max_paths=20000, loop_unroll=2, depth=14, concrete_loop=10))
            label = "%s.%s()" % (clsname, nm)
            for out in outs:
                wr = [e for e in out.trace if e.kind == "summary" and e.data[0] == "_write"]
                if not wr:
                    continue
                val = [e for e in out.trace if e.kind == "enter" and e.data == f.qualname and e.seq < wr[0].seq]
                agg.add("R05.2", fi, "the message length is validated before anything is transmitted", bool(val), "%s reaches _write() without _validate_msg_len()" % label, wr[0].node)
                # what is transmitted is never longer than the node can send
                fb = out.state.heap[node.ident].fields.get("frame_buf")
                # the summary havocs frame_buf; look at the value stored before the transmission
                msg = wr[0].data[3].get("message")
                ln = as_lin(norm(msg.length())) if isinstance(msg, Bytes) else None
                ok = ln is not None and n2.last_it.lin_sign(lin_add(Lin({}, M), ln, -1), out.state) in (">0", ">=0", "==0")
                agg.add("R05.2", fi, "with fragmentation off at most 24 bytes are transmitted (longer messages are cut to the first 24)", ok,
                        "%s transmits a message of length %r with fragmentation disabled" % (label, msg.length() if isinstance(msg, Bytes) else msg), wr[0].node)
                if isinstance(msg, Bytes):
                    tags = [p[0] for p in msg.parts]
                    okp = len(tags) == 1 and (tags[0][0] in ("param", "sym") or (tags[0][0] == "slice" and tags[0][2] == 0))
                    agg.add("R05.2", fi, "the transmitted bytes are the caller's message or its prefix", okp, "%s transmits %r" % (label, tags))
                # R06.9: the message travels under a frame id of its own: the header in frame_buf is one constructed for this message
                # (its constructor draws the next id) or the one the caller handed in - never whatever header the shared buffer last held
                # (a received frame's, or the previous message's): the receiver tells the fragments of two messages apart by (origin, id)
                href = wr[0].data[3].get("header_ref")
                fresh = {e.data[1].ident for e in out.trace if e.kind == "new" and e.seq < wr[0].seq and e.data[0].endswith(":RF24NetworkHeader")}
                given = set()
                for a_ in args:
                    if isinstance(a_, Ref) and a_.kind == "obj":
                        given.add(a_.ident)
                        hv = st.heap[a_.ident].fields.get("header") if a_.ident in st.heap else None
                        if isinstance(hv, Ref):
                            given.add(hv.ident)
                agg.add("R06.9", fi, "each message is sent under a frame id of its own (a header constructed for it, or the caller's)", isinstance(href, Ref) and href.ident in (fresh | given),
                        "%s transmits with the header object the frame buffer happened to hold: the frame id (and `reserved`) of the previous or of a received frame is re-used, "
                        "so a receiver cannot tell the fragments of two consecutive messages apart" % label, wr[0].node)
                # R05.9: whatever header the caller hands in, the frame leaves stamped with this node's own address as its origin - the
                # destination's application and the NETWORK_ACK of the last hop go by it
                hd, own = wr[0].data[3].get("header") or {}, wr[0].data[3].get("own_addr")
                okf = own is not None and hd.get("from_node") is not None and norm(hd["from_node"]).key() == norm(own).key()
                agg.add("R05.9", fi, "a message leaves stamped with the sender's own address as origin, whatever the caller's header held", okf,
                        "%s transmits with from_node = %r while the node's address is %r" % (label, hd.get("from_node"), own), wr[0].node)
    nn.model.opaque.pop(f_write.qualname, None)
    return n + nsend


def receive(ck, agg, nn):
    """R05.3-R05.5: whose queue a received frame goes to"""
    P = ck.prog
    mix = P.cls("network.mixins", "NetworkMixin")
    f = P.method(mix, "_net_update")
    f_write = P.method(mix, "_write")
    nn.model.opaque[f_write.qualname] = c07.make_summary(nn, agg, "_write")
    S = net.structs(P)
    for qc in ("FrameQueue", "FrameQueueFrag"):
        nn.model.opaque[P.method(S[qc], "enqueue").qualname] = net.sum_enqueue
    n = 0
    addr_field = None
    g = P.method(mix, "node_address", "get")
    for x in ast.walk(g.node):
        if isinstance(x, ast.Return) and isinstance(x.value, ast.Attribute):
            addr_field = x.value.attr
    if addr_field is None:
        raise AnalysisError("node_address getter does not return a field")
    for mtype in (0, 1, 64, 65, 127):
        for am in (True, False):
            n += 1
            st, node = nn.fresh(fields={"allow_multicast": am, "ret_sys_msg": False})
            addr = st.heap[node.ident].fields[net.FN("_addr")]
            outs = nn.run(f, node, [], st, limits=Limits(max_paths=40000, loop_unroll=2, depth=14, concrete_loop=10))
            for out in outs:
                if out.kind != "return":
                    continue
                reads = [e for e in out.trace if e.kind == "radio-read" and e.data[0] == "payload"]
                enq = [e for e in out.trace if e.kind == "enqueue"]
                fwd = [e for e in out.trace if e.kind == "summary" and e.data[0] == "_write"]
                for k, rd in enumerate(reads):
                    nxt = reads[k + 1].seq if k + 1 < len(reads) else 10 ** 12
                    e_here = [e for e in enq if rd.seq < e.seq < nxt]
                    f_here = [e for e in fwd if rd.seq < e.seq < nxt]
                    # header fields of this frame: the values unpacked right after this read
                    ups = [e for e in out.trace if e.kind == "unpack" and rd.seq < e.seq < nxt]
                    if not ups:
                        agg.add("R05.3", f, "a frame shorter than a header is neither queued nor forwarded", not e_here and not f_here, "queued=%d forwarded=%d" % (len(e_here), len(f_here)))
                        continue
                    tests = [e for e in out.trace if e.kind in ("cond", "known") and rd.seq < e.seq < nxt and isinstance(e.node, ast.Compare) and isinstance(e.data[1], tuple)]

                    def pol_of(pred):
                        r = None
                        for e in tests:
                            if pred(e):
                                r = e.data[0] if isinstance(e.node.ops[0], ast.Eq) else ((not e.data[0]) if isinstance(e.node.ops[0], ast.NotEq) else None)
                        return r

                    def is_to(x):
                        x = norm(x)
                        return isinstance(x, Sym) and x.attrs.get("unpack") and x.attrs["unpack"][1] == 1
                    def is_addr(x):
                        x = norm(x)
                        return isinstance(x, Sym) and isinstance(x.name, str) and x.name.split("#")[0] == "node._addr"
                    def names_addr(e):
                        # the operand reads the attribute that the node_address getter returns (its value may already be refined to a constant)
                        return any(isinstance(x, ast.Attribute) and x.attr == addr_field and isinstance(x.value, ast.Name) and x.value.id == "self"
                                   for x in [e.node.left] + list(e.node.comparators))
                    to_self = pol_of(lambda e: any(is_to(x) for x in e.data[1]) and (any(is_addr(x) for x in e.data[1]) or names_addr(e)))
                    to_mc = pol_of(lambda e: any(is_to(x) for x in e.data[1]) and any(const_of(norm(x)) == MCAST for x in e.data[1]))
                    if e_here:
                        agg.add("R05.3", f, "a frame is queued only if it is addressed to this node or to the multicast address", to_self is True or to_mc is True,
                                "a received frame is queued on a path that establishes neither to_node == own address nor to_node == 0o100", e_here[0].node)
                        agg.add("R05.5", f, "a received frame is queued at most once", len(e_here) == 1, "%d enqueue calls for one frame" % len(e_here), e_here[0].node)
                    if f_here and to_self is False and to_mc is not True:
                        agg.add("R05.4", f, "a forwarded frame is not handed to the forwarding node's own application", not e_here, "frame for another node is forwarded and queued", f_here[0].node)
                    vv = [e for e in out.trace if e.kind == "cond" and rd.seq < e.seq < nxt and isinstance(norm(e.data[1]) if not isinstance(e.data[1], tuple) else None, Sym)
                          and isinstance(norm(e.data[1]).name, tuple) and norm(e.data[1]).name[0] == "valid"]
                    bad_addr = any(e.data[0] is False for e in vv)
                    if bad_addr:
                        agg.add("R05.3", f, "a frame with an invalid origin or destination is neither queued nor forwarded", not e_here and not f_here, "queued=%d forwarded=%d" % (len(e_here), len(f_here)))
                    if len([e for e in vv if e.data[0] is True]) >= 2 and not bad_addr:
                        # completeness: a frame whose header decoded and whose two addresses are valid reaches the dispatch decision (is it
                        # for this node?) - nothing else may drop it first (a NETWORK_ACK, a reply or a relayed frame carries whatever
                        # origin its sender put there, this node's own address included)
                        agg.add("R05.6", f, "a well-formed frame (header decoded, both addresses valid) is never dropped before it is dispatched", to_self is not None or bool(e_here) or bool(f_here),
                                "a received frame with a valid origin and destination is discarded without being compared with the node's address; tests on the path: %s" % sorted({ast.unparse(e.node)[:60] for e in tests}))
                    if e_here or f_here:
                        agg.add("R05.3", f, "both addresses are validated before a frame is queued or forwarded", len([e for e in vv if e.data[0] is True]) >= 2,
                                "only %d address validations precede" % len(vv), (e_here + f_here)[0].node)
    nn.model.opaque.pop(f_write.qualname, None)
    return n


def handed_to_queue(ck, agg):
    """R05.7: every user frame and every fragment that is addressed to this node is handed to the queue - exactly once, whatever the queue
    holds.  Whether there is room, whether it is a duplicate and what to do with a fragment is the queue's decision (the reassembling
    queue must see every fragment even while the delivery list is full: it caches them)"""
    from . import c06
    from ..tables import rf24network as T_
    P = ck.prog
    nn = net.NetNode(ck, "rf24_network", "RF24Network")
    mix = P.cls("network.mixins", "NetworkMixin")
    f = P.method(mix, "_handle_frame_for_this_node")
    nn.model.opaque[P.method(mix, "_write").qualname] = c07.make_summary(nn, agg, "_write")
    S = net.structs(P)
    for qc in ("FrameQueue", "FrameQueueFrag"):
        nn.model.opaque[P.method(S[qc], "enqueue").qualname] = net.sum_enqueue
    K = c06.consts(ck)
    n = 0
    for mtype in (0, 1, 65, 127, K["MSG_FRAG_FIRST"], K["MSG_FRAG_MORE"], K["MSG_FRAG_LAST"]):
        for qname in ("FrameQueueFrag", "FrameQueue"):
            n += 1
            st, node = nn.fresh(frame_pins={"message_type": mtype}, fields={"ret_sys_msg": False}, queue=qname)
            for out in nn.run(f, node, net.handler_args(f, mtype), st):
                if out.kind != "return":
                    continue
                enq = [e for e in out.trace if e.kind == "enqueue"]
                agg.add("R05.7", f, "a user frame / fragment for this node is handed to the queue exactly once, whatever the queue holds", len(enq) == 1,
                        "type %d with a %s: %d enqueue() calls on a path [tests: %s]" % (mtype, qname, len(enq), sorted({ast.unparse(e.node)[:50] for e in out.trace if e.kind == "cond" and e.func is f})))
    return n


def run(ck):
    ck.explanation = (
        "Static analysis of the clauses of C05 visible inside one node. R05.1: every buffer passed to RF24.send() by _write_to_pipe is, by the "
        "linear length algebra and the path's guard facts, at most 32 bytes and begins with the packed header (fragment branch: C11/R11.6). R05.2: "
        "_validate_msg_len is interpreted with symbolic length: its raise / False / True regions are exactly the documented ones; every public "
        "sender of the four node classes reaches _write only after the validation and, with fragmentation off, with at most the first 24 bytes of "
        "the caller's message. R05.3-R05.5: _net_update is interpreted with a symbolic received frame; a frame is queued only on paths whose "
        "condition establishes to_node == own address or == 0o100, after both address validations, at most once; frames for other nodes are "
        "forwarded without being queued; short or invalid frames are dropped.")
    ck.not_decided = ["delivery exactly once over a topology, bystanders' queues, the value returned at the origin - several nodes and a medium are needed"]
    agg = Agg(ck)
    nn = net.NetNode(ck, "rf24_network", "RF24Network")
    nn.merge_funcs = set()
    n1 = frame_size(ck, agg, nn)
    n2 = validate(ck, agg, nn)
    n3 = receive(ck, agg, nn)
    # 'reassembled transparently': the reassembly rules of C06 (identity, sequence, completeness, copies)
    from . import c06, c13
    c06.run_core(ck, agg)
    # network-internal NETWORK_ACK frames are returned to the waiting writer, never handed to the application (= R13.4)
    nn2 = net.NetNode(ck, "rf24_network", "RF24Network")
    nn2.merge_funcs = set()
    c13.receive_rule(ck, agg, nn2)
    # "write()/send() returns True for a delivered message": which types make the origin wait for a NETWORK_ACK must be exactly the types
    # for which the last hop sends one (one predicate, R13.1: 65..191, the fragment types included)
    c13.ack_type_region(ck, agg)
    # "identical bytes / reassembled transparently": the sender's fragment slices partition the message (R06.7 = R11.6)
    from . import c11
    c11.fragment_loop(ck, agg, rule="R06.7")
    # "and to no other node's queue": after every transmission a node's pipe 0 is back on its *own* address (the driver remembers it in a
    # buffer of its own), otherwise it overhears - and processes a second time - frames sent to the node it last transmitted to (C08's rules)
    from . import c08
    from .radio import Radio
    c08.run_for(ck, Radio(ck), agg)
    # delivery "to the destination and to no other node" rests on what _begin() derives from an address (R04.1: masks, parent, parent
    # pipe - also when _begin() runs a second time on a node that already has an address: its fields start from arbitrary values)
    from . import c04
    nn3 = net.NetNode(ck, "rf24_network", "RF24Network")
    nn3.merge_funcs = set()
    c04.begin_structure(ck, agg, nn3)
    # ... and on the next-hop computation using exactly those fields (R04.5: descendants through the child on their branch, everything
    # else to the parent) - a next hop computed from a field that public setters overwrite (multicast_level) lands in the wrong queue
    c04.next_hop(ck, agg, nn3)
    c04.child_window(ck, agg, nn3)
    # "to no other node's queue": a frame whose transmission failed is flushed by the next send() because MAX_RT is still latched - the
    # setters the network layer calls after every transmission must not clear it (R03.8, shared with C03)
    from . import c03
    from ..tables import contract as _ct
    c03.run_setters(Radio(ck), agg, _ct.SETTERS)
    # "identical bytes": the frame codec that every received frame passes through (R11.1-R11.8, shared with C11)
    c11.header_rules(ck, agg)
    handed_to_queue(ck, agg)
    # "delivered exactly once": the destination's queue refuses a frame only as a duplicate of (origin, id, type) or when full (R12.2-R12.5,
    # shared with C12); "over any tree": next hops follow the tree (R04.5) and re-assigning node_address re-opens the pipes (R04.8, shared with C04)
    from . import c12, c04
    c12.enqueue_rules(ck, agg, net.queue_field(ck.prog))
    c04.next_hop(ck, agg, net.NetNode(ck, "rf24_network", "RF24Network"))
    c04.child_window(ck, agg, net.NetNode(ck, "rf24_network", "RF24Network"))
    c04.reconfigure(ck, agg)
    agg.flush()
    ck.floor("R05.1", "single-frame transmissions", n1, 1)
    ck.floor("R05.2", "validation scenarios and public senders", n2, 8)
    ck.floor("R05.3", "receive scenarios", n3, 10)
