"""C03 - setters program the documented encoding; getters agree.

Per-method inductive invariant 'every shadow equals its register, reserved bits
are 0, fields are legal': each configuration method is analysed from the
symbolic invariant state for a table of argument scenarios (documented domain,
boundaries and beyond); the registers and shadows at every exit are compared
bit-by-bit (with per-bit provenance of the untouched bits) with the reference
model in tables/contract.py."""
from ..absval import Const, norm, const_of, as_bitv, Bytes, Seq, BitV, Lin, Sym, Unknown
from ..interp import Ref, Raised
from ..tables import regmap, contract
from .radio import Radio, regname, bits8, term_eq, fmt_bits, regwrites, lift, subst_bits
from ..model import AnalysisError, iter_own_nodes
import ast

ONE_BYTE = [r for r in regmap.CONFIG_REGS if regmap.REGS[r][1] == 1]


class Agg:
    """aggregates scenario verdicts into one obligation per (rule, function, construct)"""

    def __init__(self, ck):
        self.ck, self.d = ck, {}
        self.flushed = False
        if not hasattr(ck, "aggs"):
            ck.aggs = []
        ck.aggs.append(self)

    def add(self, rule, func, construct, ok, detail, node=None):
        k = (rule, func, construct)
        e = self.d.setdefault(k, {"ok": True, "n": 0, "fails": [], "node": node})
        e["n"] += 1
        if not ok:
            e["ok"] = False
            if len(e["fails"]) < 4:
                e["fails"].append(detail)
            if node is not None:
                e["node"] = node

    def flush(self):
        if self.flushed:
            return
        self.flushed = True
        for (rule, func, construct), e in self.d.items():
            det = ("%d scenario(s) agree with the reference model" % e["n"]) if e["ok"] else "; ".join(e["fails"])
            self.ck.ob(rule, func, construct, e["ok"], det, node=e["node"])


def check_exit(radio, agg, func, label, out, st0_regs, expected_regs, owned_only=None):
    """registers and shadows at a normal exit vs expectation. expected_regs: {r: [8 terms]}"""
    st = out.state
    for ev, rc, v, rexpr in regwrites(out):
        if rc is None:
            agg.add("R03.6", func, "register address of write `%s`" % _src(ev.node), False,
                    "%s: register address not a constant on this path: %r" % (label, rexpr), ev.node)
            continue
        ok, det = radio.legal_write(rc, v)
        agg.add("R03.1", func, "value written to %s" % regname(rc), ok, "%s: %s" % (label, det), ev.node)
    for r in ONE_BYTE:
        fin = st.extra["regs"].get(r, radio.inv.extra["regs"][r])
        exp = expected_regs.get(r, radio.old(r)) if expected_regs is not None else None
        fb = bits8(fin)
        facts = st.extra.get("bitfacts")
        if facts and fb is not None and exp is not None:
            fb, exp = subst_bits(fb, facts), subst_bits(exp, facts)
        if exp is not None:
            if fb is None:
                # offset-coded register (address width): compare as constants
                c = const_of(norm(fin))
                eb = exp
                if r in expected_regs:
                    ec = sum((b if b in (0, 1) else 0) << i for i, b in enumerate(eb))
                    agg.add("R03.5", func, "%s after the call" % regname(r), c == ec, "%s: register holds %r, documented %d" % (label, fin, ec))
                else:
                    ok = norm(fin).key() == norm(radio.inv.extra["regs"][r]).key()
                    agg.add("R03.2", func, "%s not owned by this attribute" % regname(r), ok, "%s: register changed to %r" % (label, fin))
                continue
            ok = len(fb) == 8 and all(term_eq(x, y) for x, y in zip(fb, exp))
            rule = "R03.5" if r in expected_regs else "R03.2"
            what = ("%s after the call" if r in expected_regs else "%s not owned by this attribute") % regname(r)
            agg.add(rule, func, what, ok, "%s: register holds %s, documented %s" % (label, fmt_bits(fb), fmt_bits(exp)))
        ok, det = radio.shadow_matches(st, r)
        agg.add("R03.3", func, "shadow of %s at exit" % regname(r), ok, "%s: %s" % (label, det))
    for r in (0x0A, 0x0B, 0x10):
        ok, det = radio.shadow_matches(st, r)
        agg.add("R03.3", func, "shadow of %s at exit" % regname(r), ok, "%s: %s" % (label, det))


def check_raise(radio, agg, func, label, out):
    """exception atomicity: nothing reached the radio, shadows still equal the registers"""
    st = out.state
    wrote = [e for e in out.trace if e.kind in ("regwrite", "regwriten", "cmd", "cmdwriten")]
    agg.add("R03.7", func, "no SPI write before the documented exception", not wrote,
            "%s: %d SPI write(s) precede the raise of %s" % (label, len(wrote), out.value.exc), wrote[0].node if wrote else None)
    for r in regmap.CONFIG_REGS:
        ok, det = radio.shadow_matches(st, r)
        agg.add("R03.7", func, "shadow of %s when the call raises" % regname(r), ok, "%s: %s" % (label, det))


def _src(node):
    import ast
    try:
        return ast.unparse(node)[:70]
    except Exception:
        return "?"


def run_setters(radio, agg, table):
    n = 0
    for name, (kind, gen) in table.items():
        func = radio.setter(name, kind)
        for label, args, expect in gen():
            n += 1
            st = radio.fresh()
            outs = radio.run(func, args, st)
            exp = expect(radio.old)
            if not outs:
                agg.add("R03.4", func, "terminates", False, "%s: no complete path (loop bound)" % label)
                continue
            for out in outs:
                # R03.8: a configuration setter leaves the latched events alone.  send() decides from the cached MAX_RT whether a failed
                # payload is still in the TX FIFO and must be flushed; a setter that clears MAX_RT on the way (the network layer sets
                # `listen = True` after every transmission) lets the dead payload go out in front of the next one
                from .radio import regwrites as _rw
                clr = [x for x in _rw(out) if x[1] == 7 and (const_of(norm(x[2])) is None or const_of(norm(x[2])) & 0x10)]
                agg.add("R03.8", func, "a configuration setter never clears the MAX_RT event (STATUS is written only by write(), resend(), read(), clear_status_flags())", not clr,
                        "%s: writes %r to STATUS - the failed payload that send() would flush on seeing MAX_RT stays first in the TX FIFO" % (label, clr[0][2] if clr else None), clr[0][0].node if clr else None)
                if "raise" in exp:
                    ok = out.kind == "raise" and out.value.exc == exp["raise"]
                    agg.add("R03.4", func, "out-of-domain input is rejected with %s" % exp["raise"], ok,
                            "%s: documented %s, analysed path %s" % (label, exp["raise"], "returns normally" if out.kind == "return" else "raises " + out.value.exc),
                            getattr(out.value, "node", None) if out.kind == "raise" else None)
                    if out.kind == "raise":
                        check_raise(radio, agg, func, label, out)
                    else:
                        check_exit(radio, agg, func, label, out, None, None)
                else:
                    ok = out.kind == "return"
                    agg.add("R03.4", func, "in-domain / clamped input is accepted", ok,
                            "%s: documented to be accepted, analysed path raises %s" % (label, out.value.exc if out.kind == "raise" else ""),
                            getattr(out.value, "node", None) if out.kind == "raise" else None)
                    if ok:
                        check_exit(radio, agg, func, label, out, None, exp["regs"])
                    else:
                        check_raise(radio, agg, func, label, out)
    return n


def value_matches(v, exp):
    v = norm(v)
    if isinstance(exp, tuple):
        if isinstance(v, Seq) and len(v.items) == len(exp):
            return all(value_matches(a, b) for a, b in zip(v.items, exp))
        return False
    c = const_of(v)
    if c is None:
        return False
    if isinstance(exp, bool):
        return bool(c) == exp and c in (0, 1, True, False)
    return c == exp


def run_getters(radio, agg, table):
    n = 0
    for name, (kind, gen) in table.items():
        func = radio.getter(name, kind)
        for pins, args, exp in gen():
            n += 1
            label = "%s(%s) with %s" % (name, ",".join(map(repr, args)), ", ".join("%s=0x%02X" % (regname(r), v) for r, v in pins.items()))
            st = radio.fresh(pins)
            regs0 = dict(st.extra["regs"])
            outs = radio.run(func, args, st)
            for out in outs:
                if isinstance(exp, tuple) and exp and exp[0] == "raise":
                    ok = out.kind == "raise" and out.value.exc == exp[1]
                    agg.add("R03.4", func, "out-of-range index is rejected with %s" % exp[1], ok,
                            "%s: documented %s, analysed path %s" % (label, exp[1], "returns %r" % (out.value,) if out.kind == "return" else "raises " + out.value.exc))
                    if out.kind == "raise":
                        check_raise(radio, agg, func, label, out)
                    continue
                if out.kind != "return":
                    agg.add("R03.5", func, "getter returns", False, "%s: raises %s" % (label, out.value.exc), out.value.node)
                    continue
                ok = value_matches(out.value, exp)
                agg.add("R03.5", func, "decoded return value", ok, "%s: returns %r, documented %r" % (label, out.value, exp))
                wr = [e for e in out.trace if e.kind in ("regwrite", "regwriten", "cmdwriten")]
                agg.add("R03.2", func, "getter does not write registers", not wr, "%s: writes %d register(s)" % (label, len(wr)), wr[0].node if wr else None)
                for r in regmap.CONFIG_REGS:
                    ok, det = radio.shadow_matches(out.state, r)
                    agg.add("R03.3", func, "shadow of %s at exit" % regname(r), ok, "%s: %s" % (label, det))
    return n


# ---- pipes, listen, carrier wave: generic invariant preservation ---------------
ADDRS = [b"1Node", b"\x01\x02\x03", b"A", b"\xe7\xe7\xe7\xe7\xe7", bytearray(b"2Node")]


def run_pipes(radio, agg):
    n = 0
    f_open = radio.prog.method(radio.cls, "open_rx_pipe")
    for p in contract.PIPES_OK + contract.PIPES_BAD:
        for addr in ADDRS + [b"", b"123456"]:
            n += 1
            label = "open_rx_pipe(%r,%r)" % (p, bytes(addr))
            st = radio.fresh()
            outs = radio.run(f_open, [p, addr], st)
            for out in outs:
                if p in contract.PIPES_BAD or not addr:
                    exc = "IndexError" if p in contract.PIPES_BAD else "ValueError"
                    ok = out.kind == "raise" and out.value.exc == exc
                    agg.add("R03.4", f_open, "bad pipe number / empty address is rejected", ok,
                            "%s: documented %s, analysed path %s" % (label, exc, out.kind if out.kind == "return" else out.value.exc))
                    if out.kind == "raise":
                        check_raise(radio, agg, f_open, label, out)
                    continue
                if out.kind == "raise":
                    # an exception on a documented-valid pipe: registers and shadows must still agree
                    check_raise(radio, agg, f_open, label, out)
                    continue
                exp = {contract.EN_RXADDR: contract.put(radio.old(contract.EN_RXADDR), 1 << p, 1 << p)}
                if p >= 2:
                    exp[0x0A + p] = contract.const_bits(addr[0])
                check_exit(radio, agg, f_open, label, out, None, exp)
                if p < 2:
                    reg = out.state.extra["regs"].get(0x0A + p)
                    got = radio.bytes_of(out.state, reg)
                    want = tuple(Const(b).key() for b in bytes(addr)[:5])
                    agg.add("R03.5", f_open, "%s after the call" % regname(0x0A + p), got == want, "%s: register bytes %s" % (label, got))
    f_tx = radio.prog.method(radio.cls, "open_tx_pipe")
    for addr in ADDRS + [b"123456"]:
        for aa in (0x3F, 0x3E, 0x02, 0x00):
            n += 1
            label = "open_tx_pipe(%r) EN_AA=0x%02X" % (bytes(addr), aa)
            st = radio.fresh({contract.EN_AA: aa})
            outs = radio.run(f_tx, [addr], st)
            for out in outs:
                if out.kind != "return":
                    check_raise(radio, agg, f_tx, label, out)
                    continue
                check_exit(radio, agg, f_tx, label, out, None, {contract.EN_AA: contract.const_bits(aa)})
                if not aa & 1:
                    # without auto-ack on pipe 0 the pipe-0 RX address does not belong to open_tx_pipe()
                    cur0 = out.state.extra["regs"].get(0x0A)
                    same0 = cur0 is None or (hasattr(cur0, "key") and cur0.key() == radio.inv.extra["regs"][0x0A].key())
                    agg.add("R03.2", f_tx, "RX_ADDR_P0 is not owned by open_tx_pipe() unless pipe 0 auto-acknowledges", same0, "%s: RX_ADDR_P0 becomes %r" % (label, cur0))
                got = radio.bytes_of(out.state, out.state.extra["regs"].get(0x10))
                want = tuple(Const(b).key() for b in bytes(addr)[:5])
                agg.add("R03.5", f_tx, "TX_ADDR after the call", got == want, "%s: register bytes %s" % (label, got))
    f_listen = radio.prog.method(radio.cls, "listen", "set")
    p0f = radio.user_pipe0_field()
    for val in (True, False, 1, 0, 2):
        for p0 in (None, b"1Node", b"abc", bytearray(b"\xe7" * 5)):
            n += 1
            label = "listen=%r (user pipe-0 address %r)" % (val, p0)
            st = radio.fresh()
            st.heap[radio.ref.ident].fields[p0f] = lift(st, p0)
            outs = radio.run(f_listen, [val], st)
            for out in outs:
                if out.kind != "return":
                    agg.add("R03.4", f_listen, "role change never raises", False, "%s raises %s" % (label, out.value.exc))
                    continue
                fin = out.state.extra["regs"].get(0, None)
                exp = contract.put(radio.old(0), 0x03, 2 | (1 if val else 0))
                fb = bits8(fin) if fin is not None else None
                agg.add("R03.5", f_listen, "CONFIG after the call", fb is not None and all(term_eq(x, y) for x, y in zip(fb, exp)),
                        "%s: CONFIG holds %s, documented %s" % (label, fmt_bits(fb) if fb else fin, fmt_bits(exp)))
                # EN_RXADDR: only bit 0 may change
                fin2 = out.state.extra["regs"].get(2, radio.inv.extra["regs"][2])
                fb2, ob2 = bits8(fin2), radio.old(2)
                agg.add("R03.2", f_listen, "EN_RXADDR bits 1-5 preserved", fb2 is not None and all(term_eq(fb2[i], ob2[i]) for i in range(1, 8)),
                        "%s: EN_RXADDR holds %s" % (label, fmt_bits(fb2) if fb2 else fin2))
                for r in ONE_BYTE:
                    if r in (0, 2):
                        continue
                    f = out.state.extra["regs"].get(r, radio.inv.extra["regs"][r])
                    agg.add("R03.2", f_listen, "%s not owned by this attribute" % regname(r), norm(f).key() == norm(radio.inv.extra["regs"][r]).key(),
                            "%s: %s changed to %r" % (label, regname(r), f))
                for ev, rc, v, rexpr in regwrites(out):
                    if rc is not None:
                        ok, det = radio.legal_write(rc, v)
                        agg.add("R03.1", f_listen, "value written to %s" % regname(rc), ok, "%s: %s" % (label, det), ev.node)
                for r in regmap.CONFIG_REGS:
                    ok, det = radio.shadow_matches(out.state, r)
                    agg.add("R03.3", f_listen, "shadow of %s at exit" % regname(r), ok, "%s: %s" % (label, det))
    return n


def run_carrier(radio, agg):
    """start/stop_carrier_wave: RF_SETUP bits 7 and 4, CONFIG role bits; the four raw writes on
    non-plus radios are the documented exception to 'shadow == register'"""
    n = 0
    f_start = radio.prog.method(radio.cls, "start_carrier_wave")
    f_stop = radio.prog.method(radio.cls, "stop_carrier_wave")
    plus_field = None
    g = radio.prog.method(radio.cls, "is_plus_variant", "get")
    import ast
    for node in ast.walk(g.node):
        if isinstance(node, ast.Return) and isinstance(node.value, ast.Attribute):
            plus_field = node.value.attr
    if plus_field is None:
        raise AnalysisError("is_plus_variant getter does not return a field")
    for plus in (True, False):
        n += 1
        label = "start_carrier_wave() on %s radio" % ("plus" if plus else "non-plus")
        st = radio.fresh(fields={plus_field: Const(plus)})
        outs = radio.run(f_start, [], st)
        for out in outs:
            if out.kind != "return":
                agg.add("R03.4", f_start, "never raises", False, "%s raises %s" % (label, out.value.exc))
                continue
            raw = {}
            for ev, rc, v, rexpr in regwrites(out):
                if rc is None:
                    agg.add("R03.6", f_start, "register address constant", False, label, ev.node)
                    continue
                ok, det = radio.legal_write(rc, v)
                agg.add("R03.1", f_start, "value written to %s" % regname(rc), ok, "%s: %s" % (label, det), ev.node)
            fin = out.state.extra["regs"]
            rf = bits8(fin.get(6))
            exp = contract.put(radio.old(6), 0x90, 0x90)
            agg.add("R03.5", f_start, "RF_SETUP after the call", rf is not None and all(term_eq(a, b) for a, b in zip(rf, exp)),
                    "%s: RF_SETUP holds %s, documented %s" % (label, fmt_bits(rf) if rf else fin.get(6), fmt_bits(exp)))
            ok, det = radio.shadow_matches(out.state, 6)
            agg.add("R03.3", f_start, "shadow of RF_SETUP at exit", ok, "%s: %s" % (label, det))
            for r in ONE_BYTE:
                if r == 6:
                    continue
                cur = fin.get(r, radio.inv.extra["regs"][r])
                if r == 0:
                    cb = bits8(cur)
                    if plus:
                        e0 = contract.put(radio.old(0), 0x03, 0x02)
                    else:
                        e0 = contract.const_bits(contract.CARRIER_RAW[0])
                    agg.add("R03.5", f_start, "CONFIG after the call", cb is not None and all(term_eq(a, b) for a, b in zip(cb, e0)),
                            "%s: CONFIG holds %s, documented %s" % (label, fmt_bits(cb) if cb else cur, fmt_bits(e0)))
                    continue
                if not plus and r in contract.CARRIER_RAW:
                    agg.add("R03.8", f_start, "documented raw write to %s" % regname(r), const_of(norm(cur)) == contract.CARRIER_RAW[r],
                            "%s: %s holds %r, documented 0x%02X" % (label, regname(r), cur, contract.CARRIER_RAW[r]))
                    continue
                if r == 2:
                    # entering TX mode (listen = False) may open pipe 0 for ACK reception; bits 1-5 stay
                    cb, ob = bits8(cur), radio.old(2)
                    agg.add("R03.2", f_start, "EN_RXADDR bits 1-5 preserved", cb is not None and all(term_eq(cb[i], ob[i]) for i in range(1, 8)),
                            "%s: EN_RXADDR holds %s" % (label, fmt_bits(cb) if cb else cur))
                    ok, det = radio.shadow_matches(out.state, r)
                    agg.add("R03.3", f_start, "shadow of %s at exit" % regname(r), ok, "%s: %s" % (label, det))
                    continue
                agg.add("R03.2", f_start, "%s not owned by the carrier test" % regname(r), norm(cur).key() == norm(radio.inv.extra["regs"][r]).key(),
                        "%s: %s changed to %r" % (label, regname(r), cur))
                ok, det = radio.shadow_matches(out.state, r)
                agg.add("R03.3", f_start, "shadow of %s at exit" % regname(r), ok, "%s: %s" % (label, det))
            ces = [e for e in out.trace if e.kind == "ce"]
            agg.add("R03.5", f_start, "CE ends high (carrier on)", bool(ces) and const_of(norm(ces[-1].data)) in (1, True), "%s: last CE write %r" % (label, ces[-1].data if ces else None))
    for plus in (True, False):
        n += 1
        label = "stop_carrier_wave() on %s radio" % ("plus" if plus else "non-plus")
        st = radio.fresh(fields={plus_field: Const(plus)})
        outs = radio.run(f_stop, [], st)
        for out in outs:
            if out.kind != "return":
                agg.add("R03.4", f_stop, "never raises", False, "%s raises %s" % (label, out.value.exc))
                continue
            exp = {0: contract.put(radio.old(0), 0x02, 0), 6: contract.put(radio.old(6), 0x90, 0)}
            check_exit(radio, agg, f_stop, label, out, None, exp)
            ces = [e for e in out.trace if e.kind == "ce"]
            agg.add("R03.5", f_stop, "CE ends low", bool(ces) and const_of(norm(ces[-1].data)) in (0, False), "%s: last CE write %r" % (label, ces[-1].data if ces else None))
    return n


def run_misc(radio, agg):
    """print_details / print_pipes only refresh shadows from the registers; load_ack enables what it needs and validates its arguments"""
    n = 0
    for name, args in (("print_details", [False]), ("print_details", [True]), ("print_pipes", [])):
        f = radio.prog.method(radio.cls, name)
        n += 1
        # registers pinned (two different images): the many conditional strings of the printout would otherwise fork on every bit
        for image in ({0: 0x0E, 1: 0x3F, 2: 0x03, 3: 3, 4: 0x5F, 5: 76, 6: 0x07, 0x1C: 0x3F, 0x1D: 0x05, 0x11: 32, 0x12: 32, 0x13: 32, 0x14: 32, 0x15: 32, 0x16: 32, 8: 0, 0x17: 0x11},
                      {0: 0x73, 1: 0x15, 2: 0x3C, 3: 1, 4: 0x03, 5: 2, 6: 0x2D, 0x1C: 0x00, 0x1D: 0x02, 0x11: 1, 0x12: 8, 0x13: 9, 0x14: 10, 0x15: 11, 0x16: 12, 8: 0x5A, 0x17: 0x62}):
          st = radio.fresh(image)
          for out in radio.run(f, args, st):
            if out.kind != "return":
                agg.add("R03.4", f, "debug output does not raise", False, "%s raises %s" % (name, out.value.exc))
                continue
            wr = [e for e in out.trace if e.kind in ("regwrite", "regwriten", "cmdwriten", "cmd")]
            agg.add("R03.2", f, "debug output writes nothing to the radio", not wr, "%s issues %d write(s)" % (name, len(wr)), wr[0].node if wr else None)
            for r in regmap.CONFIG_REGS:
                ok, det = radio.shadow_matches(out.state, r)
                agg.add("R03.3", f, "shadow of %s at exit" % regname(r), ok, "%s(%s): %s" % (name, args, det))
    f = radio.prog.method(radio.cls, "load_ack")
    for pipe in (-1, 0, 3, 5, 6):
        for ln in (0, 1, 32, 33):
            for feat, aa, dyn in ((0x05, 0x3F, 0x3F), (0x07, 0x3F, 0x3F), (0x00, 0x3E, 0x00)):
                n += 1
                label = "load_ack(%d bytes, %d) with FEATURE=0x%02X EN_AA=0x%02X DYNPD=0x%02X" % (ln, pipe, feat, aa, dyn)
                st = radio.fresh({contract.FEATURE: feat, contract.EN_AA: aa, contract.DYNPD: dyn})
                buf = Bytes([(("param", "buf"), Const(ln))], "bytes", origin=("param", "buf"))
                for out in radio.run(f, [buf, pipe], st):
                    bad_pipe, bad_len = not 0 <= pipe <= 5, not 1 <= ln <= 32
                    if bad_pipe or bad_len:
                        exc = "IndexError" if bad_pipe else "ValueError"
                        ok = out.kind == "raise" and out.value.exc == exc
                        agg.add("R03.4", f, "bad pipe number -> IndexError, bad length -> ValueError, before anything reaches the radio", ok and not [e for e in out.trace if e.kind in ("regwrite", "cmdwriten", "cmd")],
                                "%s: %s" % (label, ("raises " + out.value.exc) if out.kind == "raise" else "returns %r" % (out.value,)))
                        continue
                    if out.kind != "return":
                        agg.add("R03.4", f, "valid ACK payload is accepted", False, "%s raises %s" % (label, out.value.exc))
                        continue
                    loads = [e for e in out.trace if e.kind == "cmdwriten"]
                    if loads:
                        agg.add("R03.5", f, "ACK payload is loaded with W_ACK_PAYLOAD | pipe", len(loads) == 1 and const_of(norm(loads[0].data[0])) == (0xA8 | pipe), "%s: command %r" % (label, loads[0].data[0]))
                        fin = out.state.extra["regs"]
                        okf = (const_of(norm(fin.get(contract.FEATURE))) or 0) & 6 == 6 and (const_of(norm(fin.get(contract.EN_AA))) or 0) & 1 and (const_of(norm(fin.get(contract.DYNPD))) or 0) & 1
                        agg.add("R03.5", f, "ACK payloads are enabled (EN_ACK_PAY, EN_DPL, EN_AA.0, DYNPD.0) when one is loaded", bool(okf), "%s: FEATURE %r EN_AA %r DYNPD %r" % (label, fin.get(contract.FEATURE), fin.get(contract.EN_AA), fin.get(contract.DYNPD)))
                    for r in regmap.CONFIG_REGS:
                        ok, det = radio.shadow_matches(out.state, r)
                        agg.add("R03.3", f, "shadow of %s at exit" % regname(r), ok, "%s: %s" % (label, det))
    return n


def run_address(radio, agg):
    """address(index): returns the shadow of TX_ADDR / RX_ADDR_Pn, IndexError above 5"""
    f = radio.prog.method(radio.cls, "address")
    n = 0
    for idx in (-1, 0, 1, 2, 5, 6, 7):
        n += 1
        st = radio.fresh()
        outs = radio.run(f, [idx], st)
        for out in outs:
            if idx > 5:
                agg.add("R03.4", f, "index above 5 raises IndexError", out.kind == "raise" and out.value.exc == "IndexError", "address(%d): %s" % (idx, out.kind))
                continue
            if out.kind != "return":
                agg.add("R03.5", f, "address() returns", False, "address(%d) raises %s" % (idx, out.value.exc))
                continue
            v = out.value
            cell = out.state.heap[radio.ref.ident]
            if idx < 0:
                p = radio.pairs.get(0x10)
                want = cell.fields.get(p[0]) if p else None
                ok = isinstance(v, Ref) and isinstance(want, Ref) and v.ident == want.ident
            elif idx < 2:
                p = radio.pairs.get(0x0A + idx)
                lst = cell.fields.get(p[0]) if p else None
                want = out.state.heap[lst.ident].items[p[1]] if isinstance(lst, Ref) else None
                ok = isinstance(v, Ref) and isinstance(want, Ref) and v.ident == want.ident
            else:
                # first byte is the pipe's own register, the rest the tail of pipe 1
                p1 = radio.shadow_value(out.state, 0x0B)
                tail = radio.bytes_of(out.state, p1)
                want = (norm(radio.shadow_value(out.state, 0x0A + idx)).key(),) + tuple(tail[1:] if tail else ())
                got = ()
                if isinstance(v, Bytes):
                    for tag, _ln in v.parts:
                        got += tuple(tag[1]) if tag[0] == "items" else (("?",),)
                ok = tail is not None and got == want
            agg.add("R03.5", f, "address(%s) returns the shadow of that pipe" % ("tx" if idx < 0 else ("0/1" if idx < 2 else "2..5")), ok, "address(%d) returns %r" % (idx, v))
    return n


def _stores_shadow(f, names):
    """does the function body itself bind / update one of the shadow attributes (self.<name> = .., self.<name>[i] = .., augmented)?"""
    for node in iter_own_nodes(f.node):
        tgs = []
        if isinstance(node, ast.Assign):
            tgs = node.targets
        elif isinstance(node, (ast.AugAssign, ast.AnnAssign)):
            tgs = [node.target]
        for t in tgs:
            for tt in (t.elts if isinstance(t, (ast.Tuple, ast.List)) else [t]):
                while isinstance(tt, ast.Subscript):
                    tt = tt.value
                if isinstance(tt, ast.Attribute) and tt.attr in names and isinstance(tt.value, ast.Name) and tt.value.id == "self":
                    return True
    return False


def run_rest(radio, agg):
    """R03.3 for every *other* member of the driver class that stores into a shadow attribute (read-only properties, helpers, methods the
    contract table does not list): started from the invariant with symbolic arguments, every return must leave shadow == register.
    Closes the induction: no member outside the scenario tables can break the invariant the tables assume."""
    names = {p[0] for p in radio.pairs.values() if p}
    done = {f for (rule, f, _c) in agg.d if rule == "R03.3"}
    skip = {"__init__", "__enter__", "__exit__"}       # constructor establishes the invariant (rf24state), with-block: C09
    n = 0
    cands = []
    seen = set()
    for cls in radio.cls.mro:
        fis = list(cls.methods.values())
        for pr in cls.props.values():
            fis += [x for x in (pr.getter, pr.setter) if x is not None]
        for f in fis:
            if id(f) in seen or f.name in skip and f.kind == "method":
                continue
            seen.add(id(f))
            if f in done or not _stores_shadow(f, names):
                continue
            cands.append(f)
    # a private helper is judged inside its callers' scenarios (inlined there, with the arguments they really pass): it is run on its own,
    # with unconstrained arguments, only if some caller chain does not end in an analysed member
    from .common import allowed_via_callers
    owners = {g.name for g in done if hasattr(g, "name")} | {f.name for f in cands if not f.name.startswith("_")} | skip
    cands = [f for f in cands if not (f.name.startswith("_") and not f.name.startswith("__") and allowed_via_callers(radio.prog, f, owners)[0])]
    for f in cands:
        n += 1
        st = radio.fresh()
        args = [Sym(("param", a), "int") for a in f.params[1:]]
        try:
            outs = radio.run(f, args, st)
        except AnalysisError as e:
            agg.add("R03.3", f, "member that stores a shadow keeps shadow == register", False, "%s could not be analysed from the invariant with symbolic arguments: %s" % (f.qualname, e))
            continue
        for out in outs:
            if out.kind != "return":
                continue
            for r in regmap.CONFIG_REGS:
                ok, det = radio.shadow_matches(out.state, r)
                agg.add("R03.3", f, "shadow of %s at exit" % regname(r), ok, "%s(<any>): %s" % (f.name, det))
    return n, [f.qualname for f in cands]


def run(ck):
    ck.explanation = (
        "Static analysis (path-sensitive abstract interpretation over a known-bits domain with per-bit provenance) of every "
        "configuration method of rf24.RF24, started from the symbolic inductive invariant 'each shadow attribute equals the register "
        "__enter__ dumps it to; reserved bits are 0; fields are in their legal range'. The shadow<->register pairing is inferred from "
        "__enter__ itself. For each argument scenario of tables/contract.py (documented domain, boundary and out-of-domain values) the "
        "registers and shadows at every exit are compared bit by bit with the datasheet/docs reference model: owned field = documented "
        "encoding (R03.5), every other bit keeps its entry provenance (R03.2), every written value is legal (R03.1), shadow == register "
        "(R03.3), out-of-domain policy (R03.4), register addresses constant and in range (R03.6), nothing reaches the radio when the call "
        "raises (R03.7). Because every method preserves the invariant and __init__ establishes it, the property follows for every call "
        "sequence by induction. Scenario arguments are concrete table entries folded through the extracted expressions by the analyser's "
        "own evaluator; register contents stay symbolic. No repository code is imported or executed.")
    ck.not_decided = ["that the silicon stores what is written (assumption 2)"]
    radio = Radio(ck)
    agg = Agg(ck)
    ns = run_setters(radio, agg, contract.SETTERS)
    ng = run_getters(radio, agg, contract.GETTERS)
    npipes = run_pipes(radio, agg)
    na = run_address(radio, agg)
    nc = run_carrier(radio, agg)
    nm = run_misc(radio, agg)
    nr, rest = run_rest(radio, agg)
    # "after any sequence of calls": the call sequences include `with` blocks shared with other objects and RX/TX switches - entering a
    # block re-programs every register from its shadow (R09.1/R09.2, shared with C09) and the pipe-0 address in force follows the
    # documented RX/TX discipline (R08.x, shared with C08)
    from . import c09, c08
    c09.check_enter(radio, agg, radio.cls, ck.prog.method(radio.cls, "__enter__"), radio.ref, c09.havoc_regs(radio, radio.fresh()), "RF24.__enter__", ck.prog.method(radio.cls, "__enter__"))
    c08.run_for(ck, radio, agg)
    ck.note_extra = getattr(ck, "note_extra", []) + ["R03.3 closure: members storing a shadow outside the scenario tables: %s" % (rest or "none")]
    agg.flush()
    ck.floor("R03", "setter scenarios", ns, 250)
    ck.floor("R03", "getter scenarios", ng, 120)
    ck.floor("R03", "pipe/listen scenarios", npipes, 90)
    ck.floor("R03", "register pairs inferred from __enter__", len([p for p in radio.pairs.values() if p]), 12)
