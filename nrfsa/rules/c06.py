"""C06 - reassembly never delivers a message that was not sent in full.

FrameQueueFrag.enqueue touches fragment fields only through comparisons and
copies, so the conditions under which bytes are spliced are visible on its
paths: the rule inspects the path condition of every splice / delivery."""
import ast
from ..absval import Const, Sym, Bytes, Seq, Lin, norm, const_of, as_lin, lin_add
from ..interp import Ref, Limits, State
from ..interp_expr import deps_of
from ..model import AnalysisError, iter_own_nodes
from .c03 import Agg, value_matches
from . import net


def consts(ck):
    m = ck.prog.modules["network.constants"]
    try:
        return {k: ck.prog.const_value(m, k) for k in ("MSG_FRAG_FIRST", "MSG_FRAG_MORE", "MSG_FRAG_LAST", "NETWORK_EXT_DATA")}
    except ValueError:
        raise AnalysisError("fragment type constants vanished")


def splices(out, cache, cf_msg="message"):
    """events that extend / replace the cached message on this path"""
    return [e for e in out.trace if e.kind == "fieldwrite" and isinstance(e.data[0], Ref) and e.data[0].ident == cache.ident and e.data[1] == cf_msg]


def deliveries(out, qf):
    return [e for e in out.trace if e.kind == "append" and e.data[2] and e.data[2].endswith(qf)]


def relates(out, a_name, b_name, before_seq=None):
    """atoms on the path that relate symbol a_name with symbol b_name: [(op, polarity, lhs-rhs Lin or None, event)]"""
    res = []
    for ev in out.trace:
        if ev.kind not in ("cond", "known") or not isinstance(ev.node, ast.Compare):
            continue
        if before_seq is not None and ev.seq > before_seq:
            continue
        val = ev.data[1]
        if not isinstance(val, tuple) or len(val) != 2:
            continue
        da, db = deps_of(norm(val[0])), deps_of(norm(val[1]))
        if (a_name in da and b_name in db) or (a_name in db and b_name in da):
            la, lb = as_lin(norm(val[0])), as_lin(norm(val[1]))
            d = lin_add(la, lb, -1) if la is not None and lb is not None else None
            res.append((type(ev.node.ops[0]).__name__, ev.data[0], d, ev))
    return res


def reads(out, name, before_seq=None):
    for ev in out.trace:
        if ev.kind not in ("cond", "known"):
            continue
        if before_seq is not None and ev.seq > before_seq:
            continue
        val = ev.data[1]
        for v in (val if isinstance(val, tuple) else (val,)):
            if name in deps_of(norm(v)):
                return True
    return False


def unequal_on_path(rel):
    """the atoms establish that the two symbols differ"""
    for op, pol, d, ev in rel:
        if d is not None and len(d.terms) == 2 and d.c == 0 and sorted(d.terms.values()) == [-1, 1]:
            if (op == "Eq" and not pol) or (op == "NotEq" and pol):
                return True
    return False


def equal_on_path(rel):
    """the atoms establish equality of the two symbols"""
    for op, pol, d, ev in rel:
        if d is not None and len(d.terms) == 2 and d.c == 0 and sorted(d.terms.values()) == [-1, 1]:
            if (op == "Eq" and pol) or (op == "NotEq" and not pol):
                return True
    return False


def may_be_none(ck, field):
    """some assignment in the package stores None into an attribute of this name"""
    for f in ck.prog.all_funcs():
        for node in iter_own_nodes(f.node):
            if isinstance(node, ast.Assign) and isinstance(node.value, ast.Constant) and node.value.value is None:
                for t in node.targets:
                    if isinstance(t, ast.Attribute) and t.attr == field:
                        return True
    return False


def run_core(ck, agg):
    return _core(ck, agg)


class _Only:
    """an aggregator view that keeps the obligations of one construct (for a check that re-runs a single rule of this module)"""

    def __init__(self, agg, prefix):
        self.agg, self.prefix = agg, prefix

    def add(self, rule, where, construct, ok, detail="", node=None):
        if construct.startswith(self.prefix):
            self.agg.add(rule, where, construct, ok, detail, node)


def caller_frame_untouched(ck, agg):
    """R06.5 (caller's frame): re-run of the enqueue scenarios keeping only the obligation that the caller's frame is left as received"""
    return _core(ck, _Only(agg, "enqueue() leaves the caller's frame as received"))


def run(ck):
    ck.explanation = (
        "Static analysis of FrameQueueFrag.enqueue by path-sensitive abstract interpretation with a fully symbolic reassembly cache and a "
        "symbolic incoming fragment of each kind (FIRST / MORE / LAST / other). For every path that splices bytes into the cache or hands "
        "the cache to the queue, the path condition must contain: equality of cache and fragment on the origin address and on the frame id "
        "(R06.1), a relation between the cached fragment counter and the fragment's counter - exactly 'previous - 1' for MORE - and a read of the "
        "cached counter for LAST (R06.2); no `is (not) None` test on a field that no code ever sets to None (R06.3); after a completed message "
        "the same analysis is repeated from the resulting state and no fragment may be spliced or delivered again (R06.4); the cache and the "
        "queue hold decoded copies, never the caller's object (R06.5); the delivered type is the LAST fragment's reserved byte and the delivered "
        "bytes are cache + fragment in that order (R06.7). R06.9: every public sender that builds the frame itself (multicast(), the mesh write()) "
        "sends under a header constructed for that message - a fresh frame id - or the caller's own, never the header the shared buffer "
        "happened to hold. These are necessary conditions; enumeration of delivery histories is another family.")
    ck.not_decided = ["exhaustive / randomised delivery patterns (enumeration of histories): the rules are necessary, not sufficient"]
    agg = Agg(ck)
    nsc, nre = _core(ck, agg)
    # sender side of R06.7: numbering, type in the last fragment, type restored on every exit (shared with C11/R11.6)
    from . import c11
    c11.fragment_loop(ck, agg, rule="R06.7")
    # R06.9 (sender side of "streams are told apart by origin and frame id"): every message a public sender builds travels under a frame id
    # of its own - run with the sender gate of C05 (R05.2)
    from . import c05, net
    c05.validate(ck, agg, net.NetNode(ck, "rf24_network", "RF24Network"))
    # "one transmitted message is delivered at most once": the completed message enters the same storage list as every other frame - the
    # duplicate / capacity / private-copy rules of the queue (R12.2-R12.5) on every path that appends, the reassembling queue's included
    from . import c12
    c12.enqueue_rules(ck, agg, net.queue_field(ck.prog))
    # "byte-for-byte": the completed message is copied into the queue through frame.pack() / unpack() - the codec must not clip it (R11.8)
    c11.header_rules(ck, agg)
    # "incomplete or out-of-sequence fragments are discarded rather than spliced": the reassembling queue can tell only if it sees every
    # fragment - the reception path hands each one over, whatever the delivery list holds (R05.7)
    from . import c05
    c05.handed_to_queue(ck, agg)
    # "a message that was not sent in full": the receiver cannot tell a FIRST..LAST gap (known finding R06.2), so the property leans on the
    # sender aborting after a fragment that was not delivered - the timed re-send must report the radio's own result of the last re-send,
    # never success for a fragment that was flushed or never re-sent (R13.7, shared with C13)
    from . import c13
    c13.standby_rule(ck, agg)
    # "every message the queue hands over is one that some node sent to it": a NETWORK_ACK (which still carries the acknowledged fragment's
    # bytes) is reported to the waiting writer and never queued (R13.4, shared with C13)
    c13.receive_rule(ck, agg, net.NetNode(ck, "rf24_network", "RF24Network"))
    agg.flush()
    ck.floor("R06", "fragment kinds x cache states", nsc, 5)
    ck.floor("R06.4", "re-delivery scenarios after completion", nre, 2)


def _core(ck, agg):
    K = consts(ck)
    S = net.structs(ck.prog)
    cls = S["FrameQueueFrag"]
    f = ck.prog.method(cls, "enqueue")
    base_enqueue = ck.prog.method(S["FrameQueue"], "enqueue")
    qf, cf = net.queue_field(ck.prog), net.cache_field(ck.prog)
    sentinel_real = may_be_none(ck, "from_node")
    nsc = 0
    completed_states = []
    last_pols = set()
    # R06.10 a new reassembling queue starts with nothing cached: the constructor establishes the sentinel the fragment branches test (the
    # scenarios below *assume* it for the empty cache) - in both construction forms (fresh, and moving the frames of another queue)
    f_init = ck.prog.method(cls, "__init__")
    for arg_kind in ("none", "queue"):
        st_i = State()
        new_q = st_i.alloc("obj", cls=cls, label="new")
        arg = Const(None) if arg_kind == "none" else net.sym_queue(st_i, ck.prog, "FrameQueue", nframes=1, max_size=3, label="src")
        outs_i, _it = net.run(ck, f_init, cls, new_q, [arg], st_i)
        for o_ in outs_i:
            if o_.kind != "return":
                continue
            c_ = o_.state.heap[new_q.ident].fields.get(cf)
            h_ = o_.state.heap[c_.ident].fields.get("header") if isinstance(c_, Ref) else None
            v_ = o_.state.heap[h_.ident].fields.get("from_node") if isinstance(h_, Ref) else None
            agg.add("R06.10", f_init, "a new FrameQueueFrag starts with the 'nothing cached' sentinel", sentinel_real is False or (isinstance(norm(v_), Const) and norm(v_).v is None) if v_ is not None else False,
                    "FrameQueueFrag(%s): the cache's origin starts as %r - a stray MORE/LAST fragment naming that origin and the constructor's frame id is spliced onto an empty cache" % ("" if arg_kind == "none" else "queue", v_))
    for kind, typ in (("FIRST", K["MSG_FRAG_FIRST"]), ("MORE", K["MSG_FRAG_MORE"]), ("LAST", K["MSG_FRAG_LAST"]), ("user", 65), ("user", 0)):
        for cache_from in (["int"] + (["none"] if sentinel_real else [])):
            nsc += 1
            st = State()
            pins = {"from_node": Const(None)} if cache_from == "none" else None
            q = net.sym_queue(st, ck.prog, "FrameQueueFrag", nframes=(1 if kind == "LAST" else 0), max_size=(None if kind == "LAST" else 6), cache_pins=pins)
            cache = st.heap[q.ident].fields[cf]
            frame = net.sym_frame(st, ck.prog, "frame", {"message_type": typ})
            fh0 = dict(st.heap[st.heap[frame.ident].fields["header"].ident].fields)      # snapshot: the run may continue in this very state object
            outs, it = net.run(ck, f, cls, q, [frame], st)
            label = "%s fragment, cache %s" % (kind, "holding a message" if cache_from == "int" else "empty (sentinel)")
            for out in outs:
                if out.kind != "return":
                    agg.add("R06.5", f, "enqueue() does not raise", False, "%s: raises %s" % (label, out.value.exc), out.value.node)
                    continue
                # the caller's frame stays as it was received: its receiver goes on using it (a relay re-broadcasts it, update() reports its
                # type) - the one documented write-back is NETWORK_EXT_DATA for a completed external-data message
                fh1 = out.state.heap[out.state.heap[frame.ident].fields["header"].ident].fields if isinstance(out.state.heap[frame.ident].fields.get("header"), Ref) else {}
                for fld in net.HDR_FIELDS:
                    v0, v1 = fh0.get(fld), fh1.get(fld)
                    same_ = v0 is not None and v1 is not None and norm(v0).key() == norm(v1).key()
                    if not same_ and v0 is not None and v1 is not None and isinstance(norm(v1), Const):
                        # the symbol was only *refined* by a test on the path (`reserved == NETWORK_EXT_DATA` taken as true), not written
                        for e in out.trace:
                            if e.kind == "cond" and isinstance(e.node, ast.Compare) and isinstance(e.data[1], tuple) and len(e.data[1]) == 2 and isinstance(e.node.ops[0], (ast.Eq, ast.NotEq)):
                                eq_ = e.data[0] if isinstance(e.node.ops[0], ast.Eq) else not e.data[0]
                                ks = {norm(x).key() for x in e.data[1]}
                                if eq_ and ks == {norm(v0).key(), norm(v1).key()}:
                                    same_ = True
                    ext_ok = fld == "message_type" and const_of(norm(v1)) == K["NETWORK_EXT_DATA"] and any(
                        e.kind == "cond" and e.data[0] is True and isinstance(e.data[1], tuple) and any(const_of(norm(x)) == K["NETWORK_EXT_DATA"] for x in e.data[1]) and
                        any("frame.header.reserved" in net.base_deps(x) for x in e.data[1]) for e in out.trace)
                    agg.add("R06.5", f, "enqueue() leaves the caller's frame as received (only a completed external-data message is marked NETWORK_EXT_DATA)", same_ or ext_ok,
                            "%s: the caller's header.%s becomes %r (was %r) - a relay re-broadcasts the altered frame, update() reports the altered type" % (label, fld, v1, v0))
                cur_cache = out.state.heap[q.ident].fields[cf]
                sp = splices(out, cache) if isinstance(cur_cache, Ref) and cur_cache.ident == cache.ident else []
                dl = deliveries(out, qf)
                # R06.3 tautological sentinel
                for ev in out.trace:
                    if ev.kind == "known" and isinstance(ev.node, ast.Compare) and isinstance(ev.node.ops[0], (ast.Is, ast.IsNot)) and ev.func is f:
                        val = ev.data[1]
                        cmp_none = isinstance(val, tuple) and any(isinstance(norm(x), Const) and norm(x).v is None for x in val)
                        other = [x for x in val if not (isinstance(norm(x), Const) and norm(x).v is None)] if isinstance(val, tuple) else []
                        if cmp_none and other and isinstance(norm(other[0]), Sym) and norm(other[0]).ty == "int":
                            fld = net.field_of(other[0])
                            real = fld is not None and may_be_none(ck, fld[1])
                            agg.add("R06.3", f, "sentinel test `%s` can actually fail" % ast.unparse(ev.node), real,
                                    "`%s` is always %r: no code ever stores None there, so the 'nothing cached' state this test is meant to recognise is never recognised" % (ast.unparse(ev.node), ev.data[0]), ev.node)
                if cache_from == "none":
                    if kind in ("MORE", "LAST"):
                        agg.add("R06.3", f, "with nothing cached, MORE/LAST fragments are dropped", not sp and not dl and value_matches(out.value, False),
                                "%s: spliced=%d delivered=%d returns %r" % (label, len(sp), len(dl), out.value))
                if kind == "FIRST":
                    c2 = out.state.heap[q.ident].fields[cf]
                    okc = isinstance(c2, Ref) and c2.ident != frame.ident
                    agg.add("R06.5", f, "a FIRST fragment is cached as a copy, not by reference", okc, "cache object is the caller's frame")
                    if okc:
                        h, fh = out.state.heap[c2.ident].fields.get("header"), out.state.heap[frame.ident].fields.get("header")
                        m = out.state.heap[c2.ident].fields.get("message")
                        agg.add("R06.5", f, "the cached header/message are decoded copies", isinstance(h, Ref) and h.ident != fh.ident and isinstance(m, Bytes) and m.origin is None,
                                "cached header %r / message %r alias the caller's frame" % (h, m))
                        unp = all(isinstance(out.state.heap[h.ident].fields.get(x), Sym) and out.state.heap[h.ident].fields[x].attrs.get("unpack") for x in net.HDR_FIELDS) if isinstance(h, Ref) else False
                        agg.add("R06.5", f, "a FIRST fragment replaces the whole cached header", unp, "cached header fields after FIRST: %r" % ({x: out.state.heap[h.ident].fields.get(x) for x in net.HDR_FIELDS} if isinstance(h, Ref) else None))
                    agg.add("R06.5", f, "a FIRST fragment alone delivers nothing", not dl and value_matches(out.value, True), "%s: delivered=%d returns %r" % (label, len(dl), out.value))
                    continue
                if kind == "user":
                    agg.add("R06.5", f, "unfragmented frames bypass the cache", not sp, "%s: cache modified" % label)
                    continue
                base_enq = [e_ for e_ in out.trace if e_.kind == "enter" and e_.data == base_enqueue.qualname]
                if kind == "LAST" and sp and base_enq and cache_from == "int":
                    # the message is complete (handed to the base queue) - accepted or refused (queue full / duplicate)
                    completed_states.append((out.state, q, frame, bool(dl)))
                if not sp and not dl and kind in ("MORE", "LAST") and cache_from == "int":
                    # R06.8 completeness: a fragment that belongs to the cached message and is next in sequence must not be dropped
                    ident_ok = all(equal_on_path(relates(out, "cache.header." + fld, "frame.header." + fld)) for fld in ("from_node", "frame_id"))
                    seq_rel = relates(out, "cache.header.reserved", "frame.header.reserved")
                    in_seq = kind == "LAST" or any(d is not None and d.terms.get("cache.header.reserved") == -d.terms.get("frame.header.reserved") and
                                                   ((op == "NotEq" and not pol) or (op == "Eq" and pol)) and (d.c * d.terms.get("cache.header.reserved", 0) == -1) for op, pol, d, ev in seq_rel)
                    if ident_ok and in_seq:
                        tests = sorted({(ast.unparse(e_.node), e_.data[0]) for e_ in out.trace if e_.kind == "cond" and e_.func is f})
                        agg.add("R06.8", f, "a %s fragment that matches the cached message (origin, id%s) is never dropped" % (kind, "" if kind == "LAST" else ", next counter"), False,
                                "%s: origin and frame id match%s, yet the fragment is dropped (returns %r) - the message can never complete. Decisions on the path: %s" % (
                                    label, "" if kind == "LAST" else " and the counter is the next one", out.value, tests))
                    elif ident_ok is False:
                        pass
                    # ... and a fragment is dropped only for a reason that tells it apart from the awaited one: its origin or frame id was
                    # found to differ from the cached ones, or (MORE) its counter is not the next one. A drop decided by anything else about
                    # the cached message (e.g. the *truthiness* of the cached origin - the master's address is 0) loses a message
                    differs = any(unequal_on_path(relates(out, "cache.header." + fld, "frame.header." + fld)) for fld in ("from_node", "frame_id"))
                    out_of_seq = kind == "MORE" and any(d is not None and d.terms.get("cache.header.reserved") == -d.terms.get("frame.header.reserved") and
                                                        ((op == "NotEq" and pol) or (op == "Eq" and not pol)) for op, pol, d, ev in seq_rel)
                    if not (ident_ok and in_seq):
                        tests = sorted({(ast.unparse(e_.node), e_.data[0]) for e_ in out.trace if e_.kind == "cond" and e_.func is f})
                        agg.add("R06.8", f, "a MORE/LAST fragment is dropped only because its origin / frame id differ from the cached ones or it is out of sequence", differs or out_of_seq,
                                "%s: the fragment is dropped (returns %r) on a path that never found its origin or frame id different from the cached message's%s. Decisions on the path: %s" % (
                                    label, out.value, "" if kind == "LAST" else " nor its counter out of sequence", tests))
                if not sp and not dl:
                    agg.add("R06.5", f, "a dropped fragment is reported as not stored", value_matches(out.value, False), "%s: nothing spliced or delivered but returns %r" % (label, out.value))
                    continue
                if cache_from == "none":
                    continue
                first_effect = min([e.seq for e in sp + dl])
                # R06.1 identity
                for fld in ("from_node", "frame_id"):
                    rel = relates(out, "cache.header." + fld, "frame.header." + fld, first_effect)
                    agg.add("R06.1", f, "splicing requires the fragment's %s to equal the cached one" % ("origin address (from_node)" if fld == "from_node" else "frame id"),
                            equal_on_path(rel), "%s: bytes are spliced/delivered on a path that never establishes cache.%s == frame.%s (tests on the path: %s)" % (
                                label, fld, fld, sorted({ast.unparse(e.node) for e in out.trace if e.kind == "cond" and e.func is f})), sp[0].node if sp else None)
                # R06.2 sequence
                if kind == "MORE":
                    rel = relates(out, "cache.header.reserved", "frame.header.reserved", first_effect)
                    okseq = any(d is not None and d.terms.get("cache.header.reserved") == -d.terms.get("frame.header.reserved") and
                                ((op == "NotEq" and not pol) or (op == "Eq" and pol)) and
                                (d.c * d.terms.get("cache.header.reserved", 0) == -1) for op, pol, d, ev in rel)
                    agg.add("R06.2", f, "a MORE fragment is spliced only when its counter is the cached counter - 1", okseq,
                            "%s: no test `cached reserved - 1 == fragment reserved` holds on the splicing path" % label, sp[0].node if sp else None)
                    # R06.11 the counter advances: after an accepted MORE fragment the cached counter is that fragment's, so the next one
                    # in sequence (counter - 1) is accepted in turn - otherwise no message of four or more fragments ever completes
                    if sp:
                        from .c12 import _src
                        c2_ = out.state.heap[q.ident].fields[cf]
                        h_ = out.state.heap[c2_.ident].fields.get("header") if isinstance(c2_, Ref) else None
                        cr_ = out.state.heap[h_.ident].fields.get("reserved") if isinstance(h_, Ref) else None
                        okadv = cr_ is not None and _src(cr_) == frozenset({"frame.header.reserved"})
                        agg.add("R06.11", f, "an accepted MORE fragment advances the cached counter to its own", okadv,
                                "%s: after the splice the cached counter is %r, not the fragment's - the next fragment in sequence is refused and messages of four or more fragments never complete" % (label, cr_))
                else:
                    pol = None
                    for ev in out.trace:
                        if ev.kind == "cond" and ev.seq < first_effect and isinstance(ev.data[1], tuple) and any("cache.header.reserved" in net.base_deps(x) for x in ev.data[1]):
                            pol = ev.data[0]
                    last_pols.add(pol)
                # R06.7 spliced bytes = cache + fragment, in that order
                if sp:
                    v = sp[0].data[2]
                    tags = [p[0] for p in v.parts] if isinstance(v, Bytes) else []
                    okb = len(tags) == 2 and tags[0] == ("sym", "cache.message") and (tags[1] == ("sym", "frame.message") or (tags[1][0] == "slice" and tags[1][1] == ("sym", "frame.message") and tags[1][2] == 0))
                    agg.add("R06.7", f, "spliced bytes are cache + fragment in that order, the whole fragment", okb, "%s: cached message becomes %r" % (label, tags))
                if kind == "LAST":
                    refused = not dl and bool(base_enq) and value_matches(out.value, False)
                    agg.add("R06.7", f, "a matching LAST fragment delivers the message (unless the queue refuses it: full / duplicate)", len(dl) == 1 or refused, "%s: %d deliveries, returns %r" % (label, len(dl), out.value))
                    if dl:
                        obj = dl[0].data[1]
                        h = out.state.heap[obj.ident].fields.get("header") if isinstance(obj, Ref) else None
                        mt = out.state.heap[h.ident].fields.get("message_type") if isinstance(h, Ref) else None
                        rv = net.resolve_unpacked(mt)
                        bd = net.base_deps(rv)
                        okt = bd == {"frame.header.reserved"} or (isinstance(rv, Const) and any(
                            e.kind == "cond" and e.data[0] is True and isinstance(e.node, ast.Compare) and isinstance(e.data[1], tuple) and
                            any("frame.header.reserved" in net.base_deps(x) for x in e.data[1]) and any(const_of(norm(x)) == rv.v for x in e.data[1]) for e in out.trace))
                        agg.add("R06.7", f, "the delivered frame's type is the LAST fragment's reserved byte", okt, "%s: delivered type %r" % (label, mt))
                        agg.add("R06.5", f, "the delivered frame is a copy of the cache", isinstance(obj, Ref) and obj.ident != cache.ident and obj.ident != frame.ident, "delivers %r" % (obj,))
                        pass
                elif kind == "MORE":
                    agg.add("R06.7", f, "a MORE fragment delivers nothing yet", not dl and value_matches(out.value, True), "%s: delivered=%d returns %r" % (label, len(dl), out.value))
    # R06.2 for LAST: the cached counter must decide whether the message completes
    agg.add("R06.2", f, "a LAST fragment completes the message only if the cached fragment counter says it is next", last_pols and None not in last_pols and len(last_pols) == 1,
            "the LAST fragment is spliced and delivered whatever the cached fragment counter is (outcomes of the counter test on completing paths: %s), so FIRST(n) + LAST "
            "with the middle fragments lost is delivered as a complete message" % sorted(map(str, last_pols)))
    # R06.4 completion consumes the cache: from every completed state no fragment may be spliced / delivered again
    nre = 0
    seen_kinds = set()
    picked = []
    for item in completed_states:
        if item[3] not in seen_kinds or len(picked) < 4:
            seen_kinds.add(item[3])
            picked.append(item)
    for st0, q, frame, accepted in picked[:6]:
        for kind, typ in (("MORE", K["MSG_FRAG_MORE"]), ("LAST", K["MSG_FRAG_LAST"])):
            nre += 1
            st = st0.fork()
            st.trace = []
            c0 = st.heap[q.ident].fields[cf]
            # empty the delivered queue so capacity/duplicate suppression cannot mask a second delivery
            lst = st.heap[q.ident].fields[qf]
            st.heap[lst.ident].items = []
            again = net.sym_frame(st, ck.prog, "again", {"message_type": typ})
            outs, it = net.run(ck, f, cls, q, [again], st)
            bad = []
            for out in outs:
                if out.kind != "return":
                    continue
                if (isinstance(c0, Ref) and splices(out, c0)) or deliveries(out, qf):
                    bad.append(out)
            agg.add("R06.4", f, "after a message is completed%s, further %s fragments are dropped until a new FIRST arrives" % ("" if accepted else " but refused by the queue (full / duplicate)", kind), not bad,
                    "a %s fragment received after the message was delivered is spliced onto the already delivered bytes%s: the cache is not invalidated on completion, "
                    "so a repeated LAST fragment delivers the message a second time with its tail doubled" % (kind, " and delivered again" if kind == "LAST" else ""))
    return nsc, nre
