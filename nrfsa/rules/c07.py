"""C07 - after any network operation the node listens again on all its addresses.

Interprocedural typestate over the abstract radio (CONFIG.PRIM_RX/PWR_UP, CE,
EN_AA, EN_RXADDR, DYNPD, FEATURE.EN_DPL, RX_ADDR_P0): every normal return of
every public network / mesh entry point must leave the 'listening' state.  The
heavy callees (_write, _net_update, _begin) are verified once in full and then
used as assume/guarantee summaries (they havoc the node's fields)."""
import ast
from ..absval import Const, Sym, Bytes, Seq, norm, const_of
from ..interp import Ref, Limits, Raised
from ..model import AnalysisError, reachable, iter_own_nodes
from ..tables import regmap, contract
from .c03 import Agg, value_matches
from .radio import regwrites, bits8, regname
from . import net
from .c08 import reg_bytes

OWN_P0 = b"\x01\x02\x03\x04\x05"


def listening(nn, st):
    """(ok, detail) - is the abstract radio in the state a network node must be left in?"""
    regs = st.extra.get("regs", {})
    prob = []
    cfg = bits8(regs.get(0)) if regs.get(0) is not None else None
    if cfg is None or cfg[0] != 1 or cfg[1] != 1:
        prob.append("CONFIG[PWR_UP,PRIM_RX] = %s (not receiving)" % ([cfg[1], cfg[0]] if cfg else regs.get(0)))
    for r, want in ((contract.EN_AA, 0x3E), (contract.EN_RXADDR, 0x3F), (contract.DYNPD, 0x3F)):
        c = const_of(norm(regs.get(r)))
        if c != want:
            prob.append("%s = %s (must be 0x%02X)" % (regname(r), ("0x%02X" % c) if isinstance(c, int) else regs.get(r), want))
    ft = bits8(regs.get(contract.FEATURE))
    if ft is None or ft[2] != 1:
        prob.append("FEATURE.EN_DPL not set")
    ce = st.extra.get("ce")
    if const_of(norm(ce)) not in (1, True):
        prob.append("CE is %r (must be high)" % (ce,))
    # pipe 0 must listen on the address the radio remembers as the node's own (set by _begin / multicast_level)
    user = st.heap[nn.radio.ref.ident].fields.get(nn.radio.user_pipe0_field())
    reg = regs.get(0x0A)
    uk, rk = nn.radio.bytes_of(st, user), nn.radio.bytes_of(st, reg)
    if isinstance(norm(user) if not isinstance(user, Ref) else user, Const):
        prob.append("no pipe-0 address is remembered (pipe 0 would be closed on RX entry)")
    elif uk is None or rk is None or uk != rk:
        same = hasattr(user, "key") and hasattr(reg, "key") and user.key() == reg.key()
        if not same and not st.extra.get("p0_equal"):
            prob.append("RX_ADDR_P0 holds %r instead of the node's own pipe-0 address %r" % (reg, user))
    sh = nn.radio.shadow_value(st, 0x0A)
    if isinstance(sh, Ref) and isinstance(user, Ref) and sh.ident == user.ident:
        prob.append("the shadow of RX_ADDR_P0 is the remembered own address object itself: the next transmission overwrites the remembered address in place")
    return (not prob), "; ".join(prob)


def havoc_node(it, st, node, keep=()):
    cell = st.heap[node.ident]
    k = st.extra.get("nhavoc", 0) + 1
    st.extra["nhavoc"] = k
    for name, v in list(cell.fields.items()):
        if name in keep:
            continue
        nv = norm(v) if not isinstance(v, Ref) else v
        if isinstance(nv, (Sym, Const)) and (getattr(nv, "ty", None) in ("int", "bool") or (isinstance(nv, Const) and isinstance(nv.v, (int, bool)) and nv.v is not None)):
            ty = "bool" if (getattr(nv, "ty", None) == "bool" or (isinstance(nv, Const) and isinstance(nv.v, bool))) else "int"
            nm = "node.%s#%d" % (name, k)
            if ty == "int":
                net.set_rng(st, nm, (0, None))
            cell.fields[name] = Sym(nm, ty, **({"rng": (0, None)} if ty == "int" else {}))
    fb = cell.fields.get("frame_buf")
    if isinstance(fb, Ref):
        h = st.heap[fb.ident].fields.get("header")
        if isinstance(h, Ref):
            for f_, rng in net.HDR_RANGES.items():
                nm = "frame_buf.header.%s#%d" % (f_, k)
                net.set_rng(st, nm, rng)
                st.heap[h.ident].fields[f_] = Sym(nm, "int", rng=rng)
        ln = ("len", "frame_buf.message#%d" % k)
        net.set_rng(st, ln, (0, None))
        st.heap[fb.ident].fields["message"] = Bytes([(("sym", "frame_buf.message#%d" % k), Sym(ln, "int", rng=(0, None)))], "byteslike")


def make_summary(nn, agg, name, post_listening=True):
    """summary handler for a verified callee: havoc node fields, establish the listening state, unknown result"""
    def handler(model, it, st, fr, node, target, args, kwargs):
        selfv = args[0]
        ok, det = listening(nn, st)
        snap = {"args": list(args[1:])}
        if isinstance(selfv, Ref):
            snap["own_addr"] = st.heap[selfv.ident].fields.get(net.FN("_addr"))
            fb = st.heap[selfv.ident].fields.get("frame_buf")
            if isinstance(fb, Ref):
                snap["message"] = st.heap[fb.ident].fields.get("message")
                h = st.heap[fb.ident].fields.get("header")
                if isinstance(h, Ref):
                    snap["header"] = dict(st.heap[h.ident].fields)
                    snap["header_ref"] = h
        it.event(st, fr, "summary", node, (name, ok, det, snap))
        if isinstance(selfv, Ref):
            havoc_node(it, st, selfv)
        for r, v in net.LISTENING.items():
            if r != contract.FEATURE:
                st.extra["regs"][r] = Const(v)
        # pipe 0 listens again on whatever address the radio remembers as the node's own
        user = st.heap[nn.radio.ref.ident].fields.get(nn.radio.user_pipe0_field())
        st.extra["regs"][0x0A] = user
        st.extra["p0_equal"] = True
        st.extra["ce"] = Const(True)
        k = st.extra.get("nsum", 0) + 1
        st.extra["nsum"] = k
        if name == "_begin":
            return [(st, Const(None))]
        if name == "_net_update":
            net.set_rng(st, ("updret", k), (0, 255))
            return [(st, Sym(("updret", k), "int", rng=(0, 255)))]
        return [(st, Sym(("writeret", k), "bool"))]
    return handler


def tx_state(nn, st):
    """put the abstract radio into TX mode with pipe 0 appropriated (worst pre-state for _write's tail)"""
    from .c08 import pin_addr
    st.extra["regs"][0] = Const(0x0E)
    st.extra["regs"][contract.EN_AA] = Const(0x3F)
    pin_addr(nn.radio, st, 0x0A, b"\xAA\xBB\xCC\xDD\xEE")
    nn.radio.pin(st, 0, 0x0E)
    nn.radio.pin(st, contract.EN_AA, 0x3F)
    st.extra["ce"] = Const(False)
    return st


def check_outs(nn, agg, f, outs, label, it=None):
    n = 0
    for out in outs:
        if out.kind != "return":
            continue
        n += 1
        ok, det = listening(nn, out.state)
        path = " -> ".join("%s@%d" % (e.func.name if e.func else "?", getattr(e.node, "lineno", 0)) for e in out.trace if e.kind == "cond")[-300:]
        agg.add("R07.1", f, "every return leaves the radio listening (RX mode, CE high, EN_AA=0x3E, pipes open, own pipe-0 address)", ok,
                "%s: a path returns with %s [decisions: %s]" % (label, det, path))
        for e in out.trace:
            if e.kind == "summary":
                agg.add("R07.1", f, "nested %s() is entered in the listening state" % e.data[0], e.data[1] or e.data[0] in ("_begin",),
                        "%s: %s() is called with %s" % (label, e.data[0], e.data[2]), e.node)
    return n


def run(ck):
    ck.explanation = (
        "Static analysis: interprocedural typestate by path-sensitive abstract interpretation over the abstract radio state (CONFIG.PRIM_RX/PWR_UP, "
        "last CE level, EN_AA, EN_RXADDR, DYNPD, FEATURE.EN_DPL, RX_ADDR_P0 and the remembered pipe-0 address). RF24.send/resend/read/available "
        "are replaced by summaries whose frame condition (they touch only STATUS, FIFOs and CE) is itself verified from their bodies (R07.0). "
        "_write_to_pipe/_write are analysed in full from the listening pre-state and from a TX pre-state, over every combination of failed hop, "
        "fragment abort, NETWORK_ACK emit/wait/timeout, loop-back and multicast, because those are the branches (R07.1); _begin for concrete "
        "addresses of every level (R07.2); _net_update with _write as verified summary; then every public entry point discovered from the call "
        "graph of the four concrete classes. Who may switch to TX / open the TX pipe / close pipes is a whitelist (R07.3).")
    ck.not_decided = ["exits by exception (the statement speaks of returns; C15 bounds which exceptions can occur)", "the CE level right after `with` entry"]
    agg = Agg(ck)
    _run(ck, agg)


def write_typestate(ck, agg):
    """R07.0 + R07.1 for _write() alone (every return of every transmission leaves the node listening) - for the checks of properties
    that rest on it (C17: a node that stays in TX mode after a failed transmission answers nothing any more)"""
    _run(ck, agg, only_write=True)


def addr_writers(ck, agg):
    """R07.4 "own addresses": the node's logical address changes only inside _begin(), which re-opens the six pipes on it - a function that
    stores a new address by itself (a failure path 'resetting' to the default address) leaves the radio listening on the old one"""
    P = ck.prog
    mix = P.cls("network.mixins", "NetworkMixin")
    af = net.FN("_addr")
    f_begin2 = P.method(mix, "_begin")
    nwr = 0
    for fi in P.all_funcs():
        for x in iter_own_nodes(fi.node):
            tgs = []
            if isinstance(x, ast.Assign):
                tgs = list(x.targets)
            elif isinstance(x, (ast.AugAssign, ast.AnnAssign)):
                tgs = [x.target]
            flat = []
            for t in tgs:
                flat.extend(t.elts if isinstance(t, (ast.Tuple, ast.List)) else [t])
            for t in flat:
                if isinstance(t, ast.Attribute) and t.attr == af and isinstance(t.value, ast.Name) and t.value.id == "self" and fi.cls is not None and mix in fi.cls.mro:
                    nwr += 1
                    from .common import allowed_via_callers
                    okw, why = allowed_via_callers(P, fi, {f_begin2.name, "__init__"})        # _begin() itself, or a private helper only it calls
                    agg.add("R07.4", fi, "the node's logical address is stored only by _begin() (and the constructor)", okw,
                            "%s assigns self.%s without re-opening the pipes%s: the node then listens on the addresses of its previous logical address" % (fi.qualname, af, why), x)
    agg.add("R07.4", f_begin2, "_begin() stores the logical address (anchor)", nwr >= 1, "no assignment to self.%s found" % af)


def _run(ck, agg, only_write=False):
    nn = net.NetNode(ck, "rf24_network", "RF24Network")
    P = ck.prog
    mix = P.cls("network.mixins", "NetworkMixin")
    rf = nn.radio.cls
    # ---- R07.0 frame condition of the radio summaries --------------------------------------------
    from .radio import Radio
    from . import link
    plain = Radio(ck)
    for name, args in (("send", [link.param_buf(length=5), False, 0, True]), ("resend", [True]), ("read", []), ("available", [])):
        f = P.method(rf, name)
        if name == "send":
            plain.model.opaque[P.method(rf, "resend").qualname] = link.opaque_resend
        outs = plain.run(f, args, plain.fresh({contract.DYNPD: 0x3F, contract.FEATURE: 0x05}), limits=Limits(max_paths=6000, loop_unroll=1))
        plain.model.opaque.clear()
        bad = set()
        for out in outs:
            for ev, rc, v, rexpr in regwrites(out):
                if rc != 7:
                    bad.add(regname(rc) if rc is not None else "?")
            for ev in out.trace:
                if ev.kind == "regwriten":
                    bad.add("multi-byte register write")
                if ev.kind == "fieldwrite" and isinstance(ev.data[0], Ref) and ev.data[0].ident == plain.ref.ident:
                    pr = [r for r, p in plain.pairs.items() if p and p[0] == ev.data[1]]
                    if pr:
                        bad.add("shadow " + ev.data[1])
        agg.add("R07.0", f, "RF24.%s() touches only STATUS, the FIFOs and CE (frame condition of its summary)" % name, not bad, "also writes %s" % sorted(bad))
    # _tx_standby is summarised like resend(): its body may only call RF24.resend() and the clock
    f_tx = P.method(P.cls("network.mixins", "NetworkMixin"), "_tx_standby")
    calls = set()
    for node_ in iter_own_nodes(f_tx.node):
        if isinstance(node_, ast.Call):
            calls.add(ast.unparse(node_.func))
        if isinstance(node_, (ast.Assign, ast.AugAssign)):
            for t in (node_.targets if isinstance(node_, ast.Assign) else [node_.target]):
                if isinstance(t, ast.Attribute):
                    calls.add("store " + ast.unparse(t))
    from ..model import BUILTINS
    extra = {c_ for c_ in calls if not (c_.endswith(".resend") or c_.startswith("time.") or c_ in BUILTINS)}
    agg.add("R07.0", f_tx, "_tx_standby() only calls RF24.resend() and the clock (frame condition of its summary)", not extra, "also uses %s" % sorted(extra))
    # ---- summaries for the network callees ----------------------------------------------------------
    f_write = P.method(mix, "_write")
    f_wtp = P.method(mix, "_write_to_pipe")
    f_upd = P.method(mix, "_net_update")
    f_begin = P.method(mix, "_begin")
    sum_upd = make_summary(nn, agg, "_net_update")
    sum_write = make_summary(nn, agg, "_write")
    sum_begin = make_summary(nn, agg, "_begin")

    def on_rec(it, st, fr, node, target, args, kw):
        if target.func is f_upd:
            return sum_upd(nn.model, it, st, fr, node, target, [fr.self_val] + list(args), kw)
        if target.func is f_write:
            return sum_write(nn.model, it, st, fr, node, target, [fr.self_val] + list(args), kw)
        raise AnalysisError("unexpected recursion into %s" % target.func.qualname)
    nn.model.on_recursion = on_rec

    def on_cond(it, st, fr, node, pol, val):
        # the listen setter compares the remembered address with the shadow of RX_ADDR_P0: on the 'equal' branch the
        # register is known to hold the remembered address although the two abstract values differ syntactically
        if not (isinstance(node, ast.Compare) and isinstance(val, tuple) and len(val) == 2 and isinstance(node.ops[0], (ast.Eq, ast.NotEq))):
            return
        equal = pol if isinstance(node.ops[0], ast.Eq) else (not pol)
        if not equal:
            return
        sh = nn.radio.shadow_value(st, 0x0A)
        p0f_ = nn.radio.user_pipe0_field()
        if p0f_ is None:
            return
        user = st.heap[nn.radio.ref.ident].fields.get(p0f_)
        for a, b in ((val[0], val[1]), (val[1], val[0])):
            if isinstance(a, Ref) and isinstance(sh, Ref) and a.ident == sh.ident and hasattr(b, "key") and hasattr(user, "key") and b.key() == user.key():
                ok, _d = nn.radio.shadow_matches(st, 0x0A)
                if ok:
                    st.extra["p0_equal"] = True
    nn.model.on_cond = on_cond
    # radio-state analysis: the queue classes (network/structs.py) never touch the radio -> summarised; paths through the
    # transmit helpers that agree on radio state, result and node fields are explored once
    structs_mod = P.modules["network.structs"]
    refs_radio = [n_ for n_ in ast.walk(structs_mod.tree) if isinstance(n_, (ast.Import, ast.ImportFrom)) and "rf24" in ast.unparse(n_)]
    agg.add("R07.0", (structs_mod.relpath, "<module>"), "network/structs.py never references the radio (frame condition of the enqueue summary)", not refs_radio, "imports %s" % [ast.unparse(x) for x in refs_radio])
    S = net.structs(P)
    for qc in ("FrameQueue", "FrameQueueFrag"):
        nn.model.opaque[P.method(S[qc], "enqueue").qualname] = net.sum_enqueue
    nn.merge_funcs = "*"
    nn.model.merge_key = net.radio_merge_key(nn)
    nn.model.loop_key = net.radio_loop_key(nn)
    nscen = 0
    # ---- _write in full (with _net_update summarised: it is only reached by recursion) --------------
    nn.model.opaque[f_upd.qualname] = sum_upd
    # every caller enters _write() in the listening state (checked at each nested call site below), so that is the pre-state
    for pre in ("listening",):
        for queue in (("FrameQueueFrag",) if only_write else ("FrameQueueFrag", "FrameQueue")):
            for send_type in (0, 1, 2, 3, 4):
                for mlen in (0, 30):
                    nscen += 1
                    st, node = nn.fresh(queue=queue, msg_len=mlen)
                    if pre == "tx":
                        tx_state(nn, st)
                    net.set_rng(st, "write_direct", (0, 0o7777))
                    outs = nn.run(f_write, node, [Sym("write_direct", "int", rng=(0, 0o7777)), send_type], st, limits=Limits(max_paths=80000, loop_unroll=2, depth=14, concrete_loop=10))
                    check_outs(nn, agg, f_write, outs, "_write(send_type=%d, %d-byte message) from %s state, %s" % (send_type, mlen, pre, queue))
                    agg.add("R07.1", f_write, "_write() has complete paths", any(o.kind == "return" for o in outs), "no complete path for send_type=%d" % send_type)
    nn.model.opaque.pop(f_upd.qualname, None)
    if only_write:
        return
    # ---- _net_update with _write as summary ---------------------------------------------------------------
    nn.model.opaque[f_write.qualname] = sum_write
    for clsmod, clsname in net.NODE_CLASSES:
        n2 = net.NetNode(ck, clsmod, clsname)
        n2.model = nn.model
        n2.radio = nn.radio
        # RF24Mesh.update() = the shared _net_update() (verified through the other three classes) + master-side replies:
        # analyse the master part from the summary of _net_update(), after checking that nothing _net_update() reaches is overridden
        use_sum = False
        if clsname == "RF24Mesh":
            base = P.cls("rf24_mesh", "RF24MeshNoMaster")
            ra = {f_ for f_, _r in reachable(P, f_upd, n2.cls)}
            rb = {f_ for f_, _r in reachable(P, f_upd, base)}
            agg.add("R07.1", P.method(n2.cls, "update"), "RF24Mesh overrides nothing that _net_update() reaches", ra == rb,
                    "differs in %s" % sorted(x.qualname for x in ra ^ rb))
            use_sum = ra == rb
        if use_sum:
            nn.model.opaque[f_upd.qualname] = sum_upd
        for queue in ("FrameQueueFrag", "FrameQueue"):
            nscen += 1
            st, node = n2.fresh(queue=queue)
            fu = P.method(n2.cls, "update")
            outs = n2.run(fu, node, [], st, limits=Limits(max_paths=80000, loop_unroll=2, depth=14, concrete_loop=10))
            check_outs(nn, agg, fu, outs, "%s.update(), %s" % (clsname, queue))
            agg.add("R07.1", fu, "update() has complete paths", any(o.kind == "return" for o in outs), "%s.update(): no complete path" % clsname)
        nn.model.opaque.pop(f_upd.qualname, None)
    # ---- R07.2 _begin for concrete addresses ---------------------------------------------------------------
    for addr in (0, 0o1, 0o5, 0o15, 0o321, 0o4444, 0o5555, 0o2134):
        for pre in ("listening", "tx"):
            nscen += 1
            st, node = nn.fresh()
            if pre == "tx":
                tx_state(nn, st)
            # a real _pipe_address is needed here: the pipe-0 address it returns becomes the node's own
            sv = nn.model.opaque.pop(P.method(mix, "_pipe_address").qualname)
            st.heap[node.ident].fields["allow_multicast"] = Const(True)
            try:
                outs = nn.run(f_begin, node, [addr], st)
            finally:
                nn.model.opaque[P.method(mix, "_pipe_address").qualname] = sv
            for out in outs:
                if out.kind != "return":
                    agg.add("R07.2", f_begin, "_begin() does not raise for a valid address", False, "_begin(0o%o) raises %s" % (addr, out.value.exc))
                    continue
                regs = out.state.extra["regs"]
                prob = []
                cfg = bits8(regs.get(0))
                if cfg is None or cfg[0] != 1 or cfg[1] != 1:
                    prob.append("not in RX mode")
                if const_of(norm(regs.get(contract.EN_AA))) != 0x3E:
                    prob.append("EN_AA=%r" % (regs.get(contract.EN_AA),))
                if const_of(norm(regs.get(contract.EN_RXADDR))) != 0x3F:
                    prob.append("EN_RXADDR=%r (six pipes must be open)" % (regs.get(contract.EN_RXADDR),))
                if const_of(norm(out.state.extra.get("ce"))) not in (1, True):
                    prob.append("CE low")
                opens = [e for e in out.trace if e.kind == "enter" and e.data == P.method(rf, "open_rx_pipe").qualname]
                if len(opens) != 6:
                    prob.append("%d open_rx_pipe calls" % len(opens))
                p0 = reg_bytes(nn.radio, out.state, 0x0A)
                user = out.state.heap[nn.radio.ref.ident].fields.get(nn.radio.user_pipe0_field())
                ub = nn.radio.it0.concrete_bytes(user, out.state)
                if p0 is None or ub is None or p0 != ub:
                    prob.append("RX_ADDR_P0 %r differs from the remembered pipe-0 address %r" % (p0, ub))
                agg.add("R07.2", f_begin, "_begin() leaves RX mode, EN_AA=0x3E, six pipes open on the node's addresses, pipe 0 remembered", not prob,
                        "_begin(0o%o) from %s state: %s" % (addr, pre, "; ".join(prob)))
                cell = out.state.heap[node.ident]
                agg.add("R07.2", f_begin, "_begin() records the new address", const_of(norm(cell.fields.get(net.FN("_addr")))) == addr, "_addr=%r" % (cell.fields.get(net.FN("_addr")),))
    # ---- every public entry point, with the verified callees as summaries ----------------------------
    nn.model.opaque[f_upd.qualname] = sum_upd
    nn.model.opaque[f_begin.qualname] = sum_begin
    nentry = 0
    radiomix = P.cls("network.mixins", "RadioMixin")
    prims = set(nn.model.prims.values())
    mode_funcs = {P.method(rf, "listen", "set"), P.method(rf, "auto_ack", "set"), P.method(rf, "open_rx_pipe"), P.method(rf, "open_tx_pipe"), P.method(rf, "close_rx_pipe")}
    for clsmod, clsname in net.NODE_CLASSES:
        n2 = net.NetNode(ck, clsmod, clsname)
        n2.model, n2.radio = nn.model, nn.radio
        cls = n2.cls
        seen = set()
        for c in cls.mro:
            if c is radiomix:
                continue
            members = [(nm, m, "method") for nm, m in c.methods.items()] + [(nm, p.setter, "setter") for nm, p in c.props.items() if p.setter is not None and p.setter.cls is c]
            for nm, fi, kind in members:
                if nm.startswith("_") or nm in seen:
                    continue
                hit = cls.lookup(nm)
                fi = hit[1] if hit[0] == "method" else hit[1].setter
                if fi is None:
                    continue
                seen.add(nm)
                if nm in ("update",):
                    continue  # analysed above without the _net_update summary
                reach = reachable(P, fi, cls)
                if not any(f_ in mode_funcs or f_ in (f_write, f_upd, f_begin) for f_, _r in reach):
                    continue
                nentry += 1
                args = []
                a = fi.node.args
                names = [x.arg for x in a.args][1:]
                anns = {x.arg: (ast.unparse(x.annotation) if x.annotation is not None else "") for x in a.args}
                st, node = n2.fresh()
                for pn in names:
                    ann = anns.get(pn, "")
                    if "RF24NetworkFrame" in ann:
                        args.append(net.sym_frame(st, P, pn))
                    elif "RF24NetworkHeader" in ann:
                        args.append(net.sym_header(st, P, pn))
                    elif "bytes" in ann or pn in ("message", "buf"):
                        args.append(Bytes([(("param", pn), Sym(("len", pn), "int", rng=(0, None)))], "byteslike"))
                        net.set_rng(st, ("len", pn), (0, None))
                    elif "bool" in ann:
                        args.append(Sym(pn, "bool"))
                    elif "float" in ann:
                        args.append(Sym(pn, "float"))
                    else:
                        net.set_rng(st, pn, (0, 65535))
                        args.append(Sym(pn, "int", rng=(0, 65535)))
                try:
                    outs = n2.run(fi, node, args, st, limits=Limits(max_paths=120000, loop_unroll=2, depth=14, concrete_loop=10))
                except AnalysisError as exc:
                    raise AnalysisError("entry %s.%s: %s" % (clsname, nm, exc))
                label = "%s.%s%s" % (clsname, nm, "=" if kind == "setter" else "()")
                check_outs(nn, agg, fi, outs, label)
                agg.add("R07.1", fi, "entry point has complete paths", any(o.kind == "return" for o in outs) or all(o.kind == "raise" for o in outs),
                        "%s: no complete path (loop bound)" % label)
    # ---- R07.3 who may switch to TX / appropriate pipe 0 / close pipes ------------------------------------
    nwho = 0
    for f in P.all_funcs():
        if f.module.name not in ("network.mixins", "rf24_network", "rf24_mesh"):
            continue
        if f.cls is radiomix:
            continue
        for node_ in iter_own_nodes(f.node):
            what = None
            if isinstance(node_, ast.Assign):
                for t in node_.targets:
                    if isinstance(t, ast.Attribute) and t.attr == "listen" and isinstance(node_.value, ast.Constant) and not node_.value.value:
                        what = "switches the radio to TX mode"
            if isinstance(node_, ast.Call) and isinstance(node_.func, ast.Attribute):
                if node_.func.attr == "open_tx_pipe":
                    what = "opens the TX pipe (appropriates pipe 0)"
                elif node_.func.attr in ("close_rx_pipe",):
                    what = "closes a pipe"
                elif node_.func.attr in ("set_dynamic_payloads",) or (node_.func.attr == "start_carrier_wave"):
                    what = "reconfigures dynamic payloads / carrier"
            if isinstance(node_, ast.Attribute) and isinstance(node_.value, ast.Attribute) and node_.value.attr == "_rf24" and node_.attr.startswith("_") and not node_.attr.startswith("__"):
                what = "touches private state of the radio object (%s)" % node_.attr
            if what:
                nwho += 1
                from .common import allowed_via_callers
                allowed = (allowed_via_callers(P, f, ("_write_to_pipe", "_begin", "multicast_level"))[0] and "private" not in what and "closes" not in what and "reconfigures" not in what)
                agg.add("R07.3", f, "only _write_to_pipe/_begin/multicast_level leave RX mode, and nobody closes pipes or touches the radio's private state", allowed,
                        "%s %s" % (f.qualname, what), node_)
    # "after a node_address assignment the radio listens on the node's own six pipes": the setter must run _begin() for every valid value,
    # also the current one (after power-down, inside a fresh `with`, or after new prefix/suffix bytes) - R04.8
    from . import c04
    c04.reconfigure(ck, agg)
    # "pipe 0 on its level's shared address": the multicast_level setter re-opens pipe 0 on the address of the level it stores (R14.1)
    from . import c14
    nn14 = net.NetNode(ck, "rf24_network", "RF24Network")
    c14.level_domain(ck, agg, nn14)
    # ... and that address is the same for every node of the level, whatever its digits (R14.4)
    c14.pipe_address(ck, agg, nn14)
    addr_writers(ck, agg)
    # the summaries above rest on the radio layer's pipe-0 discipline (open_rx_pipe(0, a) always remembers a, listen = True re-opens pipe 0
    # on it whatever the registers held before): R08.x, shared with C08
    from . import c08
    c08.run_for(ck, Radio(ck), agg)
    # "auto-ack disabled on pipe 0": the value the network layer hands to the auto_ack setter is the value that reaches EN_AA (R03.5, shared
    # with C03); "after any call": node_address = x reaches _begin() only for addresses _pipe_address() can translate (R15.3, shared with C15)
    from . import c03, c15
    from ..tables import contract as _ct
    c03.run_setters(Radio(ck), agg, _ct.SETTERS)
    c15.validator(ck, agg)
    agg.flush()
    ck.floor("R07", "_write/_net_update/_begin scenarios", nscen, 40)
    ck.floor("R07.1", "public entry points reaching the radio", nentry, 20)
    ck.floor("R07.3", "mode-changing sites in the network modules", nwho, 4)
