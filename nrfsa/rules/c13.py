"""C13 - NETWORK_ACK: awaited only when needed, sent once, believed only if received."""
import ast
from ..absval import Const, Sym, Bytes, Seq, norm, const_of, as_lin
from ..interp import Ref, Limits, State
from ..model import AnalysisError
from ..tables import rf24network as T
from .c03 import Agg, value_matches
from . import net, c07

NETWORK_ACK = T.CONSTANTS["NETWORK_ACK"]


def ack_type_region(ck, agg):
    S = net.structs(ck.prog)
    f = ck.prog.method(S["RF24NetworkFrame"], "is_ack_type")
    acc = []
    for t in range(256):
        st = State()
        fr = net.sym_frame(st, ck.prog, "frame", {"message_type": t})
        outs, it = net.run(ck, f, S["RF24NetworkFrame"], fr, [], st, decide=True)
        for out in outs:
            if out.kind == "return" and value_matches(out.value, True):
                acc.append(t)
            elif not (out.kind == "return" and value_matches(out.value, False)):
                agg.add("R13.1", f, "is_ack_type() is a total predicate", False, "type %d: %r" % (t, out.value))
    lo, hi = T.ACK_TYPE_RANGE
    agg.add("R13.1", f, "message types that expect a NETWORK_ACK are exactly 65..191", acc == list(range(lo, hi + 1)),
            "accepted types: %s" % (("%d..%d" % (acc[0], acc[-1]) if acc and acc == list(range(acc[0], acc[-1] + 1)) else acc),))
    agg.add("R13.5", f, "NETWORK_ACK itself is not an acknowledged type", NETWORK_ACK not in acc, "193 is in the ack-type region")
    return 256


def same(a, b):
    return hasattr(a, "key") and hasattr(b, "key") and norm(a).key() == norm(b).key()


def eq_test(out, x, y, before=None, after=None):
    """polarity of an equality test between values x and y on this path (True: established equal, False: established different, None)"""
    res = None
    for ev in out.trace:
        if ev.kind not in ("cond", "known") or not isinstance(ev.node, ast.Compare) or not isinstance(ev.node.ops[0], (ast.Eq, ast.NotEq)):
            continue
        if before is not None and ev.seq > before:
            continue
        if after is not None and ev.seq < after:
            continue
        val = ev.data[1]
        if not isinstance(val, tuple) or len(val) != 2:
            continue
        if (same(val[0], x) and same(val[1], y)) or (same(val[0], y) and same(val[1], x)):
            res = ev.data[0] if isinstance(ev.node.ops[0], ast.Eq) else (not ev.data[0])
    return res


def write_rules(ck, agg, nn):
    P = ck.prog
    mix = P.cls("network.mixins", "NetworkMixin")
    f = P.method(mix, "_write")
    f_wtp = P.method(mix, "_write_to_pipe")
    f_l2p = P.method(mix, "_logi_2_phys")
    f_upd = P.method(mix, "_net_update")
    sum_upd = c07.make_summary(nn, agg, "_net_update")
    nn.model.opaque[f_upd.qualname] = sum_upd
    nn.model.on_recursion = lambda it, st, fr, node, target, args, kw: sum_upd(nn.model, it, st, fr, node, target, [fr.self_val] + list(args), kw)
    S = net.structs(P)
    for qc in ("FrameQueue", "FrameQueueFrag"):
        nn.model.opaque[P.method(S[qc], "enqueue").qualname] = net.sum_enqueue
    emit_types, wait_types = set(), set()
    n = 0
    for mtype in (65, 100, 191, 0, 64, 192, NETWORK_ACK):
        for send_type in (0, 1, 2, 3, 4):
            n += 1
            st, node = nn.fresh(frame_pins={"message_type": mtype}, msg_len=4)
            net.set_rng(st, "write_direct", (0, 0o7777))
            wd = Sym("write_direct", "int", rng=(0, 0o7777))
            hdr = st.heap[st.heap[node.ident].fields["frame_buf"].ident].fields["header"]
            from_node0 = st.heap[hdr.ident].fields["from_node"]
            addr = st.heap[node.ident].fields[net.FN("_addr")]
            outs = nn.run(f, node, [wd, send_type], st, limits=Limits(max_paths=60000, loop_unroll=2, depth=14, concrete_loop=10))
            label = "_write(type %d, send_type %d)" % (mtype, send_type)
            is_ack = T.ACK_TYPE_RANGE[0] <= mtype <= T.ACK_TYPE_RANGE[1]
            for out in outs:
                if out.kind != "return":
                    agg.add("R13.2", f, "_write() does not raise", False, "%s raises %s" % (label, out.value.exc))
                    continue
                sends = [e for e in out.trace if e.kind == "enter" and e.data == f_wtp.qualname]
                acks = [e for e in out.trace if e.kind == "fieldwrite" and e.data[1] == "message_type" and const_of(norm(e.data[2])) == NETWORK_ACK]
                waits = [e for e in out.trace if e.kind == "summary" and e.data[0] == "_net_update"]
                l2p = [e for e in out.trace if e.kind == "leave" and e.data[0] == f_l2p.qualname]
                first_res = [e for e in out.trace if e.kind == "leave" and e.data[0] == f_wtp.qualname]
                if acks:
                    emit_types.add(send_type)
                    agg.add("R13.2", f, "a NETWORK_ACK is emitted only for acknowledged message types", is_ack, "%s emits a NETWORK_ACK" % label, acks[0].node)
                    agg.add("R13.2", f, "exactly one NETWORK_ACK transmission", len(sends) == 2 and len(acks) == 1, "%s: %d transmissions, %d ACK headers" % (label, len(sends), len(acks)))
                    # the first transmission succeeded
                    r1 = first_res[0].data[1] if first_res else None
                    okr = r1 is not None and any(e.kind == "cond" and e.data[0] is True and e.seq < acks[0].seq and same(e.data[1], r1) for e in out.trace) or (isinstance(norm(r1), Const) and bool(norm(r1).v))
                    agg.add("R13.2", f, "the NETWORK_ACK is emitted only after the frame was delivered to its destination", bool(okr), "%s: no test of the transmission result before the ACK" % label, acks[0].node)
                    # last hop: next hop == logical destination
                    nh = l2p[0].data[1].items[0] if l2p and isinstance(l2p[0].data[1], Seq) else None
                    pol = True if (nh is not None and same(nh, wd)) else (eq_test(out, nh, wd, before=acks[0].seq) if nh is not None else None)
                    agg.add("R13.2", f, "only the node that hands the frame to its final destination emits the NETWORK_ACK (next hop == destination)", pol is True,
                            "%s: ACK emitted without establishing next hop == destination" % label, acks[0].node)
                    pol = eq_test(out, from_node0, addr, before=acks[0].seq)
                    agg.add("R13.2", f, "no NETWORK_ACK to oneself (origin != this node)", pol is False, "%s: ACK emitted without establishing origin != own address" % label, acks[0].node)
                    # the ACK goes back to the origin, routed
                    hcell = out.state.heap[hdr.ident]
                    agg.add("R13.2", f, "the NETWORK_ACK is addressed to the frame's origin", same(hcell.fields.get("to_node"), from_node0), "ACK to_node %r" % (hcell.fields.get("to_node"),))
                    if len(l2p) >= 2:
                        e2 = [e for e in out.trace if e.kind == "enter" and e.data == f_l2p.qualname]
                    ok2 = len(l2p) == 2
                    agg.add("R13.2", f, "the NETWORK_ACK is routed with a second next-hop computation", ok2, "%d next-hop computations" % len(l2p))
                if waits:
                    wait_types.add(send_type)
                    agg.add("R13.3", f, "a NETWORK_ACK is awaited only for acknowledged message types", is_ack, "%s waits for a NETWORK_ACK" % label, waits[0].node)
                    agg.add("R13.3", f, "never both emit and await", not acks, label)
                    nh = l2p[0].data[1].items[0] if l2p and isinstance(l2p[0].data[1], Seq) else None
                    pol = False if nh is None else eq_test(out, nh, wd, before=waits[0].seq)
                    if nh is not None and same(nh, wd):
                        pol = True
                    agg.add("R13.3", f, "a NETWORK_ACK is awaited only when the route has an intermediate node (next hop != destination)", pol is False,
                            "%s: waits although next hop == destination is not excluded" % label, waits[0].node)
                    # outcome: believed only if received
                    got = any(e.kind == "cond" and isinstance(e.node, ast.Compare) and isinstance(e.data[1], tuple) and
                              any(isinstance(norm(x), Sym) and isinstance(norm(x).name, tuple) and norm(x).name[0] == "updret" for x in e.data[1]) and
                              any(const_of(norm(x)) == NETWORK_ACK for x in e.data[1]) and
                              ((isinstance(e.node.ops[0], ast.NotEq) and e.data[0] is False) or (isinstance(e.node.ops[0], ast.Eq) and e.data[0] is True))
                              for e in out.trace if e.seq > waits[-1].seq)
                    timed = [e for e in out.trace if e.kind == "cond" and e.data[0] is True and isinstance(e.data[1], tuple) and any(_clockish(x) for x in e.data[1]) and e.seq > waits[0].seq]
                    if got:
                        agg.add("R13.3", f, "True is reported when the NETWORK_ACK arrived", value_matches(out.value, True) or isinstance(norm(out.value), Sym), "%s returns %r" % (label, out.value))
                    elif timed:
                        agg.add("R13.3", f, "False is reported when route_timeout expires first", value_matches(out.value, False), "%s: timeout path returns %r" % (label, out.value))
                        dl = [x for x in timed[0].data[1] if "node.route_timeout" in net.base_deps(x)]
                        agg.add("R13.3", f, "the wait deadline is derived from route_timeout", bool(dl), "%s: deadline %r" % (label, timed[0].data[1]))
                        if dl:
                            # "within route_timeout after the first hop accepted the frame": the deadline is route_timeout (and nothing else
                            # configurable) added to a clock reading taken after the first transmission returned
                            from ..interp_expr import deps_of
                            raw = deps_of(norm(dl[0]))
                            clocks = {e.data: e.seq for e in out.trace if e.kind == "clock"}
                            used = [c for c in raw if c in clocks]
                            other = sorted(str(x) for x in raw if x not in clocks and x != "node.route_timeout" and not (isinstance(x, tuple) and x and x[0] == "node.route_timeout"))
                            agg.add("R13.3", f, "the wait deadline depends on route_timeout and the clock only", not other, "%s: the deadline also depends on %s" % (label, other))
                            t_sent = first_res[0].seq if first_res else 0
                            agg.add("R13.3", f, "the route timeout starts when the first hop has accepted the frame", bool(used) and all(clocks[c] > t_sent for c in used),
                                    "%s: the deadline uses a clock reading taken before the transmission to the first hop returned" % label)
                            ll = as_lin(norm(dl[0]))
                            if ll is not None and "node.route_timeout" in ll.terms:
                                agg.add("R13.3", f, "route_timeout (ms) is converted to the clock's unit (x 1 000 000 for monotonic_ns)", ll.terms["node.route_timeout"] == 1000000,
                                        "%s: deadline = %r" % (label, ll))
                    else:
                        agg.add("R13.3", f, "the wait ends only on NETWORK_ACK or on the route timeout", False, "%s: wait loop left otherwise, returning %r" % (label, out.value))
                if not acks and not waits and len(sends) > 1:
                    agg.add("R13.5", f, "no second transmission without NETWORK_ACK handling", False, "%s: %d transmissions" % (label, len(sends)))
                # R13.7 "never blocking longer than the transmit ... timeouts allow": each transmission of a single frame loads the payload
                # once and then re-sends it in at most one clock-bounded wait whose budget is tx_timeout
                spans = [(a_.seq, min([b_.seq for b_ in first_res if b_.seq > a_.seq] or [10 ** 9])) for a_ in sends]
                for lo_, hi_ in spans:
                    rs = [e for e in out.trace if e.kind == "radio-send" and lo_ < e.seq < hi_]
                    loads = [e for e in rs if e.data[0] == "send"]
                    stand = [e for e in rs if e.data[0] not in ("send", "resend")]
                    agg.add("R13.7", f_wtp, "a single frame is loaded once and re-sent within at most one tx_timeout wait", len(loads) <= 1 and len(stand) <= 1 and len(rs) == len(loads) + len(stand),
                            "%s: one transmission of a single frame can take %d payload load(s) and %d timed re-send wait(s) - the sender blocks for a multiple of tx_timeout" % (label, len(loads), len(stand)),
                            (stand[-1].node if stand else None))
                    for e in stand:
                        if e.data[1] is None and len(P.method(mix, "_tx_standby").params) == 1:
                            continue        # the wait reads tx_timeout itself: judged by standby_rule()
                        ll = as_lin(norm(e.data[1])) if e.data[1] is not None else None
                        agg.add("R13.7", f_wtp, "the re-send wait is budgeted with tx_timeout", ll is not None and ll.terms == {"node.tx_timeout": 1} and ll.c == 0,
                                "%s: the timed re-send wait is given %r" % (label, e.data[1]), e.node)
            cut = sum(1 for o in outs for e in o.trace if e.kind == "cut")
    agg.add("R13.2", f, "NETWORK_ACK emission is confined to routed traffic (send_type TX_ROUTED)", emit_types == {T.CONSTANTS["TX_ROUTED"]}, "emitting send types: %r" % sorted(emit_types))
    # TX_LOGICAL (user-chosen first hop) makes the first hop the 'destination' of this transmission, so its wait branch is unreachable by
    # construction (same in TMRh20); the origin's ordinary routed write (TX_NORMAL) must wait, forwarded/physical/multicast sends must not
    agg.add("R13.3", f, "NETWORK_ACK is awaited by the origin's routed write and never by forwarded, physical or multicast sends",
            T.CONSTANTS["TX_NORMAL"] in wait_types and wait_types <= {T.CONSTANTS["TX_NORMAL"], T.CONSTANTS["TX_LOGICAL"]}, "waiting send types: %r" % sorted(wait_types))
    return n


def _clockish(v):
    v = norm(v)
    return isinstance(v, Sym) and (v.attrs.get("role") == "clock" or any(isinstance(d, tuple) and d and d[0] == "clock" for d in net.base_deps(v)))


def receive_rule(ck, agg, nn):
    """R13.4: a received NETWORK_ACK is returned to the caller and never queued or answered"""
    P = ck.prog
    mix = P.cls("network.mixins", "NetworkMixin")
    f = P.method(mix, "_handle_frame_for_this_node")
    f_write = P.method(mix, "_write")
    nn.model.opaque[f_write.qualname] = c07.make_summary(nn, agg, "_write")
    n = 0
    for rsm in (True, False):
        n += 1
        st, node = nn.fresh(frame_pins={"message_type": NETWORK_ACK}, fields={"ret_sys_msg": rsm})
        outs = nn.run(f, node, net.handler_args(f, NETWORK_ACK), st)
        for out in outs:
            enq = [e for e in out.trace if e.kind == "enqueue"]
            wr = [e for e in out.trace if e.kind == "summary"]
            v = out.value
            ok = out.kind == "return" and isinstance(v, Seq) and len(v.items) == 2 and value_matches(v.items[0], False) and value_matches(v.items[1], NETWORK_ACK)
            agg.add("R13.4", f, "a received NETWORK_ACK makes update() return NETWORK_ACK to the waiting caller", ok, "ret_sys_msg=%r: returns %r" % (rsm, v))
            agg.add("R13.4", f, "a received NETWORK_ACK is never queued or answered", not enq and not wr, "ret_sys_msg=%r: enqueued=%d, transmissions=%d" % (rsm, len(enq), len(wr)))
    # R13.6: a NETWORK_ACK (or anything else) merely passing through is forwarded and NOT reported to the caller - otherwise a
    # writer waiting for its own NETWORK_ACK would believe a foreign one
    f2 = P.method(mix, "_handle_frame_for_other_node")
    S = net.structs(P)
    for qc in ("FrameQueue", "FrameQueueFrag"):
        nn.model.opaque[P.method(S[qc], "enqueue").qualname] = net.sum_enqueue
    for am in (True, False):
        for mtype in (NETWORK_ACK, 65, 0):
            n += 1
            st, node = nn.fresh(frame_pins={"message_type": mtype, "to_node": 0o25}, fields={"allow_multicast": am, net.FN("_addr"): 0o5, "ret_sys_msg": False})
            outs = nn.run(f2, node, net.handler_args(f2, mtype), st)
            for out in outs:
                v = out.value
                wr = [e for e in out.trace if e.kind == "summary" and e.data[0] == "_write"]
                enq = [e for e in out.trace if e.kind == "enqueue"]
                ok = out.kind == "return" and isinstance(v, Seq) and len(v.items) == 2 and value_matches(v.items[1], 0) and value_matches(v.items[0], True)
                agg.add("R13.6", f2, "a frame for another node is forwarded without its type being reported to the caller of update()", ok,
                        "allow_multicast=%r, type %d in transit: handler returns %r - update() would report a foreign frame's type (a foreign NETWORK_ACK would end the origin's wait)" % (am, mtype, v))
                agg.add("R13.6", f2, "a frame for another node is forwarded exactly once as routed traffic and not queued", len(wr) == 1 and not enq and const_of(norm(wr[0].data[3]["args"][1])) == T.CONSTANTS["TX_ROUTED"],
                        "allow_multicast=%r: %d forwards, %d enqueues" % (am, len(wr), len(enq)))
    nn.model.opaque.pop(f_write.qualname, None)
    return n


def standby_rule(ck, agg):
    """R13.7 (the wait itself): _tx_standby(t) takes one clock reading, adds t x 1 000 000 and re-sends only while the clock is below that"""
    from ..interp_expr import deps_of
    nn = net.NetNode(ck, "rf24_network", "RF24Network")
    mix = ck.prog.cls("network.mixins", "NetworkMixin")
    f = ck.prog.method(mix, "_tx_standby")
    nn.model.opaque.pop(f.qualname, None)
    st, node = nn.fresh()
    net.set_rng(st, "budget", (0, None))
    budget = Sym("budget", "int", rng=(0, None))
    if len(f.params) > 1:
        outs = nn.run(f, node, [budget], st, limits=Limits(max_paths=4000, loop_unroll=3, depth=8))
    else:
        # the wait takes no budget argument: it must read the node's tx_timeout itself (the same budget, judged here instead of at the call site)
        st.heap[node.ident].fields["tx_timeout"] = budget
        outs = nn.run(f, node, [], st, limits=Limits(max_paths=4000, loop_unroll=3, depth=8))
    n = 0
    for out in outs:
        if out.kind != "return":
            agg.add("R13.7", f, "_tx_standby() does not raise", False, "raises %s" % out.value.exc)
            continue
        n += 1
        clocks = {e.data: e.seq for e in out.trace if e.kind == "clock"}
        rs = [e for e in out.trace if e.kind == "radio-send"]
        # what the wait reports is what the radio reported for the last re-send (False when there was none) - not what the clock says
        v = norm(out.value) if hasattr(out.value, "key") else out.value
        if not rs:
            okv = isinstance(v, Const) and not v.v
        else:
            last = ("sendresult", out.state.extra.get("nsend", len(rs)))
            known = [e.data[0] for e in out.trace if e.kind == "cond" and not isinstance(e.data[1], tuple) and isinstance(norm(e.data[1]), Sym) and norm(e.data[1]).name == last]
            okv = (isinstance(v, Sym) and v.name == last) or (isinstance(v, Const) and isinstance(v.v, bool) and bool(known) and known[-1] is v.v)
        agg.add("R13.7", f, "_tx_standby() reports the radio's result of the last re-send (False if nothing was re-sent)", okv,
                "after %d re-send(s) the function returns %r - a delivered frame is reported as lost (no NETWORK_ACK is emitted for it) or the reverse" % (len(rs), out.value))
        for e in rs:
            # the re-send happens inside the time window: the latest decision before it compares a clock reading with budget*1e6 + earlier reading
            prior = [c for c in out.trace if c.kind == "cond" and c.seq < e.seq and isinstance(c.data[1], tuple) and any(_clockish(x) for x in c.data[1])]
            ok = False
            if prior:
                c = prior[-1]
                dls = [x for x in c.data[1] if "budget" in net.base_deps(x)]
                if dls:
                    ll = as_lin(norm(dls[0]))
                    raw = deps_of(norm(dls[0]))
                    used = [k for k in raw if k in clocks]
                    other = [k for k in raw if k not in clocks and k != "budget" and not (isinstance(k, tuple) and k and k[0] == "budget")]
                    ok = ll is not None and ll.terms.get("budget") == 1000000 and not other and len(used) == 1 and all(clocks[k] < min(r.seq for r in rs) for k in used)
            agg.add("R13.7", f, "every timed re-send is preceded by a test of the clock against start + budget x 1 000 000", ok,
                    "a re-send happens without the deadline test (deadline must be the budget in ms x 1 000 000 added to one clock reading taken before the first re-send)", e.node)
    agg.add("R13.7", f, "_tx_standby() has return paths (anchor)", n > 0, "no return path")
    return n


def run(ck):
    ck.explanation = (
        "Static analysis. R13.1: is_ack_type() is interpreted for all 256 message types: accepted set == 65..191 (and 193 excluded). R13.2/R13.3: "
        "NetworkMixin._write is abstractly interpreted for message types on both sides of each boundary x all five send types with symbolic "
        "addresses; on every path that writes NETWORK_ACK into the header (emit) or calls _net_update() (wait) the path condition is inspected by "
        "value identity, not text: emit requires success of the first transmission, an acknowledged type, next hop == destination, origin != own "
        "address, exactly one extra transmission addressed to the origin and routed by a second next-hop computation, and occurs only for "
        "TX_ROUTED; wait requires an acknowledged type, next hop != destination, occurs only for TX_NORMAL/TX_LOGICAL, ends only on a received "
        "NETWORK_ACK (True) or on a clock test whose deadline derives from route_timeout (False). R13.4: a received NETWORK_ACK is returned, never "
        "queued or answered. R13.7: every transmission of a single frame loads the payload once and is followed by at most one timed re-send wait "
        "budgeted with tx_timeout; the wait itself re-sends only while the clock is below one earlier reading + budget x 1 000 000.")
    ck.not_decided = ["that the ACK arrives on air, and the wall-clock bound (nested forwarding inside the wait loop)"]
    agg = Agg(ck)
    nn = net.NetNode(ck, "rf24_network", "RF24Network")
    nn.merge_funcs = set()
    n1 = ack_type_region(ck, agg)
    n2 = write_rules(ck, agg, nn)
    n3 = receive_rule(ck, agg, nn)
    n4 = standby_rule(ck, agg)
    # "believed only if received": a NETWORK_ACK that arrived must reach the handler above - the reception path drops only frames that are
    # too short or carry an invalid address (R05.3/R05.6, shared with C05)
    from . import c05
    c05.receive(ck, agg, net.NetNode(ck, "rf24_network", "RF24Network"))
    # "the NETWORK_ACK goes back to the origin": the origin a frame names is the node that called write()/send() (R05.9, shared with C05)
    c05.validate(ck, agg, net.NetNode(ck, "rf24_network", "RF24Network"))
    # _write() ends every transmission with `listen = True`: the radio layer's setters must not clear MAX_RT on the way, or the frame of a
    # failed write() goes out (and is acknowledged) in front of the next one (R03.8, shared with C03)
    from . import c03
    from .radio import Radio
    from ..tables import contract as _ct
    c03.run_setters(Radio(ck), agg, _ct.SETTERS)
    from . import c08
    c08.events_kept(Radio(ck), agg)
    # tx_timeout / route_timeout are the application's: re-addressing (_begin) must leave them alone (R04.6 frame condition)
    from . import c04
    c04.begin_structure(ck, agg, net.NetNode(ck, "rf24_network", "RF24Network"))
    # who is "the last hop" and who waits is decided by comparing the destination with the next hop _logi_2_phys() computes (R04.5), and the
    # hardware ACK of that hop is heard only if open_tx_pipe() put pipe 0 on the TX address (R08.x, shared with C04 / C08)
    c04.next_hop(ck, agg, net.NetNode(ck, "rf24_network", "RF24Network"))
    c04.child_window(ck, agg, net.NetNode(ck, "rf24_network", "RF24Network"))
    c08.run_for(ck, Radio(ck), agg)
    agg.flush()
    ck.floor("R13.7", "timed re-send paths", n4, 2)
    ck.floor("R13.1", "message types", n1, 256)
    ck.floor("R13.2", "_write scenarios", n2, 35)
    ck.floor("R13.4", "receive scenarios", n3, 2)
