"""C11 - header and fragment wire formats are stable and TMRh20-compatible."""
import ast
from ..absval import Const, Sym, Bytes, Seq, Lin, BitV, norm, const_of, as_lin, lin_add, interval
from ..interp import Ref, Limits, State
from ..interp_ext import parse_fmt, fmt_size
from ..model import AnalysisError, iter_own_nodes
from ..tables import rf24network as T
from .c03 import Agg, value_matches
from . import net


def header_ctor(ck, agg):
    """R11.9: a freshly constructed header holds values that survive pack()/unpack() unchanged - in particular the frame id, taken from a
    class-level counter, is a 16-bit value for every value the counter can have, and the counter itself stays within 16 bits (wrap-around)"""
    from ..absval import interval
    P = ck.prog
    S = net.structs(P)
    hc = S["RF24NetworkHeader"]
    init = hc.lookup("__init__")[1]
    # the class attribute(s) the constructor reads and writes (the id counter)
    # (written by the constructor itself or by a helper method of the class it calls)
    ctrs = sorted({t.attr for m in hc.methods.values() for x in ast.walk(m.node) if isinstance(x, (ast.Assign, ast.AugAssign))
                   for t in (x.targets if isinstance(x, ast.Assign) else [x.target])
                   if isinstance(t, ast.Attribute) and isinstance(t.value, ast.Name) and t.value.id in (hc.name, "cls")})
    agg.add("R11.9", init, "the constructor draws the frame id from a class-level counter (anchor)", len(ctrs) == 1, "class attributes written: %r" % (ctrs,))
    if len(ctrs) != 1:
        return 0
    ctr = ctrs[0]
    n = 0
    for lo, hi, what in ((0, 0xFFFE, "below the wrap"), (0xFFFF, 0xFFFF, "at 0xFFFF")):
        n += 1
        st = State()
        st.extra[("classattr", hc.qualname, ctr)] = Sym("counter", "int", rng=(lo, hi)) if lo != hi else Const(lo)
        if lo != hi:
            st.extra["symrng"] = {"counter": (lo, hi)}
        h = st.alloc("obj", cls=hc, label="hdr")
        outs, it = net.run(ck, init, hc, h, [Const(0o1), Const(65)], st)
        for out in outs:
            if out.kind != "return":
                agg.add("R11.9", init, "the header constructor does not raise", False, "raises %s" % out.value.exc)
                continue
            fid = out.state.heap[h.ident].fields.get("frame_id")
            nxt = out.state.extra.get(("classattr", hc.qualname, ctr))
            for nm, v in (("the new header's frame id", fid), ("the class-level id counter", nxt)):
                iv = interval(norm(v)) if v is not None and hasattr(v, "key") else None
                if iv is None or None in iv:
                    c = const_of(norm(v)) if v is not None and hasattr(v, "key") else None
                    iv = (c, c) if isinstance(c, int) else None
                if iv is None and v is not None and hasattr(v, "key"):
                    from ..absval import as_lin
                    l = as_lin(norm(v))
                    if l is not None and set(l.terms) <= {"counter"}:
                        k = l.terms.get("counter", 0)
                        iv = (min(k * lo, k * hi) + l.c, max(k * lo, k * hi) + l.c)
                agg.add("R11.9", init, "%s stays a 16-bit value (it is packed as uint16: a larger value in memory would differ from what is on the wire)" % nm,
                        iv is not None and 0 <= iv[0] and iv[1] <= 0xFFFF, "counter %s: %s becomes %r (range %r)" % (what, nm, v, iv))
    return n


def frame_ctor(ck, agg):
    """R11.10: "a frame is its header followed by the unmodified message" from the moment it is built: RF24NetworkFrame(header, message)
    packs into header.pack() + message - all five header fields are the given header's (by reference or by copy), the message the given one;
    without arguments: a default header and an empty message"""
    P = ck.prog
    S = net.structs(P)
    fc = S["RF24NetworkFrame"]
    init = fc.lookup("__init__")[1]
    fp = P.method(fc, "pack")
    n = 0
    for given in (True, False):
        st = State()
        fr = st.alloc("obj", cls=fc, label="newframe")
        args = []
        if given:
            hdr = net.sym_header(st, P, "hdr")
            net.set_rng(st, ("len", "msg"), (0, None))
            msg = Bytes([(("param", "msg"), Sym(("len", "msg"), "int", rng=(0, None)))], "bytes", origin=("param", "msg"))
            args = [hdr, msg]
        outs, it = net.run(ck, init, fc, fr, args, st)
        for out in outs:
            if out.kind != "return":
                agg.add("R11.10", init, "building a frame from a header and a bytes message does not raise", False, "raises %s" % out.value.exc)
                continue
            s2 = out.state.fork()
            s2.trace = []
            for o2 in net.run(ck, fp, fc, fr, [], s2)[0]:
                n += 1
                v = o2.value
                parts = [p_[0] for p_ in v.parts] if o2.kind == "return" and isinstance(v, Bytes) else []
                pk = parts[0] if parts and parts[0][0] == "pack" else None
                if pk is None or len(pk[2]) != 5:
                    agg.add("R11.10", init, "a new frame packs into header + message", False, "RF24NetworkFrame(%s).pack() gives %r" % ("header, message" if given else "", v))
                    continue
                if given:
                    bad = [fl for i_, fl in enumerate(net.HDR_FIELDS) if net.base_deps(pk[2][i_]) != {"hdr." + fl}]
                    agg.add("R11.10", init, "a frame built from a header carries all five fields of that header", not bad,
                            "RF24NetworkFrame(header, message).pack(): field(s) %s are not the given header's (%r)" % (", ".join(bad), [pk[2][net.HDR_FIELDS.index(b)] for b in bad]))
                    okm = len(parts) == 2 and (parts[1] == ("param", "msg") or (parts[1][0] == "slice" and parts[1][1] == ("param", "msg") and parts[1][2] == 0 and parts[1][3] is None))
                    agg.add("R11.10", init, "a frame built from a message carries that message unmodified", okm, "RF24NetworkFrame(header, message).pack(): message part %r" % (parts[1:],))
                else:
                    ln = const_of(norm(v.length()))
                    agg.add("R11.10", init, "a frame built without arguments is a bare 8-byte header", ln == T.HEADER_SIZE, "RF24NetworkFrame().pack() has %r bytes" % (ln,))
    return n


def header_rules(ck, agg):
    P = ck.prog
    S = net.structs(P)
    hc, fc = S["RF24NetworkHeader"], S["RF24NetworkFrame"]
    f_pack, f_unpack, f_len = P.method(hc, "pack"), P.method(hc, "unpack"), P.method(hc, "__len__")
    n = header_ctor(ck, agg)
    # ---- pack: format, order, masks (fields unconstrained so that the masks are what makes the arguments fit)
    st = State()
    h = st.alloc("obj", cls=hc, label="hdr")
    for fld in net.HDR_FIELDS:
        st.heap[h.ident].fields[fld] = Sym("hdr." + fld, "int")
    outs, it = net.run(ck, f_pack, hc, h, [], st)
    pack_fmt = None
    for out in outs:
        n += 1
        if out.kind != "return":
            agg.add("R11.4", f_pack, "pack() never raises for integer fields", False, "raises %s" % out.value.exc, out.value.node)
            continue
        v = out.value
        tag = v.parts[0][0] if isinstance(v, Bytes) and len(v.parts) == 1 else None
        ok = tag is not None and tag[0] == "pack"
        agg.add("R11.1", f_pack, "pack() returns one struct.pack of the five fields", ok, "returns %r" % (v,))
        if not ok:
            continue
        pack_fmt = tag[1]
        order, codes = parse_fmt(tag[1])
        agg.add("R11.5", f_pack, "header format has no big-endian prefix", order in ("", "<", "=", "@"), "format %r" % tag[1])
        agg.add("R11.1", f_pack, "header layout is HHHBB (TMRh20)", codes == list(T.HEADER_CODES), "format %r" % tag[1])
        agg.add("R11.2", f_pack, "packed header is 8 bytes", fmt_size(tag[1]) == T.HEADER_SIZE and const_of(norm(v.parts[0][1])) == T.HEADER_SIZE, "size %r" % fmt_size(tag[1]))
        for k, (arg, fld) in enumerate(zip(tag[2], T.HEADER_ORDER)):
            agg.add("R11.1", f_pack, "packed field %d is %s" % (k, fld), net.base_deps(arg) == {"hdr." + fld}, "argument %d depends on %r" % (k, sorted(map(str, net.base_deps(arg)))))
        bad = [e for e in out.trace if e.kind == "packarg" and not e.data[3]]
        agg.add("R11.4", f_pack, "every packed argument is masked to the range of its format code", not bad,
                "argument %r may not fit code %r (struct.error)" % ((bad[0].data[2], bad[0].data[1]) if bad else ("", "")), bad[0].node if bad else None)
        for k, (arg, fld) in enumerate(zip(tag[2], T.HEADER_ORDER)):
            iv = interval(norm(arg))
            want = T.HEADER_MASKS[fld]
            agg.add("R11.1", f_pack, "field %s is sent with mask 0x%X" % (fld, want), iv is not None and iv == (0, want), "range of packed %s: %r" % (fld, iv))
    # ---- unpack: refusal region, format, targets
    st = State()
    h = net.sym_header(st, P, "hdr")
    net.set_rng(st, ("len", "buffer"), (0, None))
    buf = Bytes([(("param", "buffer"), Sym(("len", "buffer"), "int", rng=(0, None)))], "byteslike", origin=("param", "buffer"))
    outs, it = net.run(ck, f_unpack, hc, h, [buf], st)
    acc, rej = [], []
    for out in outs:
        n += 1
        rng = out.state.extra["symrng"].get(("len", "buffer"))
        if out.kind != "return":
            agg.add("R11.3", f_unpack, "unpack() never raises", False, "len in %r raises %s" % (rng, out.value.exc), out.value.node)
            continue
        ups = [e for e in out.trace if e.kind == "unpack"]
        if value_matches(out.value, False):
            rej.append(rng)
            agg.add("R11.3", f_unpack, "a refused buffer changes no field", not [e for e in out.trace if e.kind == "fieldwrite"] and not ups, "fields written on the refusing path")
            continue
        acc.append(rng)
        agg.add("R11.3", f_unpack, "unpack() returns True when it decoded", value_matches(out.value, True), "returns %r" % (out.value,))
        agg.add("R11.3", f_unpack, "struct.unpack receives exactly 8 bytes", len(ups) == 1 and ups[0].data[3], "unpack of %r bytes" % (ups[0].data[2] if ups else None,), ups[0].node if ups else None)
        if ups:
            agg.add("R11.1", f_unpack, "unpack() uses the same format as pack()", ups[0].data[0] == pack_fmt, "pack %r vs unpack %r" % (pack_fmt, ups[0].data[0]))
            src = ups[0].data[1]
            tg = src.parts[0][0] if isinstance(src, Bytes) and len(src.parts) == 1 else None
            # buffer[0:8] handed to unpack(), or the whole buffer handed to unpack_from() at offset 0: the same eight bytes
            whole_at_0 = len(ups[0].data) > 4 and const_of(norm(ups[0].data[4])) == 0 and tg == ("param", "buffer")
            agg.add("R11.2", f_unpack, "the header is read from buffer[0:8]", whole_at_0 or (tg is not None and tg[0] == "slice" and tg[1] == ("param", "buffer") and tg[2] == 0 and tg[3] == T.HEADER_SIZE), "decodes %r" % (tg,))
        cell = out.state.heap[h.ident]
        for k, fld in enumerate(T.HEADER_ORDER):
            v = cell.fields.get(fld)
            src = v.attrs.get("unpack") if isinstance(v, Sym) else None
            agg.add("R11.1", f_unpack, "unpacked value %d is stored in %s" % (k, fld), src is not None and src[1] == k, "%s <- %r" % (fld, src[:2] if src else v))
    agg.add("R11.3", f_unpack, "buffers shorter than 8 bytes are refused, all others decoded",
            sorted(rej) == [(0, T.HEADER_SIZE - 1)] and sorted(acc, key=str) == [(T.HEADER_SIZE, None)], "refused %r, accepted %r" % (rej, acc))
    # ---- __len__
    st = State()
    h = net.sym_header(st, P, "hdr")
    outs, it = net.run(ck, f_len, hc, h, [], st)
    for out in outs:
        n += 1
        agg.add("R11.2", f_len, "len(header) == 8", out.kind == "return" and value_matches(out.value, T.HEADER_SIZE), "returns %r" % (out.value,))
    # ---- frame pack / unpack / len
    fp, fu, fl = P.method(fc, "pack"), P.method(fc, "unpack"), P.method(fc, "__len__")
    st = State()
    fr = net.sym_frame(st, P, "frame")
    outs, it = net.run(ck, fp, fc, fr, [], st)
    for out in outs:
        n += 1
        v = out.value
        tags = [p[0] for p in v.parts] if isinstance(v, Bytes) else []
        ok = out.kind == "return" and len(tags) == 2 and tags[0][0] == "pack" and tags[1] == ("sym", "frame.message")
        agg.add("R11.8", fp, "frame = header.pack() + the unmodified message", ok, "returns parts %r" % (tags,))
        agg.add("R11.8", fp, "the frame image is immutable bytes", isinstance(v, Bytes) and v.kind == "bytes" and v.origin is None, "kind %r" % (getattr(v, "kind", None),))
    st = State()
    fr = net.sym_frame(st, P, "frame")
    net.set_rng(st, ("len", "buffer"), (0, None))
    buf = Bytes([(("param", "buffer"), Sym(("len", "buffer"), "int", rng=(0, None)))], "byteslike", origin=("param", "buffer"))
    outs, it = net.run(ck, fu, fc, fr, [buf], st)
    for out in outs:
        n += 1
        if out.kind != "return":
            agg.add("R11.8", fu, "frame.unpack() never raises", False, "raises %s" % out.value.exc)
            continue
        if value_matches(out.value, False):
            m = out.state.heap[fr.ident].fields.get("message")
            agg.add("R11.8", fu, "a refused buffer leaves the message untouched", isinstance(m, Bytes) and [p[0] for p in m.parts] == [("sym", "frame.message")], "message becomes %r" % (m,))
            continue
        m = out.state.heap[fr.ident].fields.get("message")
        tg = m.parts[0][0] if isinstance(m, Bytes) and len(m.parts) == 1 else None
        agg.add("R11.8", fu, "message = buffer[8:] unmodified", tg is not None and tg[0] == "slice" and tg[1] == ("param", "buffer") and tg[2] == T.HEADER_SIZE and const_of(norm(Const(tg[3])) if isinstance(tg[3], int) else Const(None)) is None,
                "message %r" % (tg,))
    st = State()
    fr = net.sym_frame(st, P, "frame")
    outs, it = net.run(ck, fl, fc, fr, [], st)
    for out in outs:
        n += 1
        l = as_lin(norm(out.value)) if out.kind == "return" else None
        agg.add("R11.2", fl, "len(frame) == 8 + len(message)", l is not None and l.c == T.HEADER_SIZE and l.terms == {("len", "frame.message"): 1}, "returns %r" % (out.value,))
    return n


def constants(ck, agg):
    m = ck.prog.modules["network.constants"]
    n = 0
    for name, want in T.CONSTANTS.items():
        n += 1
        try:
            got = ck.prog.const_value(m, name)
        except ValueError:
            got = None
        agg.add("R11.7", (m.relpath, "<module>"), "%s == %s (TMRh20 RF24Network/RF24Mesh)" % (name, oct(want) if "ADDR" in name else want), got == want, "%s is %r" % (name, got))
    try:
        mf = ck.prog.const_value(m, "MAX_FRAG_SIZE")
    except ValueError:
        mf = None
    agg.add("R11.2", (m.relpath, "<module>"), "header (8) + MAX_FRAG_SIZE == 32, the radio's payload limit", mf is not None and T.HEADER_SIZE + mf == 32, "MAX_FRAG_SIZE %r" % (mf,))
    return n


def went_on_after_loss(trace):
    """indices k of payload loads that happen although the previous load (and its timed re-sends) was never found delivered on the path"""
    allrs = [e for e in trace if e.kind == "radio-send"]
    sends = [e for e in allrs if e.data[0] == "send"]
    bad = []
    for k_ in range(1, len(sends)):
        idx = {allrs.index(e) + 1 for e in allrs if sends[k_ - 1].seq <= e.seq < sends[k_].seq}
        okd = any(e.kind == "cond" and e.data[0] is True and sends[k_ - 1].seq < e.seq < sends[k_].seq and not isinstance(e.data[1], tuple) and
                  isinstance(norm(e.data[1]), Sym) and isinstance(norm(e.data[1]).name, tuple) and norm(e.data[1]).name[0] == "sendresult" and norm(e.data[1]).name[1] in idx
                  for e in trace)
        if not okd:
            bad.append(k_)
    return bad


def fragment_loop(ck, agg, rule="R11.6"):
    """R11.6: what _write_to_pipe emits for a long message"""
    P = ck.prog
    nn = net.NetNode(ck, "rf24_network", "RF24Network")
    mix = P.cls("network.mixins", "NetworkMixin")
    f = P.method(mix, "_write_to_pipe")
    M = T.CONSTANTS["MAX_FRAG_SIZE"]
    # retry histories that end in the same abstract state (same loop variables, same radio state) are explored once;
    # every merged history has issued the same RF24.send() calls, so the recorded frames are representative
    base_key = net.radio_loop_key(nn)

    def frag_key(it, st, fr):
        # ... but never a history that went on after an undelivered fragment with one that did not (the abort rule below reads that)
        return (base_key(it, st, fr), tuple(went_on_after_loss(st.trace)))
    nn.model.loop_key = frag_key
    n = 0
    for mlen in (0, 1, 23, 24, 25, 47, 48, 49, 72, 73, 144):
        for mtype in (0, 65, 127):
            n += 1
            st, node = nn.fresh(frame_pins={"message_type": mtype}, msg_len=mlen, addr=0o1)
            fb = st.heap[node.ident].fields["frame_buf"]
            hdr0 = st.heap[fb.ident].fields["header"]
            outs = nn.run(f, node, [Const(0o2), Const(5), Const(False)], st, limits=Limits(max_paths=60000, loop_unroll=7, depth=14))
            total = -(-mlen // M)
            label = "%d-byte message of type %d" % (mlen, mtype)
            full = 0
            for out in outs:
                if out.kind != "return":
                    agg.add(rule, f, "sending does not raise", False, "%s raises %s" % (label, out.value.exc))
                    continue
                sends = [e for e in out.trace if e.kind == "radio-send" and e.data[0] == "send"]
                # header type restored on every exit
                fbh = out.state.heap[out.state.heap[node.ident].fields["frame_buf"].ident].fields["header"]
                mt = out.state.heap[fbh.ident].fields.get("message_type")
                agg.add(rule, f, "the caller's header shows its original type again on every exit (abort included)", value_matches(mt, mtype),
                        "%s: after %d frame(s) the header type is left as %r" % (label, len(sends), mt))
                if mlen <= M:
                    agg.add(rule, f, "a message of at most 24 bytes is one frame", len(sends) <= 1, "%s: %d frames" % (label, len(sends)))
                    for ev in sends:
                        # ... and that frame is the unmodified header followed by the whole message (0..24 bytes fit one radio payload)
                        buf = ev.data[1]
                        parts = list(buf.parts) if isinstance(buf, Bytes) else []
                        pk = parts[0][0] if parts and parts[0][0][0] == "pack" else None
                        okh = pk is not None and len(pk[2]) == 5 and const_of(norm(pk[2][3])) == mtype and net.base_deps(pk[2][4]) == {"frame_buf.header.reserved"} and \
                            all(net.base_deps(pk[2][i_]) == {"frame_buf.header." + fl_} for i_, fl_ in enumerate(("from_node", "to_node", "frame_id")))
                        agg.add(rule, f, "a message that fits one frame travels under its own, unmodified header", okh,
                                "%s: the single frame's header is %r (type must stay %d, reserved and the addresses the caller's)" % (label, pk[2] if pk else parts[:1], mtype))
                        body = parts[1:] if pk is not None else []
                        okb = const_of(norm(buf.length())) == 8 + mlen if isinstance(buf, Bytes) else False
                        for tag, _ln in body:
                            okb = okb and (tag == ("sym", "frame_buf.message") or (tag[0] == "slice" and tag[1] == ("sym", "frame_buf.message") and tag[2] == 0))
                        agg.add(rule, f, "a message that fits one frame is sent whole", okb, "%s: the single frame is %r" % (label, [t_ for t_, _l in parts]))
                    continue
                agg.add(rule, f, "never more than ceil(n/24) frames", len(sends) <= total, "%s: %d frames" % (label, len(sends)))
                # a fragment that could not be delivered ends the message: the next fragment is loaded only after the previous one was
                # reported delivered (by send() or by one of its timed re-sends) - otherwise the receiver gets FIRST .. LAST with a hole
                for k_ in went_on_after_loss(out.trace):
                    agg.add(rule, f, "the next fragment is sent only after the previous one was delivered (an undelivered fragment aborts the message)", False,
                            "%s: fragment %d is loaded on a path on which fragment %d was never reported delivered - the sender goes on after a lost fragment, the receiver splices what arrives" % (label, k_ + 1, k_), sends[k_].node)
                if len(sends) > 1:
                    agg.add(rule, f, "the next fragment is sent only after the previous one was delivered (an undelivered fragment aborts the message)", True, "")
                pos = 0
                for k, ev in enumerate(sends):
                    buf = ev.data[1]
                    tags = [p[0] for p in buf.parts] if isinstance(buf, Bytes) else []
                    ok = len(tags) == 2 and tags[0][0] == "pack" and tags[1][0] == "slice" and tags[1][1] == ("sym", "frame_buf.message")
                    agg.add(rule, f, "each frame is header.pack() + a slice of the message", ok, "%s: frame %d parts %r" % (label, k, tags))
                    if not ok:
                        break
                    args = tags[0][2]
                    typ, res, fid = const_of(norm(args[3])), const_of(norm(args[4])), args[2]
                    last = k == total - 1
                    want_t = T.CONSTANTS["MSG_FRAG_LAST"] if last else (T.CONSTANTS["MSG_FRAG_FIRST"] if k == 0 else T.CONSTANTS["MSG_FRAG_MORE"])
                    agg.add(rule, f, "fragments are typed first / more / last", typ == want_t, "%s: fragment %d of %d has type %r, expected %d" % (label, k + 1, total, typ, want_t))
                    want_r = mtype if last else total - k
                    agg.add(rule, f, "reserved counts down from the fragment total; the last fragment carries the original type", res == want_r,
                            "%s: fragment %d of %d has reserved %r, expected %d" % (label, k + 1, total, res, want_r))
                    agg.add(rule, f, "all fragments share the message's frame id", net.base_deps(fid) == {"frame_buf.header.frame_id"}, "%s: frame id of fragment %d is %r" % (label, k, fid))
                    lo, hi = tags[1][2], tags[1][3]
                    hi = const_of(norm(Const(hi))) if isinstance(hi, int) else None
                    if isinstance(hi, int):
                        hi = min(hi, mlen)      # a slice bound beyond the end is clamped by Python: message[24:48] of 25 bytes is [24:25]
                    want_hi = min(mlen, pos + M)
                    agg.add(rule, f, "fragment boundaries partition the message in 24-byte steps", lo == pos and hi == want_hi, "%s: fragment %d covers [%r:%r], expected [%d:%d]" % (label, k, lo, tags[1][3], pos, want_hi))
                    ln = const_of(norm(buf.length()))
                    agg.add(rule, f, "every on-air frame is at most 32 bytes", isinstance(ln, int) and ln <= 32, "%s: frame %d is %r bytes" % (label, k, ln))
                    so = ev.data[2].get("send_only")
                    agg.add(rule, f, "frames are sent with send_only (no ACK payload fetch)", so is not None and value_matches(so, True), "send_only=%r" % (so,))
                    pos = want_hi
                if len(sends) == total:
                    full += 1
            if mlen <= M:
                agg.add(rule, f, "a message of at most 24 bytes is transmitted (anchor)", any(o.kind == "return" and [e for e in o.trace if e.kind == "radio-send" and e.data[0] == "send"] for o in outs), "%s: nothing is sent" % label)
            if mlen > M:
                agg.add(rule, f, "a fully successful path emits exactly ceil(n/24) frames", full >= 1, "%s: no path emits all %d fragments" % (label, total))
    return n


def run(ck):
    ck.explanation = (
        "Static analysis of network/structs.py and the fragment loop of NetworkMixin._write_to_pipe. R11.1-R11.5: RF24NetworkHeader.pack/unpack are "
        "abstractly interpreted with unconstrained fields: one struct.pack of format HHHBB without big-endian prefix whose i-th argument depends on "
        "exactly the i-th TMRh20 field and is masked into the range of its code; unpack uses the same format, stores value i into field i, reads "
        "buffer[0:8], and the region of buffer lengths it refuses is exactly [0,7]; len() == 8 == 32 - MAX_FRAG_SIZE. R11.8: frame = header + "
        "unmodified message; unpack keeps buffer[8:]. R11.7: 30 protocol constants equal the TMRh20 table. R11.6: _write_to_pipe is interpreted "
        "for message lengths around every fragment boundary (24..144) x types; every emitted radio payload (the argument of RF24.send) is checked: "
        "count <= ceil(n/24) and == on the all-success path, types first/more/last, reserved = total - k with the original type in the last one, "
        "shared frame id, contiguous 24-byte partition, <= 32 bytes on air, header type restored on every exit including aborts.")
    ck.not_decided = ["running a reference (TMRh20) reassembler over the frames; the byte-level little-endian claim on big-endian hosts (none supported)"]
    agg = Agg(ck)
    n_fc = frame_ctor(ck, agg)
    n1 = header_rules(ck, agg)
    n2 = constants(ck, agg)
    n3 = fragment_loop(ck, agg)
    # "all message lengths 0..144": the senders' length gate admits exactly the lengths that can be sent, the maximum included (R05.2)
    from . import c05
    n_v = c05.validate(ck, agg, net.NetNode(ck, "rf24_network", "RF24Network"))
    # ... and the limit the gate compares with is 144 again whenever fragmentation is (re-)enabled, 24 when it is disabled (R12.6, shared
    # with C12: the fragmentation setter scenarios start from both settings)
    from . import c12
    c12.move_ctor(ck, agg, net.queue_field(ck.prog))
    # "a frame is its header followed by the unmodified message" on the air: the radio layer loads exactly the bytes it is given when
    # dynamic payloads are on - also while the network layer has auto-ack switched off for a multicast (R01.1 / R01.2, shared with C01)
    from . import link, c13
    from .radio import Radio
    rd = Radio(ck)
    link.write_gate(rd, agg)
    link.write_static(rd, agg)
    link.write_cmd(rd, agg)
    # "ceil(n/24) frames such that a receiver reassembles exactly the original": a fragment counts as sent only if the radio said so -
    # the timed re-send reports the radio's last result (R13.7, shared with C13)
    c13.standby_rule(ck, agg)
    # "frames of one message only": after an aborted message the dead fragment is flushed by the next send() because MAX_RT is still latched -
    # no setter the network layer calls in between may clear it (R03.8, shared with C03), and send() flushes on it (R02.4)
    from . import c03, c08
    from ..tables import contract as _ct
    c03.run_setters(rd, agg, _ct.SETTERS)
    c08.events_kept(rd, agg)
    link.send_prologue(rd, agg)
    agg.flush()
    ck.floor("R11.1", "header/frame codec paths", n1, 8)
    ck.floor("R11.10", "frame constructor paths", n_fc, 2)
    ck.floor("R11.7", "protocol constants", n2, 25)
    ck.floor("R11.6", "fragment loop scenarios", n3, 24)
