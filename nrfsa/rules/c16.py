"""C16 - the mesh master leases each logical address to at most one node ID (structure of the allocator)."""
import ast
from ..absval import Const, Sym, Bytes, Seq, BitV, norm, const_of, as_lin
from ..interp import Ref, Limits, State, Model
from ..model import AnalysisError, iter_own_nodes
from ..tables import rf24network as T
from ..interp_ext import parse_fmt
from .c03 import Agg, value_matches
from . import net, c07
from .c13 import same
from .common import iter_mutation_sites

DEFAULT = T.CONSTANTS["NETWORK_DEFAULT_ADDR"]
RESP = T.CONSTANTS["MESH_ADDR_RESPONSE"]


def digits(a):
    n = 0
    while a:
        a >>= 3
        n += 1
    return n


def quiet_write(nn):
    """summary of _write() for sends that are not TX_ROUTED: returns a boolean and leaves node and frame buffer alone
    (verified by header_untouched below)"""
    def handler(model, it, st, fr, node, target, args, kwargs):
        selfv = args[0]
        snap = {"args": list(args[1:])}
        fb = st.heap[selfv.ident].fields.get("frame_buf")
        if isinstance(fb, Ref):
            snap["message"] = st.heap[fb.ident].fields.get("message")
            h = st.heap[fb.ident].fields.get("header")
            if isinstance(h, Ref):
                snap["header"] = dict(st.heap[h.ident].fields)
        it.event(st, fr, "summary", node, ("_write", True, "", snap))
        k = st.extra.get("nsum", 0) + 1
        st.extra["nsum"] = k
        return [(st, Sym(("writeret", k), "bool"))]
    return handler


def header_untouched(ck, agg):
    """frame condition of quiet_write: _write() with a send type other than TX_ROUTED leaves the header and the node's fields as they were"""
    nn = net.NetNode(ck, "rf24_mesh", "RF24Mesh")
    P = ck.prog
    mix = P.cls("network.mixins", "NetworkMixin")
    f = P.method(mix, "_write")
    f_upd = P.method(mix, "_net_update")

    def upd(model, it, st, fr, node, target, args, kwargs):
        k = st.extra.get("nsum", 0) + 1
        st.extra["nsum"] = k
        return [(st, Sym(("updret", k), "int", rng=(0, 255)))]
    nn.model.opaque[f_upd.qualname] = upd
    nn.model.on_recursion = lambda it, st, fr, node, target, args, kw: upd(nn.model, it, st, fr, node, target, [fr.self_val] + list(args), kw)
    S = net.structs(P)
    for qc in ("FrameQueue", "FrameQueueFrag"):
        nn.model.opaque[P.method(S[qc], "enqueue").qualname] = net.sum_enqueue
    nn.model.loop_key = net.radio_loop_key(nn, trace_kinds=("summary", "cond"))
    for send_type in (T.CONSTANTS["TX_NORMAL"], T.CONSTANTS["TX_PHYSICAL"], T.CONSTANTS["TX_MULTICAST"]):
        for mlen in (2, 24):   # replies are 2 bytes; fragmentation (> 24 bytes) rewrites header.reserved and is not used for them
            st, node = nn.fresh(msg_len=mlen, frame_pins={"message_type": RESP})
            fb = st.heap[node.ident].fields["frame_buf"]
            h0 = dict(st.heap[st.heap[fb.ident].fields["header"].ident].fields)
            flag0 = st.heap[node.ident].fields["_do_dhcp"]
            net.set_rng(st, "wd", (0, 0o7777))
            outs = nn.run(f, node, [Sym("wd", "int", rng=(0, 0o7777)), Const(send_type)], st, limits=Limits(max_paths=60000, loop_unroll=2, depth=14, concrete_loop=10))
            for out in outs:
                if out.kind != "return":
                    continue
                fb1 = out.state.heap[node.ident].fields["frame_buf"]
                h1 = out.state.heap[out.state.heap[fb1.ident].fields["header"].ident].fields
                same_h = fb1.ident == fb.ident and all(norm(h1[k]).key() == norm(h0[k]).key() or (isinstance(norm(h1[k]), Const) and k == "message_type" and norm(h1[k]).v == RESP) for k in h0)
                agg.add("R16.0", f, "_write() with a send type other than TX_ROUTED returns with the frame header unchanged (summary frame condition)", same_h,
                        "send_type %d: header becomes %r" % (send_type, {k: v for k, v in h1.items() if norm(v).key() != norm(h0[k]).key()}))
                agg.add("R16.0", f, "_write() does not touch the allocator flag", norm(out.state.heap[node.ident].fields["_do_dhcp"]).key() == norm(flag0).key(), "flag changed")


def master(ck, summaries=True):
    nn = net.NetNode(ck, "rf24_mesh", "RF24Mesh")
    P = ck.prog
    mix = P.cls("network.mixins", "NetworkMixin")
    agg0 = Agg(ck)
    nn.model.opaque[P.method(mix, "_write").qualname] = quiet_write(nn)
    nn.model.opaque[P.method(mix, "_net_update").qualname] = c07.make_summary(nn, agg0, "_net_update")
    nn.model.opaque[P.method(mix, "_begin").qualname] = c07.make_summary(nn, agg0, "_begin")
    return nn


def set_calls(out, f_set):
    """[(id value, address value, event)] of set_address() calls on a path"""
    res = []
    for i, e in enumerate(out.trace):
        if e.kind == "enter" and e.data == f_set.qualname:
            res.append(e)
    return res


def dhcp_rules(ck, agg, nn):
    P = ck.prog
    cls = nn.cls
    f = P.method(cls, "_dhcp")
    f_set = P.method(cls, "set_address")
    n = 0
    # capture set_address arguments through a recording summary
    calls = []

    def rec_set(model, it, st, fr, node, target, args, kwargs):
        it.event(st, fr, "lease", node, (args[1], args[2], dict(kwargs), args[3:] if len(args) > 3 else []))
        return [(st, Const(None))]
    nn.model.opaque[f_set.qualname] = rec_set
    for via in (DEFAULT, 0o1, 0o5, 0o12, 0o345, 0o444, 0o21):
        for requester in (7,):
            n += 1
            st, node = nn.fresh(fields={"_do_dhcp": True, net.FN("_id"): 0, net.FN("_addr"): 0}, frame_pins={"from_node": via, "reserved": requester, "message_type": T.CONSTANTS["MESH_ADDR_REQUEST"]})
            outs = nn.run(f, node, [], st, limits=Limits(max_paths=60000, loop_unroll=2, depth=14, concrete_loop=12))
            direct = via == DEFAULT
            base = 0 if direct else via
            d = digits(base)
            want = [base | (i << (3 * d)) for i in range(5 if direct else 4, 0, -1)]
            want = [w for w in want if w != DEFAULT]
            label = "address request relayed by %s" % ("nobody (direct)" if direct else oct(via))
            offered = set()
            for out in outs:
                if out.kind != "return":
                    agg.add("R16.1", f, "_dhcp() does not raise", False, "%s raises %s" % (label, out.value.exc))
                    continue
                leases = [e for e in out.trace if e.kind == "lease"]
                agg.add("R16.4", f, "one request leases at most one address", len(leases) <= 1, "%s: %d leases on one path" % (label, len(leases)))
                if not leases:
                    wr = [e for e in out.trace if e.kind == "summary" and e.data[0] == "_write"]
                    agg.add("R16.3", f, "no reply without a lease", not wr, "%s: reply sent although nothing was leased" % label)
                    # "a released address becomes available again": a request goes unanswered only because the table - as it is now -
                    # holds every child address of the relaying node: each candidate was looked up in the table (no verdict remembered
                    # from an earlier request, no shortcut on other state)
                    passes = [e for e in out.trace if e.kind == "for" and _is_table_items(e.data[0])]
                    agg.add("R16.9", f, "a request is refused only after every child address of the relaying node was looked up in the table", len(passes) >= len(want),
                            "%s: returns without a lease after %d pass(es) over the table for %d candidate addresses - the refusal does not come from the table's present content [tests: %s]" % (
                                label, len(passes), len(want), sorted({ast.unparse(e.node)[:50] for e in out.trace if e.kind == "cond" and e.func is f})[:6]))
                    continue
                idv, addrv, kw, rest = leases[0].data
                cand = const_of(norm(addrv))
                offered.add(cand)
                agg.add("R16.1", f, "an offered address is a direct child of the relaying node (digit 1..5 on top of the relay's address)", cand in want,
                        "%s: offers %s; children are %s" % (label, oct(cand) if isinstance(cand, int) else addrv, [oct(w) for w in want]))
                agg.add("R16.1", f, "never 0, never the unassigned address 0o4444", cand not in (0, DEFAULT), "%s offers %r" % (label, cand))
                agg.add("R16.3", f, "the lease is recorded under the requester's ID (header.reserved)", const_of(norm(idv)) == requester, "%s: lease under id %r" % (label, idv))
                by_addr = (rest and value_matches(rest[0], True)) or ("search_by_address" in kw and value_matches(kw["search_by_address"], True))
                agg.add("R16.4", f, "leases are keyed by ID (an ID that asks again overwrites its lease)", not by_addr, "%s: set_address(search_by_address=True)" % label)
                # R16.2: collision scan over *all* entries, only entries of other IDs block
                body_tests = [e for e in out.trace if e.kind == "cond" and e.seq < leases[0].seq and isinstance(e.node, ast.Compare) and isinstance(e.data[1], tuple)]
                # the scan that cleared the leased candidate = the last loop over the table's items that started before the lease, wherever
                # it lives (in _dhcp itself, in a helper, or as an any()/all() over the table)
                scans = [e for e in out.trace if e.kind == "for" and e.seq < leases[0].seq and _is_table_items(e.data[0])]
                start = scans[-1].seq if scans else leases[0].seq
                scan_node = scans[-1].node if scans else None
                inner_iters = [e for e in out.trace if e.kind == "loop-iter" and e.node is scan_node and start < e.seq < leases[0].seq]
                inner_exit = [e for e in out.trace if e.kind == "loop-exit" and e.node is scan_node and start < e.seq < leases[0].seq]
                agg.add("R16.2", f, "an address is leased only after the scan ran through every table entry", bool(inner_exit), "%s: leased without finishing the scan of dhcp_dict" % label)
                tests = [e for e in body_tests if e.seq > start]
                for k, itv in enumerate(inner_iters):
                    nxt = inner_iters[k + 1].seq if k + 1 < len(inner_iters) else leases[0].seq
                    mine = [e for e in tests if itv.seq < e.seq < nxt]
                    addr_eq = [e for e in mine if _role(e, "dict-val") and any(const_of(norm(x)) == cand for x in e.data[1])]
                    id_ne = [e for e in mine if _role(e, "dict-key") and any(const_of(norm(x)) == requester for x in e.data[1])]
                    free = any(_equal(e) is False for e in addr_eq) or any(_equal(e) is True for e in id_ne)
                    agg.add("R16.2", f, "each scanned entry either holds another address or belongs to the requester itself", free and bool(addr_eq),
                            "%s: entry %d does not exclude 'same address leased to another ID' (tests: %s)" % (label, k, [(ast.unparse(e.node), e.data[0]) for e in mine]))
                # R16.3 reply
                wr = [e for e in out.trace if e.kind == "summary" and e.data[0] == "_write" and e.seq > leases[0].seq]
                agg.add("R16.3", f, "a reply is sent after the lease (retried once through a relay)", 1 <= len(wr) <= (1 if direct else 2), "%s: %d replies" % (label, len(wr)))
                for w in wr:
                    h = w.data[3].get("header", {})
                    m = w.data[3].get("message")
                    a = w.data[3]["args"]
                    agg.add("R16.3", f, "the reply is a MESH_ADDR_RESPONSE sent back to where the request came from", const_of(norm(h.get("message_type"))) == RESP and const_of(norm(h.get("to_node"))) == via,
                            "%s: reply type %r to %r" % (label, h.get("message_type"), h.get("to_node")))
                    agg.add("R16.3", f, "the reply carries the requester's ID in header.reserved", const_of(norm(h.get("reserved"))) == requester, "%s: reserved %r" % (label, h.get("reserved")))
                    tg = m.parts[0][0] if isinstance(m, Bytes) and len(m.parts) == 1 else None
                    okm = tg is not None and tg[0] == "pack" and tg[1] in ("<H", "H", "=H") and const_of(norm(tg[2][0])) == cand
                    agg.add("R16.3", f, "the reply's payload is the leased address as little-endian uint16", okm, "%s: payload %r, leased %r" % (label, tg, cand))
                    st_want = T.CONSTANTS["TX_PHYSICAL"] if direct else T.CONSTANTS["TX_NORMAL"]
                    agg.add("R16.3", f, "unassigned requesters are answered physically, relayed ones by routing", const_of(norm(a[1])) == st_want and const_of(norm(a[0])) == via,
                            "%s: _write(%r, %r)" % (label, a[0], a[1]))
            agg.add("R16.1", f, "every child address of the relaying node can be offered, highest digit first", offered == set(want), "%s: offered %s, children %s" % (label, sorted(map(str, offered)), [oct(w) for w in want]))
    # (that nothing is leased without a pending request, and that a request is served once, is judged at the update() level: dispatch())
    nn.model.opaque.pop(f_set.qualname, None)
    return n


def _is_del(e):
    """an entry of a dict is removed: `del d[k]` or `d.pop(k)`"""
    return e.kind == "delitem" or (e.kind == "pop" and isinstance(e.data[0], Ref) and e.data[0].kind == "dict")


def _is_table_items(v):
    """the value iterated by a loop is the lease table (its items()/keys()/values() view or the dict itself)"""
    if isinstance(v, Ref):
        return v.kind == "dict" and str(v.label or "").endswith("dhcp_dict")
    v = norm(v) if hasattr(v, "key") else v
    return isinstance(v, Sym) and v.ty in ("dictitems", "dictkeys", "dictvalues") and str(v.attrs.get("label", "")).endswith("dhcp_dict")


def _table_iters_after(out, seq):
    """iterations of a loop over the lease table that start after event number seq"""
    nodes = {id(e.node) for e in out.trace if e.kind == "for" and _is_table_items(e.data[0])}
    return [e for e in out.trace if e.kind == "loop-iter" and e.seq > seq and id(e.node) in nodes]


def _is_range_loop(node):
    return isinstance(node.iter, ast.Call) and isinstance(node.iter.func, ast.Name) and node.iter.func.id == "range"


def _role(e, role):
    for x in e.data[1]:
        x = norm(x)
        if isinstance(x, Sym) and isinstance(x.attrs.get("role"), tuple) and x.attrs["role"][0] == role:
            return True
    return False


def _equal(e):
    op = e.node.ops[0]
    if isinstance(op, ast.Eq):
        return e.data[0]
    if isinstance(op, ast.NotEq):
        return not e.data[0]
    return None


def table_ops(ck, agg, nn):
    """R16.4/R16.6: set_address / release_address on a symbolic table"""
    P = ck.prog
    cls = nn.cls
    f_set = P.method(cls, "set_address")
    f_rel = P.method(cls, "release_address")
    n = 0
    for by_addr in (False, True):
        n += 1
        st, node = nn.fresh(fields={net.FN("_id"): 0, net.FN("_addr"): 0})
        outs = nn.run(f_set, node, [Const(7), Const(0o15), Const(by_addr)], st)
        for out in outs:
            if out.kind != "return":
                agg.add("R16.4", f_set, "set_address() does not raise", False, "raises %s" % out.value.exc)
                continue
            muts = [e for e in out.trace if e.kind == "dictstore" or _is_del(e)]
            stores = [e for e in muts if e.kind == "dictstore"]
            agg.add("R16.4", f_set, "set_address() stores exactly one pair", len(stores) == 1 and const_of(norm(stores[0].data[2])) == 0o15, "stores %r" % [(e.data[1], e.data[2]) for e in stores])
            if stores:
                k = norm(stores[0].data[1])
                kk = const_of(k)
                okk = kk == 7 or (isinstance(k, Sym) and any(_equal(e) is True and any(same(x, k) for x in e.data[1]) and any(const_of(norm(x)) == 7 for x in e.data[1])
                                                                for e in out.trace if e.kind == "cond" and isinstance(e.node, ast.Compare) and isinstance(e.data[1], tuple)))
                agg.add("R16.4", f_set, "the pair is stored under the given ID", okk, "stored under %r" % (k,))
            # mutation during iteration must be followed by leaving the loop
            if muts:
                later = _table_iters_after(out, muts[0].seq)
                agg.add("R16.4", f_set, "the table is never iterated further after it was modified", not later, "iteration continues after a modification (RuntimeError: dictionary changed size)")
            if by_addr:
                # R16.8 "never two IDs on one address" through load_dhcp()/set_address(search_by_address=True): when the call returns, no
                # entry of another ID may still hold the address - some pass over the table has looked at every entry (or stopped at the
                # one holder: the table is injective before the call), and each entry looked at differs in address, was deleted, or is the
                # ID's own entry that the store overwrites
                loops = {}
                for e in out.trace:
                    if e.kind == "for" and _is_table_items(e.data[0]):
                        loops.setdefault(id(e.node), {"first": e.seq, "iters": [], "exhausted": False})
                for e in out.trace:
                    L = loops.get(id(e.node)) if e.kind in ("loop-iter", "loop-exit") else None
                    if L is not None:
                        if e.kind == "loop-iter":
                            L["iters"].append(e.seq)
                        else:
                            L["exhausted"] = True
                okl = False
                why = "no pass over the table"
                for L in loops.values():
                    bounds = L["iters"] + [10 ** 9]
                    holder = False
                    unsafe = []
                    for k_, lo_ in enumerate(L["iters"]):
                        evs = [e for e in out.trace if lo_ < e.seq < bounds[k_ + 1]]
                        cmps = [e for e in evs if e.kind == "cond" and isinstance(e.node, ast.Compare) and isinstance(e.data[1], tuple) and _equal(e) is not None]
                        a_eq = [_equal(e) for e in cmps if _role(e, "dict-val") and any(const_of(norm(x)) == 0o15 for x in e.data[1])]
                        i_eq = [_equal(e) for e in cmps if _role(e, "dict-key") and any(const_of(norm(x)) == 7 for x in e.data[1])]
                        deleted = any(_is_del(e) for e in evs)
                        if True in a_eq:
                            holder = True
                        if not (False in a_eq or (True in a_eq and (deleted or True in i_eq)) or True in i_eq):
                            unsafe.append(k_)
                    if not unsafe and (L["exhausted"] or holder):
                        okl = True
                    else:
                        why = "entries %r are passed over without their address being compared" % unsafe if unsafe else \
                            "the pass over the table stops after %d entr%s although the entry holding the address has not been found" % (len(L["iters"]), "y" if len(L["iters"]) == 1 else "ies")
                agg.add("R16.8", f_set, "with search_by_address, no other ID is left holding the address (the holder is found and evicted, or every entry was compared)", okl,
                        "set_address(7, 0o15, search_by_address=True): %s - another ID can keep 0o15, two IDs share one address after load_dhcp()" % why)
                dels = [e for e in muts if _is_del(e)]
                for dl in dels:
                    agg.add("R16.4", f_set, "search_by_address replaces the entry that holds this address", any(
                        _equal(e) is True and _role(e, "dict-val") and any(const_of(norm(x)) == 0o15 for x in e.data[1]) for e in out.trace if e.kind == "cond" and e.seq < dl.seq and isinstance(e.data[1], tuple) and isinstance(e.node, ast.Compare)),
                        "an entry is deleted without its address matching")
    for addr in (0o15,):
        n += 1
        st, node = nn.fresh(fields={net.FN("_id"): 0, net.FN("_addr"): 0})
        outs = nn.run(f_rel, node, [Const(addr)], st)
        for out in outs:
            if out.kind != "return":
                agg.add("R16.6", f_rel, "release_address() does not raise", False, "raises %s" % out.value.exc)
                continue
            dels = [e for e in out.trace if _is_del(e)]
            if dels:
                agg.add("R16.6", f_rel, "release_address(a) deletes exactly one entry, the one holding a, and reports True", len(dels) == 1 and value_matches(out.value, True) and any(
                    _equal(e) is True and _role(e, "dict-val") and any(const_of(norm(x)) == addr for x in e.data[1]) for e in out.trace if e.kind == "cond" and e.seq < dels[0].seq and isinstance(e.data[1], tuple) and isinstance(e.node, ast.Compare)),
                    "deletes %d entries, returns %r" % (len(dels), out.value))
                k = norm(dels[0].data[1])
                agg.add("R16.6", f_rel, "the deleted key is the ID of the matching entry", isinstance(k, Sym) and isinstance(k.attrs.get("role"), tuple) and k.attrs["role"][0] == "dict-key", "deletes key %r" % (k,))
                later = _table_iters_after(out, dels[0].seq)
                agg.add("R16.6", f_rel, "the table is never iterated further after the deletion", not later, "iteration continues after del")
            else:
                agg.add("R16.6", f_rel, "an unknown address releases nothing and reports False", value_matches(out.value, False), "returns %r" % (out.value,))
    return n


def dispatch(ck, agg, nn):
    """R16.6: update() arms the allocator only for requests carrying an ID, and releases by origin"""
    P = ck.prog
    cls = nn.cls
    fu = P.method(cls, "update")
    f_rel = P.method(cls, "release_address")
    f_dhcp = P.method(cls, "_dhcp")
    n = 0

    def fixed_update(mtype, reserved, from_node):
        def h(model, it, st, fr, node, target, args, kwargs):
            selfv = args[0]
            fb = st.heap[selfv.ident].fields["frame_buf"]
            hd = st.heap[fb.ident].fields["header"]
            st.heap[hd.ident].fields.update({"message_type": Const(mtype), "reserved": Const(reserved), "from_node": Const(from_node), "to_node": Const(0)})
            return [(st, Const(mtype))]
        return h
    mix = P.cls("network.mixins", "NetworkMixin")
    key = P.method(mix, "_net_update").qualname
    saved = nn.model.opaque[key]
    rel_calls, dhcp_armed = [], []

    def rec_rel(model, it, st, fr, node, target, args, kwargs):
        it.event(st, fr, "release", node, (args[1] if len(args) > 1 else None,))
        return [(st, Const(True))]

    f_set = P.method(cls, "set_address")

    def rec_set(model, it, st, fr, node, target, args, kwargs):
        it.event(st, fr, "lease", node, (args[1], args[2]))
        return [(st, Const(None))]
    nn.model.opaque[f_rel.qualname] = rec_rel
    nn.model.opaque[f_set.qualname] = rec_set
    try:
        for mtype, reserved, frm in ((T.CONSTANTS["MESH_ADDR_REQUEST"], 7, DEFAULT), (T.CONSTANTS["MESH_ADDR_REQUEST"], 0, DEFAULT), (T.CONSTANTS["MESH_ADDR_RELEASE"], 0, 0o15), (5, 7, 0o15)):
            n += 1
            nn.model.opaque[key] = fixed_update(mtype, reserved, frm)
            st, node = nn.fresh(fields={net.FN("_id"): 0, net.FN("_addr"): 0, "_do_dhcp": False})
            outs = nn.run(fu, node, [], st, limits=Limits(max_paths=60000, loop_unroll=2, depth=14, concrete_loop=12))
            want_arm = mtype == T.CONSTANTS["MESH_ADDR_REQUEST"] and reserved != 0
            served = 0
            for out in outs:
                if out.kind != "return":
                    agg.add("R16.6", fu, "update() does not raise", False, "raises %s" % out.value.exc)
                    continue
                # by effect, wherever the pending-request flag is tested and cleared (update() or the allocator): an address is leased
                # (and answered) only for an address request that carries a node ID, at most once, and no request stays pending
                leases = [e for e in out.trace if e.kind == "lease"]
                r = [e for e in out.trace if e.kind == "release"]
                served += bool(leases)
                agg.add("R16.6", fu, "an address is leased only for an address request that carries a node ID, at most once per frame", len(leases) <= (1 if want_arm else 0),
                        "type %d reserved %d: %d lease(s) %r" % (mtype, reserved, len(leases), [e.data for e in leases]))
                flag = out.state.heap[node.ident].fields.get("_do_dhcp")
                agg.add("R16.6", fu, "no request stays pending after update() (the pending-request flag is consumed)", value_matches(flag, False),
                        "type %d reserved %d: the flag is left %r - the next update() would serve the stale request again" % (mtype, reserved, flag))
                if mtype == T.CONSTANTS["MESH_ADDR_RELEASE"]:
                    agg.add("R16.6", fu, "a release frees the address the frame came from", len(r) == 1 and const_of(norm(r[0].data[0])) == frm, "release calls %r" % [e.data for e in r])
                else:
                    agg.add("R16.6", fu, "nothing is released by other frames", not r, "type %d releases %r" % (mtype, [e.data for e in r]))
            if want_arm:
                agg.add("R16.6", fu, "an address request that carries a node ID is served", served > 0, "type %d reserved %d: no path leases an address" % (mtype, reserved))
    finally:
        nn.model.opaque[key] = saved
        nn.model.opaque.pop(f_rel.qualname, None)
        nn.model.opaque.pop(f_set.qualname, None)
    return n


def _lin_of_key(k):
    """(coefficient, constant) of a slice bound as stored in a slice tag (an int, or the repr of a one-term linear form)"""
    import re
    if isinstance(k, int):
        return 0, k
    m = re.match(r"Lin\((?:(\d+)\*)?([^+()]+?)(?: \+ (-?\d+))?\)$", str(k))
    if m:
        return int(m.group(1) or 1), int(m.group(3) or 0)
    return None


def _lin_pair(v):
    l = as_lin(norm(v))
    if l is None or len(l.terms) > 1:
        return None
    return (list(l.terms.values())[0] if l.terms else 0), l.c


def _fmt_fields(fmt):
    """[(offset, size, code)] of the live fields of a struct format, with native alignment for '' / '@'"""
    from ..interp_ext import STRUCT_CODES
    p = parse_fmt(fmt)
    if p is None:
        return None, None
    order, codes = p
    off, out = 0, []
    for c in codes:
        sz = STRUCT_CODES[c][0]
        if order in ("", "@") and off % sz:
            off += sz - off % sz
        if c != "x":
            out.append((off, sz, c))
        off += sz
    return out, ("big" if order in (">", "!") else "little")


def _signed(code):
    from ..interp_ext import STRUCT_CODES
    lo = STRUCT_CODES[code][1]
    return lo is not None and lo < 0


def reader_field(v):
    """where in the file a value handed to set_address() comes from: dict(stride, offset, size, signed, order) or None"""
    v = norm(v)
    if not isinstance(v, Sym):
        return None
    if "at" in v.attrs and "of" in v.attrs:                      # buffer[index]: one unsigned byte
        lp = _lin_pair(v.attrs["at"])
        if lp is None:
            return None
        return {"stride": lp[0], "offset": lp[1], "size": 1, "signed": False, "order": "little"}
    up = v.attrs.get("unpack")
    if up:
        fmt, k, src = up[:3]
        fields, order = _fmt_fields(fmt)
        if fields is None or k >= len(fields):
            return None
        base = (0, 0)
        if len(up) > 3:                                           # unpack_from(fmt, buffer, offset)
            base = _lin_pair(up[3])
        elif isinstance(src, Bytes) and len(src.parts) == 1 and src.parts[0][0][0] == "slice":
            base = _lin_of_key(src.parts[0][0][2])                # unpack(fmt, buffer[lo:hi])
        if base is None:
            return None
        off, size, code = fields[k]
        return {"stride": base[0], "offset": base[1] + off, "size": size, "signed": _signed(code), "order": order}
    return None


def writer_fields(writes):
    """byte layout of one record from the values written for one table entry: [(offset, size, signed, order, value)], record length"""
    off, out = 0, []
    for w in writes:
        b = w.data[1][0] if w.data[1] else None
        if not isinstance(b, Bytes):
            return None, None
        for tag, ln in b.parts:
            n_ = const_of(norm(ln))
            if n_ is None:
                return None, None
            if tag[0] == "items" and len(tag) > 2:
                for j, item in enumerate(tag[2]):
                    out.append((off + j, 1, False, "little", item))        # bytes([..]) accepts 0..255 only: unsigned
            elif tag[0] == "pack":
                fields, order = _fmt_fields(tag[1])
                if fields is None:
                    return None, None
                for (fo, sz, code), val in zip(fields, tag[2]):
                    out.append((off + fo, sz, _signed(code), order, val))
            elif tag[0] != "const":
                return None, None
            off += n_
    return out, off


def _has_role(v, role):
    v = norm(v)
    return isinstance(v, Sym) and isinstance(v.attrs.get("role"), tuple) and v.attrs["role"][0] == role


def persistence(ck, agg, nn):
    """R16.5: save_dhcp / load_dhcp agree on both file formats.  Both sides are reduced to a byte layout of one record - (offset, width,
    signedness, byte order) of the ID and of the address - read off the abstract values (what is written per table entry; where the values
    handed to set_address() were read from); the rule is the equality of the two layouts, whatever statements produce them."""
    P = ck.prog
    cls = nn.cls
    f_save, f_load = P.method(cls, "save_dhcp"), P.method(cls, "load_dhcp")
    f_set = P.method(cls, "set_address")
    n = 0
    w_id = w_addr = rec_len = None
    for as_bin in (True, False):
        n += 1
        st, node = nn.fresh(fields={net.FN("_id"): 0, net.FN("_addr"): 0})
        outs = nn.run(f_save, node, [Const("f"), Const(as_bin)], st)
        for out in outs:
            if out.kind != "return":
                agg.add("R16.5", f_save, "save_dhcp() does not raise on a writable file", False, "raises %s" % out.value.exc)
                continue
            writes = [e for e in out.trace if e.kind == "io" and e.data[0] and e.data[0].endswith(".write")]
            scans = [e for e in out.trace if e.kind == "for" and _is_table_items(e.data[0])]
            iters = [e for e in out.trace if e.kind == "loop-iter" and scans and e.node is scans[0].node]
            agg.add("R16.5", f_save, "the binary form is chosen by as_bin",
                    bool(scans) or not as_bin or not writes, "as_bin=True writes without scanning the table")
            if as_bin:
                if not iters:
                    agg.add("R16.5", f_save, "an empty table writes an empty binary file", not writes, "%d writes" % len(writes))
                    continue
                end = iters[1].seq if len(iters) > 1 else 10 ** 12
                per = [w for w in writes if iters[0].seq < w.seq < end]
                fields, total = writer_fields(per)
                if fields is None:
                    raise AnalysisError("save_dhcp: the bytes written per table entry are not understood (%r)" % ([w.data[1] for w in per],))
                ids = [f_ for f_ in fields if _has_role(f_[4], "dict-key")]
                ads = [f_ for f_ in fields if _has_role(f_[4], "dict-val")]
                agg.add("R16.5", f_save, "each binary record stores the node ID once and its address once", len(ids) == 1 and len(ads) == 1,
                        "record fields: %r" % ([(f_[0], f_[1], f_[4]) for f_ in fields],))
                if len(ids) == 1 and len(ads) == 1:
                    w_id, w_addr, rec_len = ids[0], ads[0], total
                    agg.add("R16.5", f_save, "the address is stored in a field wide enough for 12 bits, unsigned", ads[0][1] >= 2 and not ads[0][2], "address field %r" % (ads[0][:4],))
                    agg.add("R16.5", f_save, "every record has the same length on every path", True, "")
            else:
                agg.add("R16.5", f_save, "the JSON form writes the serialised table once", len(writes) == 1, "%d writes" % len(writes))

    def rec_set(model, it, st, fr, node, target, args, kwargs):
        it.event(st, fr, "lease", node, (args[1], args[2], dict(kwargs), args[3:] if len(args) > 3 else []))
        return [(st, Const(None))]
    nn.model.opaque[f_set.qualname] = rec_set
    for as_bin in (True, False):
        n += 1
        st, node = nn.fresh(fields={net.FN("_id"): 0, net.FN("_addr"): 0})
        outs = nn.run(f_load, node, [Const("f"), Const(as_bin)], st)
        nleases = nlayouts = 0
        for out in outs:
            if out.kind != "return":
                continue
            leases = [e for e in out.trace if e.kind == "lease"]
            js = [e for e in out.trace if e.kind == "json.load"]
            agg.add("R16.5", f_load, "the reader chooses the format by as_bin like the writer", bool(js) == (not as_bin), "as_bin=%r: json.load calls %d" % (as_bin, len(js)))
            if not leases:
                continue
            nleases += 1
            # R16.10 "save/load cycles never leave two IDs on one address": the live table may have moved on since the file was written
            # (the address released and leased to another ID), so every entry a file installs evicts whoever holds that address now -
            # set_address(.., search_by_address=True), whose effect R16.8 establishes - in both file formats alike
            for le in leases:
                flag = le.data[2].get("search_by_address", le.data[3][0] if le.data[3] else None)
                okf = flag is not None and const_of(norm(flag)) is True
                agg.add("R16.10", f_load, "an entry loaded from a file evicts the current holder of its address (both formats)", okf,
                        "as_bin=%r: set_address() is called with search_by_address=%r - loading {2: 0o5} into a live table {6: 0o5} leaves IDs 2 and 6 on one address" % (as_bin, flag), le.node)
            if as_bin:
                if w_id is None:
                    continue
                rid, rad = reader_field(leases[0].data[0]), reader_field(leases[0].data[1])
                if rid is None or rad is None:
                    raise AnalysisError("load_dhcp: where the ID / address handed to set_address() are read from is not understood (%r, %r)" % (leases[0].data[0], leases[0].data[1]))
                if rid["stride"] == 0 and rad["stride"] == 0:
                    # a concrete file position (`index = 0; while ..: index += 4`): the stride is the distance to the next record read
                    if len(leases) < 2:
                        continue
                    rid2, rad2 = reader_field(leases[1].data[0]), reader_field(leases[1].data[1])
                    if rid2 is None or rad2 is None:
                        raise AnalysisError("load_dhcp: second record not understood")
                    rid["stride"], rad["stride"] = rid2["offset"] - rid["offset"], rad2["offset"] - rad["offset"]
                nlayouts += 1
                agg.add("R16.5", f_load, "records are read with the writer's stride", rid["stride"] == rec_len and rad["stride"] == rec_len,
                        "reader strides %d / %d, writer's record length %d" % (rid["stride"], rad["stride"], rec_len))
                agg.add("R16.5", f_load, "the node ID is read from where the writer put it, as the same kind of field",
                        (rid["offset"], rid["size"], rid["signed"]) == (w_id[0], w_id[1], w_id[2]) and (rid["size"] == 1 or rid["order"] == w_id[3]),
                        "reader: offset %d, %d byte(s), %s; writer: offset %d, %d byte(s), %s" % (rid["offset"], rid["size"], "signed" if rid["signed"] else "unsigned", w_id[0], w_id[1], "signed" if w_id[2] else "unsigned"))
                agg.add("R16.5", f_load, "the address is read from where the writer put it, as the same kind of field",
                        (rad["offset"], rad["size"], rad["signed"], rad["order"]) == (w_addr[0], w_addr[1], w_addr[2], w_addr[3]),
                        "reader: offset %d, %d byte(s), %s, %s-endian; writer: offset %d, %d byte(s), %s, %s-endian" % (
                            rad["offset"], rad["size"], "signed" if rad["signed"] else "unsigned", rad["order"], w_addr[0], w_addr[1], "signed" if w_addr[2] else "unsigned", w_addr[3]))
            else:
                kv = leases[0].data
                agg.add("R16.5", f_load, "JSON keys are converted back to int IDs", not isinstance(norm(kv[0]), Bytes) and getattr(norm(kv[0]), "ty", "int") in ("int", None) or isinstance(norm(kv[0]), Const), "id value %r" % (kv[0],))
        agg.add("R16.5", f_load, "a non-empty file yields table entries", nleases > 0, "as_bin=%r: no path stores an entry" % as_bin)
        if as_bin and w_id is not None and not nlayouts:
            raise AnalysisError("load_dhcp: no path from which the reader's record layout can be read")
    nn.model.opaque.pop(f_set.qualname, None)
    return n


def run(ck):
    ck.explanation = (
        "Static analysis of the mesh master's allocator (RF24Mesh._dhcp, set_address, release_address, save_/load_dhcp, update) by abstract "
        "interpretation with a symbolic lease table (dict iteration unrolled on fresh (ID, address) symbols). R16.1: for requests arriving directly "
        "and through relays of 1-3 digits, the candidate addresses handed to set_address are exactly the relay's children, digit 5/4..1 descending, "
        "never 0 or 0o4444. R16.2: on every leasing path the scan of the table ran to exhaustion and each scanned entry is excluded by 'other "
        "address' or 'same ID' (path atoms by value role). R16.3: exactly one (relayed: at most two) MESH_ADDR_RESPONSE to the origin with the "
        "requester's ID in reserved, payload = pack('<H', leased address), physical for unassigned requesters. R16.4: one lease per request, keyed "
        "by ID; no iteration continues after the table was modified. R16.5: binary writer record [id,0]+'<H' (4 bytes) vs reader offsets 0 / 2..4, "
        "stride 4, same format selection; JSON keys converted back to int. R16.6: release deletes exactly the matching entry; update() arms the "
        "allocator only for requests with an ID and releases by origin.")
    ck.not_decided = ["enumeration of request/release histories and full parents; a level-4 relay is outside the quantifier (it would yield a 5-digit candidate)"]
    agg = Agg(ck)
    header_untouched(ck, agg)
    nn = master(ck)
    n1 = dhcp_rules(ck, agg, nn)
    n2 = table_ops(ck, agg, nn)
    n3 = dispatch(ck, agg, nn)
    n4 = persistence(ck, agg, nn)
    # R16.7: no method of the master resizes the lease table while iterating over it (a RuntimeError mid-way leaves the table half-updated)
    mesh = ck.prog.cls("rf24_mesh", "RF24Mesh")
    n5 = 0
    for cls in mesh.mro:
        for f in cls.methods.values():
            n5 += 1
            for loop, stmt, what, ok in iter_mutation_sites(f.node):
                agg.add("R16.7", f, "the lease table is not resized while it is being iterated", ok,
                        "%s (line %d) and the loop can go on to its next iteration" % (what, stmt.lineno), stmt)
    # the master serves what update() reports: a request merely passing through must not be reported (R13.6, shared with C13); and the
    # lease table is per-object state (R09.5, shared with C09)
    from . import c13, c09
    from .radio import Radio
    c13.receive_rule(ck, agg, net.NetNode(ck, "rf24_network", "RF24Network"))
    c09.no_leak(ck, agg, [Radio(ck)])
    agg.flush()
    ck.floor("R16.7", "methods scanned for iterate-and-resize", n5, 20)
    ck.floor("R16.1", "relay scenarios", n1, 7)
    ck.floor("R16.4", "table operation scenarios", n2, 3)
    ck.floor("R16.6", "dispatch scenarios", n3, 4)
    ck.floor("R16.5", "persistence scenarios", n4, 4)
