"""C17 - mesh joins and lookups: the documented return codes and the wire formats that carry them."""
import ast
from ..absval import Const, Sym, Bytes, Seq, BitV, norm, const_of, as_lin
from ..interp import Ref, Limits, State
from ..interp_ext import parse_fmt
from ..model import AnalysisError, iter_own_nodes
from ..tables import rf24network as T
from .c03 import Agg, value_matches
from . import net, c07, c16

DEFAULT = T.CONSTANTS["NETWORK_DEFAULT_ADDR"]
ALOOK, ILOOK = T.CONSTANTS["MESH_ADDR_LOOKUP"], T.CONSTANTS["MESH_ID_LOOKUP"]


def node_of(ck, clsname):
    nn = net.NetNode(ck, "rf24_mesh", clsname)
    P = ck.prog
    mix = P.cls("network.mixins", "NetworkMixin")
    nn.model.opaque[P.method(mix, "_write").qualname] = c16.quiet_write(nn)
    nn.model.opaque[P.method(mix, "_begin").qualname] = c07.make_summary(nn, Agg(ck), "_begin")
    nn.model.loop_key = net.radio_loop_key(nn, trace_kinds=("summary",))
    return nn


def reply_update(mtype, msg):
    """_net_update() summary that delivers a given reply (or nothing when mtype is None)"""
    def h(model, it, st, fr, node, target, args, kwargs):
        if mtype is None:
            return [(st, Const(0))]
        selfv = args[0]
        fb = st.heap[selfv.ident].fields["frame_buf"]
        st.heap[fb.ident].fields["message"] = msg
        hd = st.heap[fb.ident].fields["header"]
        st.heap[hd.ident].fields["message_type"] = Const(mtype)
        return [(st, Const(mtype))]
    return h


def lookups(ck, agg):
    """R17.1 return-code table and R17.2 format agreement requester <-> master"""
    P = ck.prog
    mix = P.cls("network.mixins", "NetworkMixin")
    key = P.method(mix, "_net_update").qualname
    n = 0
    req_fmt = {}
    for clsname in ("RF24MeshNoMaster", "RF24Mesh"):
        nn = node_of(ck, clsname)
        cls = nn.cls
        for fname, ltype in (("lookup_address", ALOOK), ("lookup_node_id", ILOOK)):
            f = P.method(cls, fname)
            # trivial answers
            for arg, own_id, addr, want, why in (
                    (0, 5, 0o15, 0, "0 -> 0"), (None, 5, 0o15, (0 if fname == "lookup_address" else 5), "None -> 0 / own ID"),
                    (9, 5, DEFAULT, -2, "unconnected node -> -2")):
                n += 1
                nn.model.opaque[key] = reply_update(None, None)
                st, node = nn.fresh(fields={net.FN("_id"): own_id, net.FN("_addr"): addr})
                outs = nn.run(f, node, [Const(arg)] if arg is not None else [], st)
                for out in outs:
                    agg.add("R17.1", f, "documented trivial answer: %s" % why, out.kind == "return" and value_matches(out.value, want) and not [e for e in out.trace if e.kind == "summary"],
                            "%s.%s(%r) with id %d, address %s: returns %r%s" % (clsname, fname, arg, own_id, oct(addr), out.value, " after a transmission" if [e for e in out.trace if e.kind == "summary"] else ""))
            # a connected non-master node asks the master
            n += 1
            reply = Bytes([(("sym", "reply"), Const(2))], "bytes")
            nn.model.opaque[key] = reply_update(ltype, reply)
            st, node = nn.fresh(fields={net.FN("_id"): 5, net.FN("_addr"): 0o15})
            outs = nn.run(f, node, [Const(9)], st, limits=Limits(max_paths=20000, loop_unroll=2, depth=14, concrete_loop=10))
            # ... also about itself: "lookups return the master's *current* mapping" - a node's own ID / address is looked up like any other
            # (check_connection() relies on it to notice that the master has dropped or re-assigned the lease)
            own_arg = 5 if fname == "lookup_address" else 0o15
            st_o, node_o = nn.fresh(fields={net.FN("_id"): 5, net.FN("_addr"): 0o15})
            for out in nn.run(f, node_o, [Const(own_arg)], st_o, limits=Limits(max_paths=20000, loop_unroll=2, depth=14, concrete_loop=10)):
                if out.kind == "return":
                    wr_o = [e for e in out.trace if e.kind == "summary" and e.data[0] == "_write"]
                    agg.add("R17.1", f, "a connected node asks the master about its own ID / address too (never answers from its own belief)", len(wr_o) == 1,
                            "%s.%s(%s) on the node that has ID 5 / address 0o15: returns %r after %d transmissions" % (clsname, fname, oct(own_arg) if fname != "lookup_address" else own_arg, out.value, len(wr_o)))
            seen = set()
            for out in outs:
                if out.kind != "return":
                    agg.add("R17.1", f, "a lookup never raises", False, "%s.%s(9) raises %s" % (clsname, fname, out.value.exc), out.value.node)
                    continue
                wr = [e for e in out.trace if e.kind == "summary" and e.data[0] == "_write"]
                agg.add("R17.1", f, "the master is asked exactly once", len(wr) == 1, "%d transmissions" % len(wr))
                if not wr:
                    continue
                h = wr[0].data[3]["header"]
                m = wr[0].data[3]["message"]
                a = wr[0].data[3]["args"]
                agg.add("R17.1", f, "the request goes to the master (address 0) with the lookup type, from this node", const_of(norm(h.get("to_node"))) == 0 and const_of(norm(h.get("message_type"))) == ltype and
                        const_of(norm(h.get("from_node"))) == 0o15 and const_of(norm(a[0])) == 0, "header %r" % ({k: h.get(k) for k in ("to_node", "message_type", "from_node")},))
                tg = m.parts[0][0] if isinstance(m, Bytes) and len(m.parts) == 1 else None
                if tg is not None and tg[0] == "pack":
                    req_fmt[ltype] = ("pack", tg[1])
                elif tg is not None and tg[0] in ("items", "const"):
                    req_fmt[ltype] = ("bytes", const_of(norm(m.parts[0][1])))
                sent_ok = [e for e in out.trace if e.kind == "cond" and e.seq > wr[0].seq and isinstance(norm(e.data[1]) if not isinstance(e.data[1], tuple) else None, Sym) and norm(e.data[1]).name[0] == "writeret"]
                failed = any(e.data[0] is False for e in sent_ok)
                timed = any(e.kind == "cond" and e.data[0] is True and isinstance(e.data[1], tuple) and any(isinstance(norm(x), Sym) and norm(x).attrs.get("role") == "clock" for x in e.data[1]) for e in out.trace)
                v = norm(out.value)
                if failed:
                    seen.add("write failed")
                    agg.add("R17.1", f, "-1 when the request could not be transmitted", value_matches(v, -1), "returns %r" % (v,))
                elif isinstance(v, Const) and v.v == -1:
                    seen.add("timeout")
                else:
                    seen.add("answer")
                    src = v.attrs.get("unpack") if isinstance(v, Sym) else None
                    agg.add("R17.2", f, "the answer is decoded from the reply's first two bytes as a signed 16-bit value (so the documented -2 and -1 survive)",
                            src is not None and src[0] in ("<h", "h", "=h") and src[1] == 0, "%s.%s: answer %r decoded with %r" % (clsname, fname, v, src[0] if src else None))
            agg.add("R17.1", f, "transmit failure, timeout and answer paths all exist", seen >= {"write failed", "answer"}, "paths: %r" % sorted(seen))
            # no reply at all: -1 after the lookup timeout, never an endless wait
            n += 1
            nn.model.opaque[key] = reply_update(None, None)
            st, node = nn.fresh(fields={net.FN("_id"): 5, net.FN("_addr"): 0o15})
            outs = nn.run(f, node, [Const(9)], st, limits=Limits(max_paths=20000, loop_unroll=2, depth=14, concrete_loop=10))
            rets = [o for o in outs if o.kind == "return"]
            agg.add("R17.3", f, "without a reply the lookup ends through its clock test with -1", bool(rets) and all(value_matches(o.value, -1) for o in rets), "returns %r" % [o.value for o in rets])
    return n, req_fmt


def master_side(ck, agg, req_fmt):
    """R17.1/R17.2: the master answers from its table with -2 for misses, in the format the requester decodes, and decodes the
    request in the format the requester encodes"""
    P = ck.prog
    nn = node_of(ck, "RF24Mesh")
    mix = P.cls("network.mixins", "NetworkMixin")
    key = P.method(mix, "_net_update").qualname
    fu = P.method(nn.cls, "update")
    f_get = P.method(nn.cls, "_get_address")
    n = 0
    for ltype, msg in ((ALOOK, Bytes([(("const", b"\x09"), Const(1))], "bytes")), (ILOOK, Bytes([(("const", b"\x0d\x00"), Const(2))], "bytes"))):
        n += 1
        nn.model.opaque[key] = reply_update(ltype, msg)
        st, node = nn.fresh(fields={net.FN("_id"): 0, net.FN("_addr"): 0, "_do_dhcp": False}, frame_pins={"from_node": 0o15})
        outs = nn.run(fu, node, [], st, limits=Limits(max_paths=20000, loop_unroll=2, depth=14, concrete_loop=10))
        kinds = set()
        for out in outs:
            if out.kind != "return":
                agg.add("R17.5", fu, "a lookup request never makes the master raise", False, "type %d raises %s" % (ltype, out.value.exc), out.value.node)
                continue
            wr = [e for e in out.trace if e.kind == "summary" and e.data[0] == "_write"]
            agg.add("R17.1", fu, "the master answers each lookup exactly once", len(wr) == 1, "%d replies" % len(wr))
            if not wr:
                continue
            h, m = wr[0].data[3]["header"], wr[0].data[3]["message"]
            agg.add("R17.1", fu, "the answer goes back to the asking node with the same lookup type", const_of(norm(h.get("to_node"))) == 0o15 and const_of(norm(h.get("message_type"))) == ltype,
                    "reply to %r type %r" % (h.get("to_node"), h.get("message_type")))
            tg = m.parts[0][0] if isinstance(m, Bytes) and len(m.parts) == 1 else None
            okf = tg is not None and tg[0] == "pack" and tg[1] in ("<h", "h", "=h")
            agg.add("R17.2", fu, "the answer is encoded as a signed 16-bit little-endian value (what the requester decodes)", okf, "reply payload %r" % (tg,))
            if okf:
                v = norm(tg[2][0])
                if isinstance(v, Const):
                    kinds.add(v.v)
                    agg.add("R17.1", fu, "a miss is answered with the documented -2", v.v == -2, "constant answer %r" % (v.v,))
                else:
                    kinds.add("hit")
                    role = v.attrs.get("role", ("",))[0] if isinstance(v, Sym) else ""
                    agg.add("R17.1", fu, "a hit is answered from the table: the address for an ID, the ID for an address", role == ("dict-val" if ltype == ALOOK else "dict-key"), "answer %r" % (v,))
                    # the matching test compares the right column with the requested number
                    want_role = "dict-key" if ltype == ALOOK else "dict-val"
                    want_num = 9 if ltype == ALOOK else 0o15
                    okm = any(e.kind == "cond" and e.data[0] is True and isinstance(e.data[1], tuple) and c16._role(e, want_role) and any(const_of(norm(x)) == want_num for x in e.data[1]) for e in out.trace)
                    agg.add("R17.2", fu, "the master decodes the request as the requester encoded it (1-byte ID / '<H' address)", okm, "no table test against the requested number %r" % want_num)
        agg.add("R17.1", fu, "both the hit and the -2 miss answers exist", "hit" in kinds and -2 in kinds, "answers: %r" % sorted(map(str, kinds)))
    # request encodings (from the requester's analysis) must be what the master indexes / unpacks
    agg.add("R17.2", fu, "ID is requested as one byte, address as '<H'", req_fmt.get(ALOOK) == ("bytes", 1) and req_fmt.get(ILOOK, ("", ""))[0] == "pack" and req_fmt[ILOOK][1] in ("<H", "H", "=H"), "request formats %r" % (req_fmt,))
    return n


def misc(ck, agg):
    """R17.3/R17.4: blocking calls end through clock tests with documented values; release / check_connection constants"""
    P = ck.prog
    n = 0
    for clsname in ("RF24MeshNoMaster", "RF24Mesh"):
        nn = node_of(ck, clsname)
        mix = P.cls("network.mixins", "NetworkMixin")
        key = P.method(mix, "_net_update").qualname
        nn.model.opaque[key] = reply_update(None, None)
        cls = nn.cls
        # release_address()
        f = P.method(cls, "release_address")
        for addr in (0o15, DEFAULT):
            n += 1
            st, node = nn.fresh(fields={net.FN("_id"): 5, net.FN("_addr"): addr})
            outs = nn.run(f, node, [], st)
            for out in outs:
                wr = [e for e in out.trace if e.kind == "summary" and e.data[0] == "_write"]
                bg = [e for e in out.trace if e.kind == "summary" and e.data[0] == "_begin"]
                if addr == DEFAULT:
                    agg.add("R17.4", f, "an unconnected node has nothing to release", out.kind == "return" and value_matches(out.value, False) and not wr, "returns %r after %d transmissions" % (out.value, len(wr)))
                    continue
                if out.kind != "return":
                    agg.add("R17.4", f, "release_address() does not raise", False, "raises %s" % out.value.exc)
                    continue
                agg.add("R17.4", f, "the master is told with one MESH_ADDR_RELEASE from the node's current address", len(wr) == 1 and const_of(norm(wr[0].data[3]["header"].get("message_type"))) == T.CONSTANTS["MESH_ADDR_RELEASE"] and
                        const_of(norm(wr[0].data[3]["header"].get("from_node"))) == 0o15 and const_of(norm(wr[0].data[3]["header"].get("to_node"))) == 0, "transmissions %d" % len(wr))
                if bg:
                    agg.add("R17.4", f, "after a delivered release the node returns to the unassigned address and reports True", const_of(norm(bg[0].data[3]["args"][0])) == DEFAULT and value_matches(out.value, True),
                            "re-begins on %r, returns %r" % (bg[0].data[3]["args"][0], out.value))
                else:
                    agg.add("R17.4", f, "an undelivered release keeps the address and reports False", value_matches(out.value, False), "returns %r" % (out.value,))
        # check_connection()
        f = P.method(cls, "check_connection")
        for own_id, addr, want in ((0, 0, True), (5, DEFAULT, False)):
            n += 1
            st, node = nn.fresh(fields={net.FN("_id"): own_id, net.FN("_addr"): addr})
            outs = nn.run(f, node, [], st)
            for out in outs:
                agg.add("R17.4", f, "check_connection(): True on the master, False on an unconnected node, without traffic", out.kind == "return" and value_matches(out.value, want) and not [e for e in out.trace if e.kind == "summary"],
                        "id %d address %s: returns %r" % (own_id, oct(addr), out.value))
        # renew_address(): ends through its clock test with None
        f = P.method(cls, "renew_address")
        n += 1
        st, node = nn.fresh(fields={net.FN("_id"): 5, net.FN("_addr"): DEFAULT})
        outs = nn.run(f, node, [Const(1)], st, limits=Limits(max_paths=60000, loop_unroll=2, depth=14, concrete_loop=10))
        rets = [o for o in outs if o.kind == "return"]
        agg.add("R17.3", f, "with nobody answering renew_address() ends through its clock test and returns None", bool(rets) and all(isinstance(norm(o.value), Const) and norm(o.value).v is None for o in rets),
                "%s: returns %r" % (clsname, [o.value for o in rets][:4]))
        agg.add("R17.3", f, "renew_address() never raises when nobody answers", not [o for o in outs if o.kind == "raise"], "raises %r" % [o.value.exc for o in outs if o.kind == "raise"][:3])
        # "within the given timeout": the deadline is looked at between two pauses only, so a single back-off pause must be (much) shorter
        # than the timeout - here 1 s is given; the pauses of the first rounds are evaluated from the loop's own counters
        pauses = []
        for o in outs:
            for e in o.trace:
                if e.kind == "sleep" and e.func is f:
                    c_ = const_of(norm(e.data)) if e.data is not None and hasattr(e.data, "key") else None
                    pauses.append((c_, e))
        for c_, e in pauses:
            agg.add("R17.3", f, "a back-off pause of renew_address() is a number of milliseconds, far below the timeout", isinstance(c_, (int, float)) and 0 <= c_ < 1.0,
                    "%s: renew_address(timeout=1) pauses for %r seconds between two request rounds - the call returns long after the timeout" % (clsname, c_ if c_ is not None else e.data), e.node)
        if clsname == "RF24MeshNoMaster":
            agg.add("R17.3", f, "renew_address() backs off between request rounds (anchor)", bool(pauses), "%s: no pause found" % clsname)
        # the deadline is derived from the timeout the caller gave - in every class (an override that delegates must pass it on)
        from ..interp_expr import deps_of
        st, node = nn.fresh(fields={net.FN("_id"): 5, net.FN("_addr"): DEFAULT})
        outs_t = nn.run(f, node, [Sym("given_timeout", "float")], st, limits=Limits(max_paths=60000, loop_unroll=1, depth=14, concrete_loop=6))
        dl = []
        for o in outs_t:
            for e in o.trace:
                if e.kind == "cond" and e.func is not None and e.func.name == f.name and isinstance(e.data[1], tuple) and isinstance(e.node, ast.Compare) and any("clock" in str(sorted(map(str, deps_of(norm(x))))) or (isinstance(norm(x), Sym) and norm(x).attrs.get("role") == "clock") for x in e.data[1]):
                    dl.append(any("given_timeout" in str(sorted(map(str, deps_of(norm(x))))) for x in e.data[1]))
        agg.add("R17.3", f, "the deadline of renew_address() is derived from the timeout the caller gave", bool(dl) and all(dl),
                "%s.renew_address(timeout): %d of %d deadline tests do not depend on the given timeout - the call ends after the default 7.5 s whatever was asked for" % (clsname, len([x for x in dl if not x]), len(dl)))
        # R17.9: a node that still holds an address gives it up *unconditionally* before it asks for a new one: the poll replies and the
        # address response are sent to the unassigned address 0o4444, so on every path the node is re-begun there before its first
        # request leaves (a release message that may fail to be delivered is no substitute)
        st, node = nn.fresh(fields={net.FN("_id"): 5, net.FN("_addr"): 0o15})
        outs_c = nn.run(f, node, [Const(1)], st, limits=Limits(max_paths=60000, loop_unroll=1, depth=14, concrete_loop=6))
        nreq = 0
        for o in outs_c:
            sums = [e for e in o.trace if e.kind == "summary"]
            first = next((e for e in sums if e.data[0] == "_write" and const_of(norm((e.data[3].get("header") or {}).get("message_type"))) != T.CONSTANTS["MESH_ADDR_RELEASE"]), None)
            if first is None:
                continue
            nreq += 1
            okb = any(e.data[0] == "_begin" and const_of(norm(e.data[3]["args"][0])) == DEFAULT and e.seq < first.seq for e in sums)
            agg.add("R17.9", f, "a connected node falls back to the unassigned address before its first request, on every path", okb,
                    "%s.renew_address() from address 0o15: a path sends its first poll / request (type %r) while the node still listens on its old address - the replies go to 0o4444 and are never heard" % (clsname, (first.data[3].get("header") or {}).get("message_type")), first.node)
        if clsname == "RF24MeshNoMaster":
            agg.add("R17.9", f, "renew_address() of a connected node sends requests (anchor)", nreq > 0, "%s: no request transmission found" % clsname)
        # send(): lookup failures end through the clock test with False
        f = P.method(cls, "send")
        n += 1
        st, node = nn.fresh(fields={net.FN("_id"): 5, net.FN("_addr"): 0o15})
        msg = Bytes([(("param", "message"), Const(3))], "bytes")
        outs = nn.run(f, node, [Const(9), Const(7), msg], st, limits=Limits(max_paths=60000, loop_unroll=2, depth=14, concrete_loop=10))
        rets = [o for o in outs if o.kind == "return"]
        agg.add("R17.3", f, "send() to an ID that cannot be resolved ends through its clock test with False", bool(rets) and all(value_matches(o.value, False) for o in rets), "%s: returns %r" % (clsname, [o.value for o in rets][:4]))
    return n


def send_by_id(ck, agg):
    """R17.8 "a message sent to its node ID arrives at that node": send(id, ..) writes to the address the master reports for that ID - to
    the node's own address only when the *ID given by the caller* is the node's own ID, to the master for ID 0.  IDs and addresses are
    different number spaces: whether the destination is "me" must never be decided by comparing the looked-up address with an ID."""
    P = ck.prog
    n = 0
    for clsname in ("RF24MeshNoMaster", "RF24Mesh"):
        nn = node_of(ck, clsname)
        cls = nn.cls
        f = P.method(cls, "send")
        hit = cls.lookup("lookup_address")
        f_write = cls.lookup("write")[1]

        def lk(model, it, st, fr, node, target, args, kwargs):
            k = st.extra.get("nlook", 0) + 1
            st.extra["nlook"] = k
            net.set_rng(st, ("lookup", k), (-2, 0o7777))
            it.event(st, fr, "lookup", node, (k, args[1] if len(args) > 1 else None))
            return [(st, Sym(("lookup", k), "int", rng=(-2, 0o7777)))]

        def wr(model, it, st, fr, node, target, args, kwargs):
            it.event(st, fr, "mesh-write", node, tuple(args[1:]))
            return [(st, Sym(st.fresh_name("written"), "bool"))]
        nn.model.opaque[hit[1].qualname] = lk
        nn.model.opaque[f_write.qualname] = wr
        nn.model.loop_key = None
        st, node = nn.fresh(fields={net.FN("_addr"): 0o12})
        own_id = st.heap[node.ident].fields[net.FN("_id")]
        net.set_rng(st, "dest_id", (0, 255))
        dest = Sym("dest_id", "int", rng=(0, 255))
        msg = Bytes([(("param", "message"), Const(3))], "bytes")
        outs = nn.run(f, node, [dest, Const(7), msg], st, limits=Limits(max_paths=20000, loop_unroll=1, depth=14, concrete_loop=4))
        for out in outs:
            ws = [e for e in out.trace if e.kind == "mesh-write"]
            if out.kind != "return" or not ws:
                continue
            n += 1
            a0 = norm(ws[0].data[0])
            looks = [e for e in out.trace if e.kind == "lookup" and e.seq < ws[0].seq]
            # what the path knows about "the caller's ID is my own ID"
            mine = None
            bad_cmp = []
            for e in out.trace:
                if e.kind != "cond" or e.seq > ws[0].seq or not isinstance(e.node, ast.Compare) or not isinstance(e.data[1], tuple) or len(e.data[1]) != 2:
                    continue
                if not isinstance(e.node.ops[0], (ast.Eq, ast.NotEq)):
                    continue
                p_, q_ = [norm(x) for x in e.data[1]]
                keys = {p_.key(), q_.key()}
                if norm(own_id).key() in keys:
                    other = q_ if p_.key() == norm(own_id).key() else p_
                    eq = e.data[0] if isinstance(e.node.ops[0], ast.Eq) else not e.data[0]
                    if other.key() == dest.key():
                        mine = eq
                    elif isinstance(other, Sym) and isinstance(other.name, tuple) and other.name[0] == "lookup":
                        bad_cmp.append(e)
            for e in bad_cmp:
                agg.add("R17.8", f, "the node's own ID is compared with the ID the caller gave, never with a looked-up address", False,
                        "%s.send(): `%s` compares the address reported by the master with the node's ID - a destination whose address happens to equal the sender's ID "
                        "(ID 5 sending to the node at 0o5) is taken for the sender itself and the message is written to the sender's own address" % (clsname, ast.unparse(e.node)), e.node)
            if not bad_cmp:
                agg.add("R17.8", f, "the node's own ID is compared with the ID the caller gave, never with a looked-up address", True, "")
            if mine is True:
                agg.add("R17.8", f, "a message to the node's own ID is written to its own address", const_of(a0) == 0o12 and not looks, "%s.send(own id): written to %r after %d lookups" % (clsname, a0, len(looks)))
            elif looks:
                last = ("lookup", looks[-1].data[0])
                agg.add("R17.8", f, "a message to another ID is written to the address the master reported for it", isinstance(a0, Sym) and a0.name == last,
                        "%s.send(other id): written to %r, the master reported %r" % (clsname, a0, last))
    return n


def request_frames(ck, agg):
    """R17.6: every address request a joining node sends - to the first contact and to every later one - is a complete request frame:
    type MESH_ADDR_REQUEST, from the unassigned address, carrying the node's ID in `reserved`, empty payload, addressed to the contact.
    frame_buf is the shared RX/TX buffer: whatever _net_update() received while waiting for the previous contact's answer has overwritten
    it (modelled by a summary that replaces every header field and the message by fresh unknowns), so the fields must be set per contact."""
    P = ck.prog
    nn = node_of(ck, "RF24MeshNoMaster")
    cls = nn.cls
    mix = P.cls("network.mixins", "NetworkMixin")
    f = P.method(cls, "_request_address")
    REQ = T.CONSTANTS["MESH_ADDR_REQUEST"]

    def upd(model, it, st, fr, node, target, args, kwargs):
        selfv = args[0]
        k = st.extra.get("nsum", 0) + 1
        st.extra["nsum"] = k
        fb = st.heap[selfv.ident].fields.get("frame_buf")
        if isinstance(fb, Ref):
            st.heap[fb.ident].fields["message"] = Bytes([(("sym", ("rxmsg", k)), Sym(("len", ("rxmsg", k)), "int", rng=(0, 144)))], "bytes")
            h = st.heap[fb.ident].fields.get("header")
            if isinstance(h, Ref):
                for fld in list(st.heap[h.ident].fields):
                    st.heap[h.ident].fields[fld] = Sym(("rx", k, fld), "int", rng=(0, 0xFFFF))
        it.event(st, fr, "rx-havoc", node, k)
        return [(st, Sym(("updret", k), "int", rng=(0, 255)))]
    nn.model.opaque[P.method(mix, "_net_update").qualname] = upd
    c0, c1 = Sym("contact0", "int", rng=(0, 0o7777)), Sym("contact1", "int", rng=(0, 0o7777))

    def contacts(model, it, st, fr, node, target, args, kwargs):
        return [(st, Seq([c0, c1], "tuple"))]
    nn.model.opaque[P.method(cls, "_make_contact").qualname] = contacts
    for nm in ("lookup_node_id",):
        nn.model.opaque[P.method(cls, nm).qualname] = lambda model, it, st, fr, node, target, args, kwargs: [(st, Sym(st.fresh_name("lookup"), "int"))]
    def begin(model, it, st, fr, node, target, args, kwargs):
        # _begin(addr) re-addresses the node (R04.1); it never touches the node ID or the frame buffer
        st.heap[args[0].ident].fields[net.FN("_addr")] = args[1]
        it.event(st, fr, "begin-call", node, tuple(args[1:]))
        return [(st, Const(None))]
    nn.model.opaque[P.method(mix, "_begin").qualname] = begin
    nn.model.loop_key = net.radio_loop_key(nn, trace_kinds=("summary", "rx-havoc"))
    st, node = nn.fresh(fields={net.FN("_id"): 77, net.FN("_addr"): DEFAULT})
    outs = nn.run(f, node, [Const(1)], st, limits=Limits(max_paths=40000, loop_unroll=2, depth=14, concrete_loop=10))
    n = 0
    seen_second = False
    # a request reported as successful has re-addressed the node: the last _begin() on the path is given an address other than 0o4444 (the
    # one taken from the response) - a join that "succeeds" while the node still listens on the unassigned address is deaf to its traffic
    nsucc = 0
    for out in outs:
        if out.kind == "return" and value_matches(out.value, True):
            nsucc += 1
            bc = [e for e in out.trace if e.kind == "begin-call"]
            agg.add("R17.6", f, "a request reported as successful has re-addressed the node with _begin(<address from the response>)",
                    bool(bc) and const_of(norm(bc[-1].data[0])) != DEFAULT,
                    "a path returns True after %d _begin() call(s)%s" % (len(bc), (", the last one with %r" % (bc[-1].data[0],)) if bc else " - the node keeps the unassigned address"))
    agg.add("R17.6", f, "_request_address() has a successful path (anchor)", nsucc > 0, "no path returns True")
    for out in outs:
        wr = [e for e in out.trace if e.kind == "summary" and e.data[0] == "_write" and e.func is not None and const_of(norm(e.data[3]["args"][1])) == T.CONSTANTS["TX_PHYSICAL"]]
        for k, e in enumerate(wr):
            n += 1
            h, m, a = e.data[3].get("header", {}), e.data[3].get("message"), e.data[3]["args"]
            after_rx = any(x.kind == "rx-havoc" and x.seq < e.seq for x in out.trace)
            seen_second = seen_second or after_rx
            who = "request to contact #%d%s" % (k, " (after frames were received while waiting for the previous contact)" if after_rx else "")
            ok = const_of(norm(h.get("message_type"))) == REQ and const_of(norm(h.get("from_node"))) == DEFAULT and const_of(norm(h.get("reserved"))) == 77
            agg.add("R17.6", f, "every address request is a MESH_ADDR_REQUEST from the unassigned address carrying the node's ID", ok,
                    "%s: type %r, from %r, reserved %r" % (who, h.get("message_type"), h.get("from_node"), h.get("reserved")), e.node)
            okm = isinstance(m, Bytes) and const_of(norm(m.length())) == 0
            agg.add("R17.6", f, "an address request has an empty payload", okm, "%s: message %r" % (who, m), e.node)
            okt = hasattr(h.get("to_node"), "key") and norm(h.get("to_node")).key() == norm(a[0]).key()
            agg.add("R17.6", f, "an address request is addressed to the contact it is sent to", okt, "%s: header.to_node %r, sent to %r" % (who, h.get("to_node"), a[0]), e.node)
    agg.add("R17.6", f, "the analysis reaches a second contact after received traffic", seen_second, "no path sends a request after _net_update() ran")
    return n


def run(ck):
    ck.explanation = (
        "Static analysis of the mesh lookup/join API by abstract interpretation with _net_update() replaced by scripted summaries (no reply / a "
        "2-byte reply of the right type) and _write() by a verified quiet summary. R17.1: for both mesh classes lookup_address/lookup_node_id "
        "return the documented constants on the documented paths (0 for 0, own ID / 0 for None, -2 unconnected, -1 transmit failure, -1 timeout), "
        "ask the master exactly once with the right header; the master answers exactly once, to the asker, from its table (right column, matched "
        "against the requested number) or with -2. R17.2: writer/reader agreement of the four formats: ID request 1 byte <-> message[0], address "
        "request '<H' <-> '<H', both replies '<h' <-> '<h', so -2 is representable end to end. R17.3: renew_address, the lookups and mesh send() "
        "end through their clock tests with None / -1 / False and never raise when nobody answers. R17.4: release_address and check_connection "
        "constants. R17.5: no exception escapes the master on lookup frames (also C15). The master's allocator rules R16.1-R16.4 (candidates are "
        "the relay's free children, exhaustive collision scan, lease under the requester's ID) are re-run here: they are the master-side half of "
        "'a join yields an address no other node holds'.")
    ck.not_decided = ["that joins succeed, addresses are distinct across nodes and messages sent by ID arrive: multi-node schedules"]
    agg = Agg(ck)
    n1, req_fmt = lookups(ck, agg)
    n2 = master_side(ck, agg, req_fmt)
    n3 = misc(ck, agg)
    # a join yields an address no other connected node holds only if the master's allocator scans its whole table for every candidate:
    # the allocator rules of C16 (R16.1 candidates, R16.2 exhaustive scan, R16.3 lease under the requester's ID) are a necessary part of C17
    n4 = c16.dhcp_rules(ck, agg, c16.master(ck))
    n5 = request_frames(ck, agg)
    # "... recorded under its ID in the master's table" also at a re-join: the lease store overwrites an older lease of the same ID (R16.4)
    n6 = c16.table_ops(ck, agg, c16.master(ck))
    # ... and a request is served once: no request stays pending after the master's update() (R16.6)
    c16.dispatch(ck, agg, c16.master(ck))
    # "afterwards a message sent to its node ID arrives": the receiver's queue refuses a frame whose (origin, frame id, type) it already holds,
    # so every message a node's write()/send() builds must travel under a frame id of its own (R06.9, shared with C05/C06)
    from . import c05
    n7 = c05.validate(ck, agg, net.NetNode(ck, "rf24_network", "RF24Network"))
    n8 = send_by_id(ck, agg)
    # replies travel down the tree hop by hop (R04.5, shared with C04) and a node that has transmitted - successfully or not - listens
    # again, or it answers nothing any more (R07.1 for _write(), shared with C07)
    from . import c04, c07
    c04.next_hop(ck, agg, net.NetNode(ck, "rf24_network", "RF24Network"))
    c04.child_window(ck, agg, net.NetNode(ck, "rf24_network", "RF24Network"))
    c07.write_typestate(ck, agg)
    c07.addr_writers(ck, agg)
    agg.flush()
    ck.floor("R17.8", "send() paths reaching write()", n8, 4)
    ck.floor("R16.4", "lease table scenarios", n6, 3)
    ck.floor("R06.9", "sender scenarios", n7, 8)
    ck.floor("R16.1", "allocator relay scenarios", n4, 7)
    ck.floor("R17.6", "address requests examined", n5, 2)
    ck.floor("R17.1", "lookup scenarios", n1, 16)
    ck.floor("R17.1", "master scenarios", n2, 2)
    ck.floor("R17.3", "blocking / release scenarios", n3, 10)
