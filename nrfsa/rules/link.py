"""shared analyses of the transmit path (write / send / resend / load_ack) for C01, C02 and C20"""
import ast
from ..absval import Const, norm, const_of, Bytes, Seq, BitV, Lin, Sym, Unknown, as_bitv, as_lin, lin_add, interval
from ..interp import Ref, Raised, Limits
from ..tables import regmap, contract
from ..model import AnalysisError, iter_own_nodes
from .radio import Radio, regname, bits8, term_eq, fmt_bits, regwrites, lift
from .c03 import Agg, value_matches
from .c10 import set_status, cmds, spi_events

TX_CODES = (regmap.W_TX_PAYLOAD, regmap.W_TX_PAYLOAD_NOACK)


def param_buf(name="buf", length=None, kind="byteslike"):
    """a caller-owned buffer of symbolic content; length: int | None (symbolic)"""
    ln = Const(length) if length is not None else Sym(("len", name), "int", rng=(0, None))
    return Bytes([(("param", name), ln)], kind, origin=("param", name))


def sym_len_state(radio, st, name="buf"):
    rngs = dict(st.extra.get("symrng", {}))
    rngs[("len", name)] = (0, None)
    st.extra["symrng"] = rngs
    return st


def len_range(out, name="buf"):
    return out.state.extra.get("symrng", {}).get(("len", name), (0, None))


def tx_loads(out):
    """events that load a TX payload (W_TX_PAYLOAD / _NOACK / W_ACK_PAYLOAD)"""
    res = []
    for ev in out.trace:
        if ev.kind == "cmdwriten":
            res.append(ev)
    return res


def mutations(out, name="buf"):
    return [e for e in out.trace if e.kind in ("mutate", "inplace") and (e.data == ("param", name) or (e.kind == "inplace" and isinstance(e.data[1], Bytes) and e.data[1].origin == ("param", name)))]


# ------------------------------------------------------------------ C01
def write_gate(radio, agg, rule="R01.1", lite=False):
    """dynamic payloads: accepted length region == [1, 32]; nothing reaches the radio otherwise"""
    f = radio.prog.method(radio.cls, "write")
    n = 0
    for ask in (False, True):
        pins = {contract.DYNPD: 0x3F, contract.FEATURE: 0x05}
        st = sym_len_state(radio, radio.fresh(pins))
        outs = radio.run(f, [param_buf(), ask], st)
        acc, rej = [], []
        for out in outs:
            n += 1
            lo, hi = len_range(out)
            if out.kind == "raise":
                rej.append((lo, hi))
                agg.add(rule, f, "rejection is ValueError", out.value.exc == "ValueError", "len in [%s,%s] raises %s" % (lo, hi, out.value.exc), out.value.node)
                agg.add(rule, f, "nothing reaches the radio before the rejection", not spi_events(out) and not [e for e in out.trace if e.kind == "ce"],
                        "len in [%s,%s]: %d SPI transaction(s) before the raise" % (lo, hi, len(spi_events(out))))
            else:
                acc.append((lo, hi))
        lo_acc = min([a[0] for a in acc], default=None)
        hi_acc = max([(a[1] if a[1] is not None else 10 ** 9) for a in acc], default=None)
        agg.add(rule, f, "accepted payload lengths with dynamic payloads are exactly 1..32", (lo_acc, hi_acc) == (1, 32),
                "accepted region [%s,%s] (paths %r), rejected %r" % (lo_acc, hi_acc, acc, rej))
        zero = any(r[0] == 0 and r[1] == 0 for r in rej)
        big = any(r[0] == 33 and r[1] is None for r in rej)
        agg.add(rule, f, "length 0 and lengths above 32 are rejected", zero and big, "rejected regions %r" % (rej,))
    return n


def write_static(radio, agg, rule="R01.2", lite=False):
    """static payloads: the loaded payload has exactly the configured length: buf, buf+zeros or a prefix of buf"""
    f = radio.prog.method(radio.cls, "write")
    n = 0
    P = Sym("P", "int", rng=(1, 32))
    for ask in (False,):
        st = sym_len_state(radio, radio.fresh({contract.DYNPD: 0x3E if not lite else 0x00, contract.FEATURE: 0x01 if lite else 0x05}))
        rngs = dict(st.extra["symrng"])
        rngs["P"] = (1, 32)
        st.extra["symrng"] = rngs
        radio.pin(st, contract.RX_PW_P0, P)
        if lite:
            rngs[("len", "buf")] = (1, 32)  # lite validates the length first (documented reduction)
            st.extra["symrng"] = rngs
        outs = radio.run(f, [param_buf(), ask], st)
        seen = set()
        for out in outs:
            if out.kind != "return":
                if not lite:
                    agg.add(rule, f, "static mode never rejects a length", False, "raises %s for len in %r" % (out.value.exc, len_range(out)), out.value.node)
                continue
            loads = tx_loads(out)
            if not loads:
                continue  # TX FIFO full path
            n += 1
            pay = loads[0].data[1]
            ln = pay.length() if isinstance(pay, Bytes) else None
            l = as_lin(norm(ln)) if ln is not None else None
            okl = l is not None and radio.it0.lin_sign(lin_add(l, Lin({"P": 1}, 0), -1), out.state) == "==0"
            agg.add(rule, f, "loaded payload length == configured static length", okl, "payload %r has length %r, configured P" % (pay, ln), loads[0].node)
            if not isinstance(pay, Bytes):
                continue
            tags = [p[0] for p in pay.parts]
            shape = None
            if len(tags) == 1 and tags[0] == ("param", "buf"):
                shape = "as-is"
            elif len(tags) == 2 and tags[0] == ("param", "buf") and tags[1] == ("fill", 0):
                shape = "zero-padded"
            elif len(tags) == 1 and tags[0][0] == "slice" and tags[0][1] == ("param", "buf") and tags[0][2] == 0:
                shape = "prefix"
            seen.add(shape)
            agg.add(rule, f, "payload is the buffer, the buffer + zero bytes, or a prefix of the buffer", shape is not None, "payload parts %r" % (tags,), loads[0].node)
        agg.add(rule, f, "padding, truncation and exact-fit paths all exist", {"as-is", "zero-padded", "prefix"} <= seen, "shapes seen: %r" % (sorted(map(str, seen)),))
    return n


def write_cmd(radio, agg, rule="R01.4", lite=False):
    """command byte: 0xA0, or 0xB0 when ask_no_ack; the payload is the caller's bytes; CE pulse unless write_only"""
    f = radio.prog.method(radio.cls, "write")
    n = 0
    for ask, code in ((False, 0xA0), (True, 0xB0), (1, 0xB0), (0, 0xA0), (2, 0xB0)):
        for wo in (False, True):
            n += 1
            st = radio.fresh({contract.DYNPD: 0x3F, contract.FEATURE: 0x05})
            t0 = st.extra.get("txn", 0)        # transactions up to here happened before the call: their STATUS is the cached one
            outs = radio.run(f, [param_buf(length=7), ask, wo], st)
            for out in outs:
                if out.kind != "return":
                    agg.add(rule, f, "valid payload is accepted", False, "write(7 bytes) raises %s" % out.value.exc)
                    continue
                loads = tx_loads(out)
                full = [e for e in out.trace if e.kind == "cond" and e.data[0] is True and _mentions_bit0(e)]
                # the "TX FIFO full?" decision must look at a STATUS byte clocked out during THIS call: the byte cached before the call was
                # shifted out while the previous command (e.g. the previous W_TX_PAYLOAD) was still being clocked in, so it does not show
                # that payload yet - a 4th payload would be pushed into a full FIFO and write() would report success
                for e in out.trace:
                    if e.kind != "cond" or isinstance(e.data[1], tuple):
                        continue
                    sb = status_bits_of(e.data[1]) if isinstance(norm(e.data[1]), BitV) else None
                    if sb and any(src is not None and src[1] == 0 for src in sb.values()) and (not loads or e.seq < loads[0].seq):
                        txns = {src[0] for src in sb.values() if src is not None and src[1] == 0}
                        agg.add(rule, f, "the TX_FULL test uses a STATUS byte read during this call, not the one cached before it", all(isinstance(t_, int) and t_ > t0 for t_ in txns),
                                "write(): TX_FULL is tested in the STATUS byte of transaction %r, but the call's own transactions start at %d: the byte cached before the call "
                                "does not show the payload loaded last" % (sorted(txns, key=str), t0 + 1), e.node)
                if not loads:
                    ok = value_matches(out.value, False)
                    agg.add(rule, f, "TX FIFO full: returns False, loads nothing", ok, "returns %r" % (out.value,))
                    continue
                c = const_of(norm(loads[0].data[0]))
                agg.add(rule, f, "command is W_TX_PAYLOAD (0xA0) / W_TX_PAYLOAD_NOACK (0xB0) per ask_no_ack", len(loads) == 1 and c == code,
                        "write(ask_no_ack=%r): command %r, datasheet 0x%02X" % (ask, [const_of(norm(l.data[0])) for l in loads], code), loads[0].node)
                pay = loads[0].data[1]
                agg.add(rule, f, "the loaded bytes are the caller's payload", isinstance(pay, Bytes) and [p[0] for p in pay.parts] == [("param", "buf")], "payload %r" % (pay,))
                ces = [const_of(norm(e.data)) for e in out.trace if e.kind == "ce"]
                agg.add(rule, f, "CE is raised after loading unless write_only", (ces == [] if wo else (ces and ces[-1] in (1, True))), "write_only=%r: CE writes %r" % (wo, ces))
                w = regwrites(out)
                okc = [x for x in w if x[1] == 7 and const_of(norm(x[2])) == 0x70]
                agg.add(rule, f, "IRQ flags are cleared before the payload is loaded", bool(okc) and okc[0][0].seq < loads[0].seq, "STATUS writes %r" % [(x[1], x[2]) for x in w])
    return n


def _mentions_bit0(ev):
    v = ev.data[1]
    return isinstance(v, BitV)


def no_mutation(radio, agg, rule="R01.3", extra=()):
    """no public method modifies a caller-supplied buffer in place"""
    P, c = radio.prog, radio.cls
    n = 0
    cases = []
    for dyn in (0x3F, 0x3E):
        cases.append(("write", [param_buf()], {contract.DYNPD: dyn}))
    cases.append(("load_ack", [param_buf(), 1], {}))
    cases.append(("open_tx_pipe", [param_buf("address", 5)], {}))
    cases.append(("open_tx_pipe", [param_buf("address", 3)], {}))
    for p in (0, 1, 2):
        cases.append(("open_rx_pipe", [p, param_buf("address", 5)], {}))
    cases.extend(extra)
    for name, args, pins in cases:
        hit = c.lookup(name)
        if hit is None or hit[0] != "method":
            continue
        f = hit[1]
        n += 1
        pname = [a.origin[1] for a in args if isinstance(a, Bytes) and a.origin][0]
        st = sym_len_state(radio, radio.fresh(pins), pname)
        rngs = dict(st.extra["symrng"])
        if const_of(norm([a for a in args if isinstance(a, Bytes)][0].parts[0][1])) is None:
            rngs["P"] = (1, 32)
            st.extra["symrng"] = rngs
            radio.pin(st, contract.RX_PW_P0, Sym("P", "int", rng=(1, 32)))
        try:
            outs = radio.run(f, args, st)
        except AnalysisError:
            raise
        bad = []
        for out in outs:
            bad.extend(mutations(out, pname))
        agg.add(rule, f, "caller's `%s` is never modified in place" % pname, not bad,
                "in-place operation `%s` on the caller's buffer (a bytearray argument is changed)" % (ast.unparse(bad[0].node) if bad else ""), bad[0].node if bad else None)
    return n


# ------------------------------------------------------------------ C02
def opaque_resend(model, it, st, fr, node, target, args, kwargs):
    txn, sv = model.new_status(it, st, fr, args[0], node)
    it.event(st, fr, "opaque", node, ("resend", args[1:], kwargs, txn))
    k = st.extra.get("nresend", 0) + 1
    st.extra["nresend"] = k
    return [(st, Sym(("resend", k), "any"))]


def while_tests(func):
    ids = {}
    for n in iter_own_nodes(func.node):
        if isinstance(n, ast.While):
            for x in ast.walk(n.test):
                ids[id(x)] = n
    return ids


def last_txn_before(out, seq):
    t = 0
    for e in out.trace:
        if e.seq >= seq:
            break
        if e.kind in ("cmd", "cmdread", "cmdreadn", "cmdwriten", "regwrite", "regwriten", "regread", "regreadn"):
            t = e.data[2]
        elif e.kind == "opaque":
            t = e.data[3]
    return t


def status_bits_of(v):
    """{(txn, bit)} the value depends on, and whether it is exactly those bits in place"""
    b = as_bitv(norm(v))
    if b is None:
        return None
    res = {}
    for i, t in enumerate(b.bits):
        if t == 0:
            continue
        if isinstance(t, tuple) and t[0] == "s" and isinstance(t[1], tuple) and t[1][0] == "status":
            res[i] = (t[1][1], t[1][2], t[2])
        else:
            res[i] = None
    return res


def implied_status_bits(e):
    """STATUS bit numbers that a true `cond` event proves to be 1: a truth test of one single bit, or `(s & m) == c` for the bits of c"""
    if e.kind != "cond":
        return set()
    v = e.data[1]
    if isinstance(v, tuple):
        # `(s & m) == c` taken as true, or `(s & m) != c` taken as false; `flag is True` / `flag is not True` likewise
        if len(v) != 2 or not isinstance(e.node, ast.Compare) or not isinstance(e.node.ops[0], (ast.Eq, ast.NotEq, ast.Is, ast.IsNot)):
            return set()
        if (e.data[0] is True) != isinstance(e.node.ops[0], (ast.Eq, ast.Is)):
            return set()
        for x, y in ((v[0], v[1]), (v[1], v[0])):
            if isinstance(norm(y), Const) and norm(y).v is True:
                b = status_bits_of(x) if isinstance(norm(x), BitV) else None
                if b and len(b) == 1:
                    src = list(b.values())[0]
                    if src is not None and not src[2]:
                        return {src[1]}
                return set()
        if isinstance(e.node.ops[0], (ast.Is, ast.IsNot)):
            return set()
        for x, y in ((v[0], v[1]), (v[1], v[0])):
            c = const_of(norm(y))
            b = status_bits_of(x) if isinstance(norm(x), BitV) else None
            if isinstance(c, int) and not isinstance(c, bool) and b:
                return {src[1] for i, src in b.items() if src is not None and not src[2] and (c >> i) & 1}
        return set()
    if e.data[0] is not True:
        return set()
    b = status_bits_of(v) if isinstance(norm(v), BitV) else None
    if b and len(b) == 1:
        src = list(b.values())[0]
        if src is not None and not src[2]:
            return {src[1]}
    return set()


def loop_nodes(func):
    """id(node) -> enclosing while-loop, for every node in the test or the body of a while-loop of the function"""
    ids = {}
    for n in iter_own_nodes(func.node):
        if isinstance(n, ast.While):
            for part in [n.test] + list(n.body):
                for x in ast.walk(part):
                    ids.setdefault(id(x), n)
    return ids


SPI_KINDS = ("cmd", "cmdread", "cmdreadn", "cmdwriten", "regwrite", "regwriten", "regread", "regreadn", "opaque")


def wait_loops(radio, agg, f, outs, rule="R02.1"):
    """polling loops: the decision that ends the wait is taken on exactly TX_DS|MAX_RT (0x30) of the freshest STATUS.  A decision is the
    group of STATUS tests evaluated between two SPI transfers inside a while-loop - in its test (also inside helpers / property getters the
    test calls) or in an `if .. break` of its body - whatever its spelling (`s & 0x30`, `irq_ds or irq_df`, `(s & 0x30) == 0`).  Judged by
    value: the loop goes on only if both bits were found clear, it is left only because one of them was found set, and nothing but those
    two bits of the latest transfer is looked at"""
    lns = {}
    n = 0
    # which loops poll: every iteration observed on any path only refreshes STATUS (NOP / register reads) - no CE edge, no write, no flush.
    # (the force-retry loop also tests a STATUS bit, the remembered TX_DS, but its body re-transmits: it is not a wait and is judged by R02.5)
    pure_, spi_ = {}, {}
    for out in outs:
        cur = set()
        for ev in out.trace:
            if ev.kind == "loop-iter":
                cur.add(id(ev.node))
                pure_.setdefault(id(ev.node), True)
            elif ev.kind in ("loop-exit", "loop-break", "cut"):
                cur.discard(id(ev.node))
            elif ev.kind in SPI_KINDS or ev.kind == "ce":
                harmless = ev.kind in ("regread", "regreadn", "cmdread") or (ev.kind == "cmd" and const_of(norm(ev.data[0])) == 0xFF)
                for k_ in cur:
                    pure_[k_] = pure_[k_] and harmless
                    spi_[k_] = True
    polls = {k_: pure_[k_] and spi_.get(k_, False) for k_ in pure_}
    for out in outs:
        group, gloop = [], None

        def flush(outcome):
            nonlocal group, gloop, n
            if group and polls.get(id(gloop)) and outcome in ("continue", "exit"):
                n += 1
                ev0 = group[0][0]
                cur = last_txn_before(out, ev0.seq)
                union, clean = set(), True
                zeros, ones = set(), False
                for ev, bits, truthy in group:
                    union |= set(bits)
                    clean = clean and all(t_ == cur and not neg for t_, neg in bits.values())
                    if truthy is False:
                        zeros |= set(bits)
                    elif truthy is True and set(bits) <= {4, 5}:
                        ones = True
                if outcome == "continue":
                    ok = union == {4, 5} and clean and zeros >= {4, 5}
                else:
                    ok = union <= {4, 5} and clean and ones
                agg.add(rule, f, "wait loop tests exactly TX_DS|MAX_RT (0x30) of the latest STATUS", ok,
                        "wait decision `%s`%s looks at STATUS bits %r of transfer(s) %r (latest transfer %d) and the loop %s" % (
                            ast.unparse(ev0.node)[:60], " (+%d more tests)" % (len(group) - 1) if len(group) > 1 else "", sorted(union),
                            sorted({t_ for _e, bits, _t in group for t_, _n in bits.values()}, key=str), cur,
                            "goes on" if outcome == "continue" else "is left"), ev0.node)
            group, gloop = [], None

        inside = set()
        for ev in out.trace:
            if ev.kind == "loop-iter":
                inside.add(id(ev.node))
            elif ev.kind in ("loop-exit", "loop-break", "cut"):
                inside.discard(id(ev.node))
            if ev.kind in SPI_KINDS:
                # a transfer inside the loop after the tests: the round goes on (`while True: if s & 0x30: break; update()`)
                flush("continue" if gloop is not None and id(gloop) in inside else "spi")
                continue
            if ev.kind in ("loop-iter", "cut") and gloop is not None and ev.node is gloop:
                flush("continue")
                continue
            if ev.kind in ("loop-exit", "loop-break") and gloop is not None and ev.node is gloop:
                flush("exit")
                continue
            if ev.kind != "cond" or ev.func is None:
                continue
            if ev.func.qualname not in lns:
                lns[ev.func.qualname] = loop_nodes(ev.func)
            loop = lns[ev.func.qualname].get(id(ev.node))
            if loop is None and ev.loop is not None:
                loop = ev.loop[1]
            if loop is None:
                continue
            val = ev.data[1]
            truthy = ev.data[0]
            if isinstance(val, tuple) and len(val) == 2 and isinstance(ev.node, ast.Compare) and isinstance(ev.node.ops[0], (ast.Eq, ast.NotEq)):
                # `status & 0x30 == 0` / `!= 0`: the same decision spelled as a comparison with zero
                for x, y in ((val[0], val[1]), (val[1], val[0])):
                    if const_of(norm(y)) == 0 and not isinstance(norm(x), Const):
                        val = x
                        truthy = (not ev.data[0]) if isinstance(ev.node.ops[0], ast.Eq) else ev.data[0]
            raw = status_bits_of(val) if not isinstance(val, tuple) else None
            if not raw or any(v is None for v in raw.values()):
                continue
            # which STATUS bits the truth of this value is about: the bits in place, or one single bit wherever bool() / a shift moved it
            if len(raw) > 1 and any(v[1] != i for i, v in raw.items()):
                continue
            bits = {v[1]: (v[0], v[2]) for v in raw.values()}
            if gloop is not None and loop is not gloop:
                flush("other")
            gloop = loop
            group.append((ev, bits, truthy))
        flush("end")
    return n


def freshness(radio, agg, f, outs, rule="R02.9", need_load=False):
    """a flag cleared by a write to STATUS must not be tested in the STATUS byte clocked out by that very write"""
    n = 0
    for out in outs:
        clears = {}
        if need_load and not tx_loads(out):
            continue  # nothing was loaded (TX FIFO reported full): outside the send()/resend() histories of the property
        for ev in out.trace:
            if ev.kind == "regwrite" and ev.data[0] == 7:
                clears[ev.data[2]] = const_of(norm(ev.data[1])) or 0x70
            elif ev.kind in ("cond", "known", "cmp"):
                vals = ev.data[1] if isinstance(ev.data[1], tuple) else (ev.data[1],)
                for v in vals:
                    bits = status_bits_of(v) if isinstance(norm(v), BitV) else None
                    if not bits:
                        continue
                    for i, src in bits.items():
                        if src is None:
                            continue
                        txn, bit, _neg = src
                        if txn in clears and (clears[txn] >> bit) & 1:
                            n += 1
                            agg.add(rule, ev.func, "flag test `%s` uses a STATUS byte newer than the write that cleared the flag" % ast.unparse(ev.node)[:60], False,
                                    "STATUS bit %d is tested in the byte shifted out *during* the write that clears it (datasheet 8.3.1: STATUS is clocked out "
                                    "while the command byte is clocked in), so the old flag is seen; a transaction must separate the clear and the test" % bit, ev.node)
        n += 1
    agg.add(rule, f, "cleared flags are re-read before they are tested (checked on every path)", True, "")
    return n


def send_prologue(radio, agg, rule="R02.4", lite=False):
    """send(): CE low first; FLUSH_TX iff cached MAX_RT|TX_FULL; FLUSH_RX iff not send_only and a payload waits; one load"""
    f = radio.prog.method(radio.cls, "send")
    radio.model.opaque[radio.prog.method(radio.cls, "resend").qualname] = opaque_resend
    n = 0
    try:
        for s in range(128):
            for so in (False, True):
                n += 1
                st = set_status(radio, radio.fresh({contract.DYNPD: 0x3F, contract.FEATURE: 0x05}), s)
                outs = radio.run(f, [param_buf(length=5), False, 0, so], st, limits=Limits(max_paths=4000, loop_unroll=1))
                want_ftx = bool(s & 0x11)
                for out in outs:
                    if out.kind != "return":
                        agg.add(rule, f, "send() of a valid payload does not raise", False, "STATUS=0x%02X raises %s" % (s, out.value.exc))
                        continue
                    evs = [e for e in out.trace if e.kind in ("ce", "cmd", "cmdwriten", "regwrite", "cmdreadn", "regread", "cmdread", "regwriten")]
                    agg.add(rule, f, "CE is driven low before anything else", bool(evs) and evs[0].kind == "ce" and const_of(norm(evs[0].data)) in (0, False),
                            "first effect %r" % (evs[0] if evs else None,))
                    loads = tx_loads(out)
                    pre = [e for e in evs if not loads or e.seq < loads[0].seq]
                    ftx = [e for e in pre if e.kind == "cmd" and const_of(norm(e.data[0])) == regmap.FLUSH_TX]
                    frx = [e for e in pre if e.kind == "cmd" and const_of(norm(e.data[0])) == regmap.FLUSH_RX]
                    agg.add(rule, f, "FLUSH_TX iff the cached STATUS shows MAX_RT or TX_FULL", bool(ftx) == want_ftx and len(ftx) <= 1,
                            "cached STATUS=0x%02X: %d FLUSH_TX before the load, expected %d" % (s, len(ftx), int(want_ftx)))
                    if not ftx:
                        want_frx = (not so) and ((s >> 1) & 7) < 6
                        agg.add(rule, f, "FLUSH_RX iff not send_only and RX_P_NO < 6", bool(frx) == want_frx and len(frx) <= 1,
                                "cached STATUS=0x%02X send_only=%r: %d FLUSH_RX, expected %d" % (s, so, len(frx), int(want_frx)))
                    else:
                        agg.add(rule, f, "FLUSH_RX never when send_only", not (so and frx), "send_only=True but FLUSH_RX issued")
                    if loads:
                        agg.add(rule, f, "exactly one payload is loaded, the caller's", len(loads) == 1 and isinstance(loads[0].data[1], Bytes) and [p[0] for p in loads[0].data[1].parts] == [("param", "buf")]
                                and const_of(norm(loads[0].data[0])) == 0xA0, "loads %r" % [(l.data[0], l.data[1]) for l in loads])
    finally:
        radio.model.opaque.pop(radio.prog.method(radio.cls, "resend").qualname, None)
    return n


def send_outcome(radio, agg, lite=False):
    """R02.1/2/3/5/9 on send() with symbolic STATUS per transaction"""
    f = radio.prog.method(radio.cls, "send")
    fr_ = radio.prog.method(radio.cls, "resend")
    radio.model.opaque[fr_.qualname] = opaque_resend
    n = 0
    try:
        for so in (False, True):
            for retry in (0, 2):
                n += 1
                st = set_status(radio, radio.fresh({contract.DYNPD: 0x3F, contract.FEATURE: 0x05}), 0x0E)
                outs = radio.run(f, [param_buf(length=5), False, retry, so], st, limits=Limits(max_paths=8000, loop_unroll=3))
                label = "send(force_retry=%d, send_only=%r)" % (retry, so)
                nl = wait_loops(radio, agg, f, outs)
                agg.add("R02.1", f, "send() has a STATUS polling loop", nl > 0, "%s: no loop testing STATUS found" % label)
                freshness(radio, agg, f, outs, need_load=True)
                cut = [e for o in outs for e in o.trace if e.kind == "cut"]
                most = max([len([e for e in o.trace if e.kind == "opaque"]) for o in outs if o.kind == "return" and tx_loads(o)], default=0)
                for retry_ in (retry, 1):
                    if retry_ == 1:
                        # force_retry = 1: exactly one forced retry is possible
                        st1 = set_status(radio, radio.fresh({contract.DYNPD: 0x3F, contract.FEATURE: 0x05}), 0x0E)
                        o1 = radio.run(f, [param_buf(length=5), False, 1, so], st1, limits=Limits(max_paths=8000, loop_unroll=3))
                        most_ = max([len([e for e in o.trace if e.kind == "opaque"]) for o in o1 if o.kind == "return" and tx_loads(o)], default=0)
                    else:
                        most_ = most
                    agg.add("R02.5", f, "when every attempt fails, resend() is forced exactly force_retry times (False only after all of them)", most_ == retry_,
                            "send(force_retry=%d, send_only=%r): at most %d resend() call(s) on any path, expected %d" % (retry_, so, most_, retry_))
                for out in outs:
                    if out.kind != "return":
                        continue
                    calls = [e for e in out.trace if e.kind == "opaque"]
                    agg.add("R02.5", f, "at most force_retry forced retries", len(calls) <= retry, "%s: %d resend() calls on a path" % (label, len(calls)))
                    for cidx, cev in enumerate(calls):
                        a = cev.data[1]
                        okarg = len(a) == 1 and value_matches(a[0], so) or (cev.data[2].get("send_only") is not None and value_matches(cev.data[2]["send_only"], so))
                        agg.add("R02.5", f, "forced retries pass send_only through to resend()", bool(okarg), "%s: resend args %r %r" % (label, a, cev.data[2]))
                    loads = tx_loads(out)
                    if not loads:
                        continue
                    # the result: bit 5 (TX_DS) of the last STATUS / ACK payload / resend result
                    v = norm(out.value)
                    rds = [e for e in out.trace if e.kind == "cmdreadn" and const_of(norm(e.data[0])) == regmap.R_RX_PAYLOAD]
                    if rds:
                        agg.add("R02.3", f, "ACK payload is fetched only when send_only is off", not so, "%s: R_RX_PAYLOAD issued with send_only" % label, rds[0].node)
                        # path condition must contain RX_DR and TX_DS of the latest status
                        # true tests of STATUS bits before the fetch, in send() or in a helper it calls; together they must cover RX_DR and
                        # TX_DS (a refined boolean `result` stands for TX_DS: R02.2)
                        seen_bits = set()
                        for e in out.trace:
                            if e.seq < rds[0].seq:
                                seen_bits |= implied_status_bits(e)
                        okc = {5, 6} <= seen_bits
                        agg.add("R02.3", f, "ACK payload fetch is guarded by RX_DR and TX_DS", okc, "%s: no guard on STATUS bits 6 and 5 before read()" % label, rds[0].node)
                    elif not calls:
                        okv = False
                        if isinstance(v, BitV):
                            b = status_bits_of(v)
                            okv = set(b) == {0} and b[0] is not None and b[0][1] == 5 and not b[0][2] and b[0][0] == last_txn_before(out, 10 ** 12)
                        elif isinstance(v, Const) and v.v in (0, 1, True, False):
                            okv = True  # refined by a recorded test of `result`
                        elif isinstance(v, Const) and v.v is None:
                            okv = _ack_guard(out, f) and not so  # read() found nothing to return
                        agg.add("R02.2", f, "result is TX_DS (bit 5) of the STATUS that ended the wait", okv, "%s: returns %r" % (label, v))
                agg.add("R02.5", f, "the force-retry loop terminates within force_retry iterations", not cut or all(not _is_retry_loop(c.node) for c in cut),
                        "%s: retry loop still running after %d iterations" % (label, 3))
    finally:
        radio.model.opaque.pop(fr_.qualname, None)
    return n


def send_with_real_resend(radio, agg, lite=False):
    """R02.9 across the send()/resend()/read() boundary: one forced retry with resend() and read() inlined"""
    f = radio.prog.method(radio.cls, "send")
    n = 0
    for so in (False, True):
        n += 1
        st = set_status(radio, radio.fresh({contract.DYNPD: 0x3F, contract.FEATURE: 0x07, contract.EN_AA: 0x3F}), 0x0E)
        outs = radio.run(f, [param_buf(length=5), False, 1, so], st, limits=Limits(max_paths=30000, loop_unroll=1))
        freshness(radio, agg, f, outs, need_load=True)
        for out in outs:
            if out.kind != "return" or not tx_loads(out):
                continue
            rds = [e for e in out.trace if e.kind == "cmdreadn" and const_of(norm(e.data[0])) == regmap.R_RX_PAYLOAD]
            agg.add("R02.3", f, "at most one ACK payload is fetched per send() (a forced retry's ACK payload is not read twice)", len(rds) <= 1,
                    "send(force_retry=1, send_only=%r): %d R_RX_PAYLOAD commands on one path" % (so, len(rds)), rds[1].node if len(rds) > 1 else None)
    return n


def _ack_guard(out, f):
    """the path's decisions prove RX_DR (bit 6) and TX_DS (bit 5) of STATUS (whatever the polarity / spelling of the tests)"""
    need = set()
    for e in out.trace:
        need |= implied_status_bits(e)
    return {5, 6} <= need


def _is_retry_loop(node):
    return isinstance(node, ast.While) and any(isinstance(x, ast.Name) and x.id == "force_retry" for x in ast.walk(node.test))


def bind_args(f, args, kw):
    """positional + keyword arguments of a call bound to f's parameters (self excluded), constant defaults filled in"""
    import ast as _ast
    names = [a.arg for a in f.node.args.args][1:]
    defaults = f.node.args.defaults
    out = list(args)
    for i in range(len(out), len(names)):
        nm = names[i]
        if kw and nm in kw:
            out.append(kw[nm])
            continue
        di = i + 1 - (len(f.node.args.args) - len(defaults))
        if 0 <= di < len(defaults) and isinstance(defaults[di], _ast.Constant):
            out.append(Const(defaults[di].value))
        else:
            break
    return out


def send_list(radio, agg, rule="R01.7"):
    """list / tuple input: one recursive send per element, in order, same options; results in order"""
    f = radio.prog.method(radio.cls, "send")

    class Rec:
        pass
    calls = []
    old = radio.model.on_recursion

    def on_rec(it, st, fr, node, target, args, kw):
        k = st.extra.get("nrec", 0) + 1
        st.extra["nrec"] = k
        it.event(st, fr, "recursive", node, (target.func.qualname, args, kw, k))
        return [(st, Sym(("sendresult", k), "any"))]
    radio.model.on_recursion = on_rec
    n = 0
    try:
        for ctor in ("list", "tuple"):
            bufs = [param_buf("b0", 3), param_buf("b1", 4), param_buf("b2", 5)]
            st = radio.fresh()
            arg = st.alloc("list", items=bufs) if ctor == "list" else Seq(bufs, "tuple")
            outs = radio.run(f, [arg, True, 2, True], st)
            for out in outs:
                n += 1
                recs = [e for e in out.trace if e.kind == "recursive"]
                ok = out.kind == "return" and len(recs) == 3
                agg.add(rule, f, "one transmission per element of a %s" % ctor, ok, "%d recursive send() calls for 3 payloads" % len(recs))
                if not ok:
                    continue
                for k, e in enumerate(recs):
                    a = bind_args(f, e.data[1], e.data[2])
                    oka = len(a) == 4 and isinstance(a[0], Bytes) and a[0].origin == ("param", "b%d" % k) and value_matches(a[1], True) and value_matches(a[2], 2) and value_matches(a[3], True)
                    agg.add(rule, f, "elements are sent in order with the caller's options", oka, "call %d: args %r" % (k, a))
                v = out.value
                items = out.state.heap[v.ident].items if isinstance(v, Ref) and v.kind == "list" else None
                okr = items is not None and [getattr(i, "name", None) for i in items] == [("sendresult", 1), ("sendresult", 2), ("sendresult", 3)]
                agg.add(rule, f, "one result per payload, in order", okr, "returns %r" % (items,))
                agg.add(rule, f, "no payload is loaded by the list branch itself", not tx_loads(out), "")
    finally:
        radio.model.on_recursion = old
    return n


def resend_flush(radio, agg, lite=False):
    """R02.6: resend(send_only=False) empties the RX FIFO before re-transmitting iff it holds something - decided by RX_P_NO (bits 3:1)
    of STATUS, not by the RX_DR flag (a later write() may have cleared the flag while the payload still waits) - for every RX_P_NO x RX_DR;
    with send_only the RX FIFO is never touched"""
    f = radio.prog.method(radio.cls, "resend")
    n = 0
    for so in (False, True):
        for rxp in range(8):
            for rxdr in (0, 1):
                n += 1
                s = 0x20 | (rxdr << 6) | (rxp << 1)
                st = radio.fresh({contract.FEATURE: 0x05, contract.DYNPD: 0x3F})
                st.extra["status_pin"] = s
                outs = radio.run(f, [so], st, limits=Limits(max_paths=4000, loop_unroll=2))
                for out in outs:
                    if out.kind != "return":
                        continue
                    ces = [e for e in out.trace if e.kind == "ce"]
                    if not ces:
                        continue        # empty TX FIFO: nothing to re-send (judged by resend_rules)
                    hi = [e for e in ces if const_of(norm(e.data)) in (1, True)]
                    frx = [e for e in out.trace if e.kind == "cmd" and const_of(norm(e.data[0])) == regmap.FLUSH_RX and (not hi or e.seq < hi[0].seq)]
                    want = (not so) and rxp < 6
                    agg.add("R02.6", f, "before re-transmitting, FLUSH_RX iff not send_only and the RX FIFO holds a payload (RX_P_NO < 6), whatever RX_DR says", bool(frx) == want,
                            "resend(send_only=%r) with STATUS=0x%02X (RX_P_NO=%d, RX_DR=%d): %d FLUSH_RX, expected %d - %s" % (
                                so, s, rxp, rxdr, len(frx), int(want), "a stale ACK payload would be returned as this transmission's" if want else "a waiting payload is destroyed"))
    return n


def resend_rules(radio, agg, lite=False):
    resend_flush(radio, agg, lite)
    f = radio.prog.method(radio.cls, "resend")
    n = 0
    for so in (False, True):
        st = radio.fresh({contract.FEATURE: 0x05, contract.DYNPD: 0x3F})
        outs = radio.run(f, [so], st, limits=Limits(max_paths=4000, loop_unroll=2))
        label = "resend(send_only=%r)" % so
        nl = wait_loops(radio, agg, f, outs)
        agg.add("R02.1", f, "resend() has a STATUS polling loop", nl > 0, "%s: no loop testing STATUS found" % label)
        freshness(radio, agg, f, outs)
        for out in outs:
            n += 1
            if out.kind != "return":
                agg.add("R02.6", f, "resend() does not raise", False, "%s raises %s" % (label, out.value.exc))
                continue
            evs = [e for e in out.trace if e.kind in ("ce", "cmd", "cmdwriten", "regwrite", "cmdreadn", "regread", "cmdread")]
            agg.add("R02.6", f, "resend() never loads a payload", not tx_loads(out), "%s loads %r" % (label, tx_loads(out)))
            first = evs[0] if evs else None
            agg.add("R02.6", f, "TX FIFO status is read before anything else", first is not None and first.kind == "regread" and first.data[0] == 0x17, "%s: first effect %r" % (label, first))
            ces = [e for e in evs if e.kind == "ce"]
            # the early exit must be decided by TX_EMPTY (FIFO_STATUS bit 4) alone: a test that also reacts to TX_FULL (bit 5) would refuse to
            # re-send from a full FIFO
            empty_path = any(e.kind == "cond" and e.data[0] is True and isinstance(norm(e.data[1]), BitV) and _dep_reg(e.data[1], 0x17, 4) and
                             not any(_dep_reg(e.data[1], 0x17, b_) for b_ in (0, 1, 2, 3, 5, 6, 7)) for e in out.trace)
            if not ces:
                ok = value_matches(out.value, False) and len(evs) == 1
                agg.add("R02.6", f, "empty TX FIFO: returns False and touches nothing", ok, "%s: returns %r after %d effects" % (label, out.value, len(evs)))
                agg.add("R02.6", f, "the early exit is taken on the TX_EMPTY flag (FIFO_STATUS bit 4)", empty_path, "%s: early exit not guarded by FIFO_STATUS.TX_EMPTY" % label)
                continue
            clr = [e for e in evs if e.kind == "regwrite" and e.data[0] == 7]
            hi = [e for e in ces if const_of(norm(e.data)) in (1, True)]
            lo = [e for e in ces if const_of(norm(e.data)) in (0, False)]
            okc = bool(clr) and bool(hi) and ((const_of(norm(clr[0].data[1])) or 0) & 0x10) and clr[0].seq < hi[0].seq
            agg.add("R02.6", f, "MAX_RT is cleared before CE is raised", bool(okc), "%s: STATUS writes %r, CE %r" % (label, [c.data[1] for c in clr], [c.data for c in ces]))
            agg.add("R02.6", f, "CE is pulsed low then high", bool(lo) and bool(hi) and lo[0].seq < hi[0].seq, "%s: CE writes %r" % (label, [c.data for c in ces]))
            frx = [e for e in evs if e.kind == "cmd" and const_of(norm(e.data[0])) == regmap.FLUSH_RX]
            agg.add("R02.6", f, "FLUSH_RX never when send_only", not (so and frx), label)
            rds = [e for e in out.trace if e.kind == "cmdreadn" and const_of(norm(e.data[0])) == regmap.R_RX_PAYLOAD]
            if rds:
                agg.add("R02.3", f, "ACK payload is fetched only when send_only is off", not so, "%s: R_RX_PAYLOAD issued with send_only" % label, rds[0].node)
                okg = False
                need = set()
                for e in out.trace:
                    if e.seq < rds[0].seq:
                        need |= implied_status_bits(e)
                agg.add("R02.3", f, "ACK payload fetch is guarded by RX_DR and TX_DS", {5, 6} <= need, "%s: guards seen on STATUS bits %r" % (label, sorted(need)), rds[0].node)
            else:
                v = norm(out.value)
                okv = False
                if isinstance(v, BitV):
                    b = status_bits_of(v)
                    okv = set(b) == {0} and b[0] is not None and b[0][1] == 5 and not b[0][2] and b[0][0] == last_txn_before(out, 10 ** 12)
                elif isinstance(v, Const) and v.v in (0, 1, True, False):
                    okv = True
                elif isinstance(v, Const) and v.v is None:
                    okv = _ack_guard(out, f) and not so
                agg.add("R02.2", f, "result is TX_DS (bit 5) of the STATUS that ended the wait", okv, "%s: returns %r" % (label, v))
    return n


def _dep_reg(v, reg, bit):
    b = as_bitv(norm(v))
    if b is None:
        return False
    for t in b.bits:
        if isinstance(t, tuple) and t[0] == "s" and t[1] == ("reg", reg, bit):
            return True
    return False
