"""C02 - send()/resend(): which STATUS bits decide what, in which order, and that the loops end."""
from ..tables import regmap, contract
from .radio import Radio
from .c03 import Agg
from . import link, c10


def run_for(ck, radio, agg, lite=False):
    n1 = link.send_prologue(radio, agg, lite=lite)
    n2 = link.send_outcome(radio, agg, lite=lite)
    n3 = link.resend_rules(radio, agg, lite=lite)
    link.send_with_real_resend(radio, agg, lite=lite)
    n4 = c10.rx_p_no_sites(radio, agg, c10.status_sites(radio), rule="R02.7")
    return n1, n2, n3, n4


def run(ck):
    ck.explanation = (
        "Static analysis of RF24.send()/resend() by path-sensitive abstract interpretation in which every SPI transaction returns a fresh "
        "symbolic STATUS byte, so each tested bit is known by (transaction, bit). R02.1: the polling loops test exactly TX_DS|MAX_RT of the "
        "latest STATUS and their body refreshes it. R02.2: the boolean result is TX_DS of the STATUS that ended the wait. R02.3: the ACK payload "
        "is fetched only under RX_DR and TX_DS and not send_only. R02.4: for all 128 cached STATUS values x send_only: CE low first, FLUSH_TX iff "
        "MAX_RT|TX_FULL, FLUSH_RX iff not send_only and RX_P_NO<6, exactly one W_TX_PAYLOAD of the caller's bytes. R02.5: the force-retry loop calls "
        "resend(send_only) at most force_retry times. R02.6: resend() returns False on an empty TX FIFO before touching CE or flags, clears MAX_RT "
        "before raising CE, never loads a payload. R02.7: pipe-number tests isolate RX_P_NO. R02.9: a flag cleared by a write to STATUS is not "
        "tested in the STATUS byte clocked out by that same write (datasheet SPI timing). R02.10: a list/tuple batch is one recursive send() per "
        "element, in order, with the caller's ask_no_ack / force_retry / send_only.")
    ck.not_decided = ["that True is returned iff the radio completed the transmission on air, and the wall-clock bound from ARC/ARD: they depend on "
                      "the silicon raising TX_DS/MAX_RT; the polling loops have no software timeout (reported as an assumption)"]
    radio = Radio(ck)
    agg = Agg(ck)
    n = run_for(ck, radio, agg)
    # R02.10: a batch (list/tuple) is one send() per element with the caller's options - send_only / force_retry apply to every element
    link.send_list(radio, agg, rule="R02.10")
    # the ACK payload send()/resend() return is fetched through any()/read()/pipe: their decode tables (R10.1, R10.6; ACK payloads arrive on
    # pipe 0) are part of "returns the peer's ACK payload"
    c10.run_for(ck, radio, agg)
    # "the peer's ACK payload instead of True" is decided from RX_DR of the STATUS that ended the wait: that is this transmission's RX_DR only
    # because write() clears all three flags (0x70) before it loads the payload; a full TX FIFO is reported, nothing is loaded (R02.11 =
    # C01's R01.4, re-run here)
    n11 = link.write_cmd(radio, agg, rule="R02.11")
    # "within the time bounded by the retry configuration" / "a failed payload never leaks into later calls": the retry configuration the
    # radio uses is what the setters programmed and what `with` restores from the cached copy, and no setter clears MAX_RT behind send()'s
    # back (C03's R03.3 / R03.8 obligations, re-run here)
    from . import c03
    c03.run_setters(radio, agg, contract.SETTERS)
    from . import c08
    c08.events_kept(radio, agg)
    # "True iff acknowledged": the auto-ack is heard on pipe 0, which open_tx_pipe() / the listen setter must have put on the TX address, and
    # "only its own payload": unused ACK payloads are flushed on TX entry (R08.x, shared with C08)
    c08.run_for(ck, radio, agg)
    # the sibling driver rf24_lite.RF24 implements the same send()/resend() contract: the same rules, same oracle (shared with C20)
    lite = Radio(ck, "rf24_lite", "RF24")
    run_for(ck, lite, agg, lite=True)
    c10.run_for(ck, lite, agg, lite=True)
    link.write_cmd(lite, agg, lite=True, rule="R02.11")
    agg.flush()
    ck.floor("R02.11", "write() scenarios", n11, 8)
    ck.floor("R02.4", "send() prologue scenarios", n[0], 256)
    ck.floor("R02", "send() outcome scenarios", n[1], 4)
    ck.floor("R02.6", "resend() paths", n[2], 8)
    ck.floor("R02.7", "pipe-number test sites", n[3], 2)
