"""C08 - RX/TX switching preserves the user's pipe-0 address and ACK reception.

Inductive, per method: with the user's pipe-0 reading address, the content of
RX_ADDR_P0, EN_RXADDR.0 and EN_AA.0 pinned to every combination of a small
alphabet, each method that takes part in role switching is analysed and its
exit state compared with the documented one."""
import ast
from ..absval import Const, norm, const_of, Bytes, Seq, BitV, Lin, Sym, Unknown
from ..interp import Ref, Raised, Limits
from ..tables import regmap, contract
from ..model import AnalysisError, iter_own_nodes, call_edges
from .radio import Radio, regname, bits8, term_eq, fmt_bits, regwrites, lift
from .c03 import Agg, value_matches
from .c10 import cmds, spi_events

A, B, A3 = b"1Node", b"2Node", b"abc"


def pin_addr(radio, st, r, data):
    """pin a 5-byte address register (and its shadow) to concrete bytes"""
    st.extra["regs"][r] = Bytes([(("const", bytes(data)), Const(len(data)))], "bytes")
    p = radio.pairs.get(r)
    if p is None:
        return
    name, idx = p
    cell = st.heap[radio.ref.ident]
    arr = st.alloc("bytearray", items=[Const(b) for b in data], label="%s%s" % (name, "" if idx is None else "[%d]" % idx))
    if idx is None:
        cell.fields[name] = arr
    else:
        st.heap[cell.fields[name].ident].items[idx] = arr


def reg_bytes(radio, st, r):
    v = st.extra["regs"].get(r)
    k = radio.bytes_of(st, v)
    if k is None:
        return None
    out = []
    for x in k:
        if x[0] != "C":
            return None
        out.append(int(x[1]))
    return bytes(out)


def eff_addr(old, written):
    """register content after writing `written` (a shorter write keeps the tail)"""
    return bytes(written)[:5] + bytes(old)[len(bytes(written)[:5]):]


def ce_trace(out):
    return [(e.seq, const_of(norm(e.data))) for e in out.trace if e.kind == "ce"]


def listen_rx(radio, agg, p0f, lite=False):
    f = radio.prog.method(radio.cls, "listen", "set")
    n = 0
    for user in (None, A, B, A3, bytearray(A)):
        for reg0 in (A, B):
            for open0 in (0, 1):
                for val in (True, 1):
                    n += 1
                    label = "listen=%r with user pipe-0 address %r, RX_ADDR_P0=%r, EN_RXADDR.0=%d" % (val, user, reg0, open0)
                    st = radio.fresh({contract.EN_RXADDR: 0x3E | open0})
                    pin_addr(radio, st, 0x0A, reg0)
                    st.heap[radio.ref.ident].fields[p0f] = lift(st, user)
                    outs = radio.run(f, [val], st)
                    for out in outs:
                        if out.kind != "return":
                            agg.add("R08.2", f, "entering RX mode does not raise", False, "%s raises %s" % (label, out.value.exc))
                            continue
                        got = reg_bytes(radio, out.state, 0x0A)
                        en = const_of(norm(out.state.extra["regs"].get(2)))
                        if user is not None:
                            want = eff_addr(reg0, user)
                            agg.add("R08.2", f, "RX entry restores the user's pipe-0 address", got == want, "%s: RX_ADDR_P0 ends as %r, documented %r" % (label, got, want))
                            agg.add("R08.2", f, "RX entry leaves EN_RXADDR as the user set it", en == (0x3E | open0), "%s: EN_RXADDR ends as %r" % (label, en))
                        else:
                            agg.add("R08.2", f, "RX entry closes pipe 0 when the user never opened it", en == 0x3E, "%s: EN_RXADDR ends as %r, documented 0x3E (pipe 0 closed)" % (label, en))
                        if not lite:
                            for r in (0x0A, 0x02, 0x00):
                                ok, det = radio.shadow_matches(out.state, r)
                                agg.add("R08.6", f, "shadow of %s follows the register" % regname(r), ok, "%s: %s" % (label, det))
                            sh = radio.shadow_value(out.state, 0x0A)
                            uv = out.state.heap[radio.ref.ident].fields.get(p0f)
                            alias = isinstance(sh, Ref) and isinstance(uv, Ref) and sh.ident == uv.ident
                            agg.add("R08.6", f, "the shadow of RX_ADDR_P0 stays a buffer of its own (never the remembered address object itself)", isinstance(sh, Ref) and not alias,
                                    "%s: the shadow becomes %r, the remembered address is %r - the next open_tx_pipe() would overwrite the remembered address in place" % (label, sh, uv))
                        cfg = bits8(out.state.extra["regs"].get(0))
                        exp = contract.put(radio.old(0), 0x03, 0x03)
                        agg.add("R08.3", f, "CONFIG: PWR_UP=1, PRIM_RX=1 on RX entry", cfg is not None and all(term_eq(x, y) for x, y in zip(cfg, exp)), "%s: CONFIG %s" % (label, fmt_bits(cfg) if cfg else None))
                        ces = ce_trace(out)
                        cw = [x for x in regwrites(out) if x[1] == 0]
                        okce = bool(ces) and ces[0][1] in (0, False) and bool(cw) and ces[0][0] < cw[0][0].seq and ces[-1][1] in (1, True) and \
                            all(s > cw[0][0].seq for s, v in ces if v in (1, True))
                        agg.add("R08.3", f, "CE low before the role change, high only after it, high when done", okce, "%s: CE writes %r, CONFIG write at %s" % (label, ces, cw[0][0].seq if cw else None))
    return n


def listen_tx(radio, agg, p0f, lite=False):
    f = radio.prog.method(radio.cls, "listen", "set")
    n = 0
    for aa in (0x3F, 0x3E):
        for open0 in (0, 1):
            for feat, dyn in ((0x05, 0x3F), (0x07, 0x3F), (0x07, 0x3E), (0x03, 0x00)):
                for val in (False, 0):
                    n += 1
                    label = "listen=%r with EN_AA=0x%02X EN_RXADDR.0=%d FEATURE=0x%02X DYNPD=0x%02X" % (val, aa, open0, feat, dyn)
                    st = radio.fresh({contract.EN_AA: aa, contract.EN_RXADDR: 0x3E | open0, contract.FEATURE: feat, contract.DYNPD: dyn})
                    outs = radio.run(f, [val], st)
                    for out in outs:
                        if out.kind != "return":
                            agg.add("R08.5", f, "entering TX mode does not raise", False, "%s raises %s" % (label, out.value.exc))
                            continue
                        en = const_of(norm(out.state.extra["regs"].get(2)))
                        if lite or aa & 1:
                            agg.add("R08.5", f, "TX entry opens pipe 0 for ACK reception when pipe 0 auto-acknowledges", en == 0x3F, "%s: EN_RXADDR ends as %r" % (label, en))
                        else:
                            agg.add("R08.5", f, "TX entry leaves EN_RXADDR alone without auto-ack on pipe 0", en == (0x3E | open0), "%s: EN_RXADDR ends as %r" % (label, en))
                        cfg = bits8(out.state.extra["regs"].get(0))
                        exp = contract.put(radio.old(0), 0x03, 0x02)
                        agg.add("R08.3", f, "CONFIG: PWR_UP=1, PRIM_RX=0 on TX entry", cfg is not None and all(term_eq(x, y) for x, y in zip(cfg, exp)), "%s: CONFIG %s" % (label, fmt_bits(cfg) if cfg else None))
                        ces = ce_trace(out)
                        agg.add("R08.3", f, "CE stays low in TX standby", bool(ces) and all(v in (0, False) for _s, v in ces), "%s: CE writes %r" % (label, ces))
                        ftx = [c for c, _e in cmds(out) if c == regmap.FLUSH_TX]
                        ackpl = (feat & 6 == 6) and (lite or (aa & dyn & 1))
                        agg.add("R08.5", f, "stale ACK payloads are flushed on TX entry iff ACK payloads are enabled", bool(ftx) == bool(ackpl), "%s: FLUSH_TX issued %d time(s)" % (label, len(ftx)))
                        if not lite:
                            for r in (0x02, 0x00):
                                ok, det = radio.shadow_matches(out.state, r)
                                agg.add("R08.6", f, "shadow of %s follows the register" % regname(r), ok, "%s: %s" % (label, det))
    return n


def open_tx(radio, agg, p0f, lite=False):
    f = radio.prog.method(radio.cls, "open_tx_pipe")
    n = 0
    for aa in (0x3F, 0x3E):
      for txprev in (b"\xe7" * 5, None):       # None: TX_ADDR already holds the address being opened (re-opening the same TX address)
        for user in (None, A, B):
            for reg0 in (A, B):
                for addr in (A, B, A3, bytearray(B)):
                    n += 1
                    tx0 = txprev if txprev is not None else eff_addr(b"\xe7" * 5, addr)
                    label = "open_tx_pipe(%r) with EN_AA=0x%02X, user pipe-0 address %r, RX_ADDR_P0=%r, TX_ADDR=%r" % (addr, aa, user, reg0, tx0)
                    st = radio.fresh({contract.EN_AA: aa})
                    pin_addr(radio, st, 0x0A, reg0)
                    pin_addr(radio, st, 0x10, tx0)
                    st.heap[radio.ref.ident].fields[p0f] = lift(st, user)
                    outs = radio.run(f, [addr], st)
                    for out in outs:
                        if out.kind != "return":
                            agg.add("R08.4", f, "open_tx_pipe does not raise", False, "%s raises %s" % (label, out.value.exc))
                            continue
                        tx = reg_bytes(radio, out.state, 0x10)
                        agg.add("R08.4", f, "TX_ADDR holds the given address", tx == eff_addr(tx0, addr), "%s: TX_ADDR ends as %r" % (label, tx))
                        rx0 = reg_bytes(radio, out.state, 0x0A)
                        if lite or aa & 1:
                            agg.add("R08.4", f, "pipe 0 is appropriated: RX_ADDR_P0 holds the TX address when pipe 0 auto-acknowledges", rx0 == eff_addr(reg0, addr),
                                    "%s: RX_ADDR_P0 ends as %r, so ACKs for the new TX address are not received (documented %r)" % (label, rx0, eff_addr(reg0, addr)))
                        else:
                            agg.add("R08.4", f, "RX_ADDR_P0 untouched without auto-ack on pipe 0", rx0 == reg0, "%s: RX_ADDR_P0 ends as %r" % (label, rx0))
                        cur = out.state.heap[radio.ref.ident].fields.get(p0f)
                        same = (user is None and isinstance(norm(cur), Const) and norm(cur).v is None) or (user is not None and radio.it0.concrete_bytes(cur, out.state) == bytes(user))
                        agg.add("R08.1", f, "the user's pipe-0 reading address is not overwritten by open_tx_pipe", same, "%s: stored reading address becomes %r" % (label, cur))
                        if not lite:
                            for r in (0x0A, 0x10):
                                ok, det = radio.shadow_matches(out.state, r)
                                agg.add("R08.6", f, "shadow of %s follows the register" % regname(r), ok, "%s: %s" % (label, det))
    return n


def user_addr_writers(radio, agg, p0f, lite=False):
    """R08.1: who stores the user's pipe-0 reading address, and what"""
    n = 0
    allowed = {"__init__", "open_rx_pipe", "close_rx_pipe"}
    for c in radio.cls.mro:
        fis = list(c.methods.values()) + [f for p in c.props.values() for f in (p.getter, p.setter) if f is not None and f.cls is c]
        for fi in fis:
            for node in iter_own_nodes(fi.node):
                tgts = []
                if isinstance(node, ast.Assign):
                    tgts = node.targets
                elif isinstance(node, (ast.AugAssign, ast.AnnAssign)):
                    tgts = [node.target]
                for t in tgts:
                    for tt in (t.elts if isinstance(t, ast.Tuple) else [t]):
                        if isinstance(tt, ast.Attribute) and tt.attr == p0f:
                            n += 1
                            from .common import allowed_via_callers
                            okw, why = allowed_via_callers(radio.prog, fi, allowed)
                            agg.add("R08.1", fi, "only open_rx_pipe/close_rx_pipe (and the constructor) store the user's pipe-0 address",
                                    okw, "%s assigns self.%s%s" % (fi.qualname, p0f, why), node)
    f_open = radio.prog.method(radio.cls, "open_rx_pipe")
    f_close = radio.prog.method(radio.cls, "close_rx_pipe")
    # the remembered address is the driver's own copy: neither the caller's (mutable) buffer nor the register shadow may be stored, or a later
    # change of either silently changes the address pipe 0 is restored to
    for plen in (5, 3):
        st = radio.fresh()
        buf = st.alloc("bytearray", items=[Const(0x31 + i) for i in range(plen)], label="caller-address")
        for out in radio.run(f_open, [0, buf], st):
            if out.kind != "return":
                continue
            n += 1
            cur = out.state.heap[radio.ref.ident].fields.get(p0f)
            sh = radio.shadow_value(out.state, 0x0A) if not lite else None
            agg.add("R08.1", f_open, "open_rx_pipe(0, addr) remembers a private copy of the address, not the caller's buffer", not (isinstance(cur, Ref) and cur.ident == buf.ident),
                    "open_rx_pipe(0, <bytearray of %d>) stores the caller's own bytearray: changing it later changes the address restored on RX entry" % plen)
            agg.add("R08.1", f_open, "the remembered address is not the register shadow itself", not (isinstance(cur, Ref) and isinstance(sh, Ref) and cur.ident == sh.ident),
                    "open_rx_pipe(0, ..) stores the pipe-0 shadow buffer as the remembered address: open_tx_pipe() overwrites the shadow in place, and with it the address to restore")
    for p in range(6):
        for user in (None, B):
            st = radio.fresh()
            st.heap[radio.ref.ident].fields[p0f] = lift(st, user)
            for out in radio.run(f_open, [p, A], st):
                n += 1
                cur = out.state.heap[radio.ref.ident].fields.get(p0f)
                got = radio.it0.concrete_bytes(cur, out.state) if not (isinstance(norm(cur), Const) and norm(cur).v is None) else None
                want = A if p == 0 else user
                agg.add("R08.1", f_open, "open_rx_pipe records the address for pipe 0 only", out.kind == "return" and got == want, "open_rx_pipe(%d, %r) with previous %r: stored %r" % (p, A, user, cur))
                if not lite and out.kind == "return":
                    # the listen setter and open_tx_pipe decide from the shadows whether pipe 0 must be opened / restored: they must be current
                    for r in (0x02,) + ((0x0A + p,) if p < 2 else ()):
                        ok, det = radio.shadow_matches(out.state, r)
                        agg.add("R08.6", f_open, "shadow of %s follows the register" % regname(r), ok, "open_rx_pipe(%d, %r): %s" % (p, A, det))
            st = radio.fresh()
            st.heap[radio.ref.ident].fields[p0f] = lift(st, user)
            for out in radio.run(f_close, [p], st):
                n += 1
                cur = out.state.heap[radio.ref.ident].fields.get(p0f)
                got = radio.it0.concrete_bytes(cur, out.state) if not (isinstance(norm(cur), Const) and norm(cur).v is None) else None
                want = None if p == 0 else user
                agg.add("R08.1", f_close, "close_rx_pipe forgets the address for pipe 0 only", out.kind == "return" and got == want, "close_rx_pipe(%d) with previous %r: stored %r" % (p, user, cur))
                if not lite and out.kind == "return":
                    ok, det = radio.shadow_matches(out.state, 0x02)
                    agg.add("R08.6", f_close, "shadow of EN_RXADDR follows the register (TX entry re-opens pipe 0 only if the shadow says it is closed)", ok, "close_rx_pipe(%d): %s" % (p, det))
    init_v = radio.st_init.heap[radio.ref.ident].fields.get(p0f)
    agg.add("R08.1", radio.cls.lookup("__init__")[1], "a new object has no user pipe-0 address", isinstance(norm(init_v), Const) and norm(init_v).v is None, "constructor leaves %r" % (init_v,))
    return n


# frozen classification of every function that drives the CE pin (role change, TX pulse, enter/exit, carrier test)
CE_ALLOWED = {
    "__init__": "switch_to_output(False): radio idle until configured",
    "__enter__": "CE low while registers are restored",
    "__exit__": "CE low on power down",
    "ce_pin": "documented raw access for advanced users",
    "listen": "role change: low, then high in RX",
    "send": "CE low before loading (TX standby)",
    "resend": "TX pulse",
    "write": "TX pulse after loading",
    "start_carrier_wave": "carrier test",
    "stop_carrier_wave": "carrier test",
}


def ce_writers(radio, agg):
    n = 0
    cef = radio.model.ce_field
    for c in radio.cls.mro:
        fis = list(c.methods.values()) + [f for p in c.props.values() for f in (p.getter, p.setter) if f is not None and f.cls is c]
        for fi in fis:
            hit = False
            for node in iter_own_nodes(fi.node):
                if isinstance(node, ast.Assign):
                    for t in node.targets:
                        if isinstance(t, ast.Attribute) and t.attr == "value" and isinstance(t.value, ast.Attribute) and t.value.attr == cef:
                            hit = True
                        if isinstance(t, ast.Attribute) and t.attr == "ce_pin" and isinstance(t.value, ast.Name) and t.value.id == "self":
                            hit = True
                if isinstance(node, ast.Call) and isinstance(node.func, ast.Attribute) and node.func.attr == "switch_to_output" and isinstance(node.func.value, ast.Attribute) and node.func.value.attr == cef:
                    hit = True
            if hit:
                n += 1
                ok, why = ce_driver_allowed(radio, fi, set())
                agg.add("R08.3", fi, "CE is driven only by the role-change / TX-pulse / context / carrier functions", ok,
                        "%s drives CE%s: a CE change in a function callable in RX mode interrupts reception" % (fi.qualname, why))
    return n


def _all_funcs(P):
    for c in P.all_classes():
        for f in c.methods.values():
            yield f, c
        for p in c.props.values():
            for f in (p.getter, p.setter):
                if f is not None and f.cls is c:
                    yield f, c


def ce_driver_allowed(radio, fi, seen):
    """a CE write is legitimate in the listed public functions and in private helpers that only those functions call
    (a role-change body split into helpers drives CE at the same protocol points)"""
    if fi.name in CE_ALLOWED:
        return True, ""
    if not fi.name.startswith("_") or fi.name.startswith("__") or fi.qualname in seen:
        return False, ""
    seen = seen | {fi.qualname}
    P = radio.prog
    callers = []
    for g, c in _all_funcs(P):
        if g is fi:
            continue
        for _n, t in call_edges(P, g, c):
            if t.kind == "func" and t.func is fi:
                callers.append(g)
                break
    if not callers:
        return False, " and is never called inside the package"
    for g in callers:
        ok, _w = ce_driver_allowed(radio, g, seen)
        if not ok:
            return False, " and is called by %s" % g.qualname
    return True, ""


def sequences(radio, agg, p0f, lite=False):
    """two TX excursions in a row (a bounded piece of the history quantifier that exposes stored references):
    open_rx_pipe(0, A) ; [listen=False ; open_tx_pipe(X) ; listen=True] x 2  ->  pipe 0 listens on A, the remembered address is A"""
    P, c = radio.prog, radio.cls
    f_listen, f_tx, f_open = P.method(c, "listen", "set"), P.method(c, "open_tx_pipe"), P.method(c, "open_rx_pipe")
    n = 0
    for user in (A, bytearray(A)):
        for aa in (0x3F, 0x3E):
            n += 1
            label = "open_rx_pipe(0,%r); (listen=False; open_tx_pipe(X); listen=True) twice, EN_AA=0x%02X" % (user, aa)
            st = radio.fresh({contract.EN_AA: aa, contract.EN_RXADDR: 0x3E})
            pin_addr(radio, st, 0x0A, b"\xe7" * 5)
            steps = [(f_open, [0, user]), (f_listen, [False]), (f_tx, [B]), (f_listen, [True]), (f_listen, [False]), (f_tx, [b"3Node"]), (f_listen, [True])]
            states = [st]
            uref = None
            for k, (fn, args) in enumerate(steps):
                nxt = []
                for s in states:
                    s.trace = []
                    vals = list(args)
                    if k == 0:
                        vals[1] = lift(s, user)
                    for out in radio.run(fn, vals, s):
                        if out.kind == "return":
                            nxt.append(out.state)
                states = nxt[:8]
            for s in states:
                got = reg_bytes(radio, s, 0x0A)
                agg.add("R08.2", f_listen, "after repeated TX excursions pipe 0 still listens on the user's address", got == bytes(user), "%s: RX_ADDR_P0 ends as %r" % (label, got))
                uv = s.heap[radio.ref.ident].fields.get(p0f)
                ub = radio.it0.concrete_bytes(uv, s)
                agg.add("R08.1", f_listen, "after repeated TX excursions the remembered address is still the user's", ub == bytes(user), "%s: remembered address is %r" % (label, ub))
            agg.add("R08.2", f_listen, "the sequence has complete paths", bool(states), label)
    return n


def events_kept(radio, agg):
    """R03.8 for the mode / pipe functions (the setters of C03's table are judged there): switching between RX and TX and opening pipes
    never clears the MAX_RT event - send() decides from it whether a failed payload still sits in the TX FIFO and must be flushed, and the
    network layer sets `listen = True` after every transmission"""
    from .radio import regwrites as _rw
    f_l = radio.prog.method(radio.cls, "listen", "set")
    cases = [(f_l, [True], "listen = True"), (f_l, [False], "listen = False"),
             (radio.prog.method(radio.cls, "open_tx_pipe"), [Bytes([(("const", b"2Node"), Const(5))], "bytes")], "open_tx_pipe(b'2Node')"),
             (radio.prog.method(radio.cls, "open_rx_pipe"), [1, Bytes([(("const", b"3Node"), Const(5))], "bytes")], "open_rx_pipe(1, b'3Node')")]
    # ... nor does entering / leaving a `with` block: the payload another user of the shared radio failed to deliver is still in the TX
    # FIFO, and this object's next send() / advertise() discards it only on seeing MAX_RT
    for cm, cargs in (("__enter__", []), ("__exit__", [Const(None)] * 3)):
        hit = radio.cls.lookup(cm)
        if hit is not None and hit[0] == "method":
            cases.append((hit[1], cargs, "%s()" % cm))
    n = 0
    for f, args, label in cases:
        n += 1
        for out in radio.run(f, args, radio.fresh()):
            clr = [x for x in _rw(out) if x[1] == 7 and (const_of(norm(x[2])) is None or const_of(norm(x[2])) & 0x10)]
            agg.add("R03.8", f, "switching mode / opening pipes never clears the MAX_RT event", not clr,
                    "%s writes %r to STATUS - the failed payload that send() would flush on seeing MAX_RT stays first in the TX FIFO and goes out in front of the next one" % (label, clr[0][2] if clr else None),
                    clr[0][0].node if clr else None)
    return n


def shadows_distinct(radio, agg):
    """R08.6 (constructor): the cached copies of TX_ADDR, RX_ADDR_P0 and RX_ADDR_P1 are three buffers - open_tx_pipe() / open_rx_pipe()
    update them in place and compare them with each other's registers' addresses; two names for one buffer make an update of one register's
    copy silently change the other's, and the next 'is the register already on this address?' test answers wrongly"""
    init = radio.cls.lookup("__init__")[1]
    n = 0
    for out in [o for o in radio.init_outs if o.kind == "return"][:2]:
        refs = {}
        for r in (0x0A, 0x0B, 0x10):
            v = radio.shadow_value(out.state, r)
            if isinstance(v, Ref):
                refs.setdefault(v.ident, []).append(r)
        n += 1
        shared = [sorted(rs) for rs in refs.values() if len(rs) > 1]
        agg.add("R08.6", init, "the cached copies of TX_ADDR, RX_ADDR_P0 and RX_ADDR_P1 are separate buffers", not shared,
                "after the constructor the cached copies of registers %s are one and the same object" % (", ".join("/".join(regname(r) for r in rs) for rs in shared)))
    return n


def run_for(ck, radio, agg, lite=False):
    p0f = radio.user_pipe0_field()
    events_kept(radio, agg)
    if not lite:
        shadows_distinct(radio, agg)
    sequences(radio, agg, p0f, lite)
    n1 = listen_rx(radio, agg, p0f, lite)
    n2 = listen_tx(radio, agg, p0f, lite)
    n3 = open_tx(radio, agg, p0f, lite)
    n4 = user_addr_writers(radio, agg, p0f, lite)
    n5 = ce_writers(radio, agg)
    return n1, n2, n3, n4, n5


def run(ck):
    ck.explanation = (
        "Static analysis, inductive per method: the listen setter, open_tx_pipe, open_rx_pipe and close_rx_pipe of rf24.RF24 are abstractly "
        "interpreted from states in which the user's pipe-0 reading address, the content of RX_ADDR_P0, EN_RXADDR.0, EN_AA.0 and the ACK-payload "
        "features are pinned to every combination of a small alphabet (all other register bits symbolic). R08.1: only open_rx_pipe/close_rx_pipe "
        "store the user's address, and only for pipe 0. R08.2: on RX entry RX_ADDR_P0 holds the user's address, or pipe 0 is closed if there is "
        "none - whatever RX_ADDR_P0 held before (e.g. the TX address). R08.3: CE low before the CONFIG write, high only in RX and only after it; "
        "CE writers are a frozen, classified set. R08.4: open_tx_pipe always programs TX_ADDR and, when pipe 0 auto-acknowledges, RX_ADDR_P0 with "
        "the same address for every previous content of RX_ADDR_P0 (so an elided write must compare with the register's shadow). R08.5: TX entry "
        "opens pipe 0 when it auto-acknowledges and flushes stale ACK payloads iff enabled. R08.6: shadows follow the registers.")
    ck.not_decided = ["the probe-packet observations (a peer is needed); the 130 us settling delay (timing)"]
    radio = Radio(ck)
    agg = Agg(ck)
    n = run_for(ck, radio, agg)
    # open_tx_pipe() and the listen setter decide from the driver's cached copies of EN_AA / EN_RXADDR / the pipe addresses: the rules above
    # hold for the radio only while every setter keeps those copies equal to the registers (C03's R03.3 obligations, re-run here)
    from . import c03
    from ..tables import contract as _ct
    c03.run_setters(radio, agg, _ct.SETTERS)
    # ... and while `with` re-programs RX_ADDR_P0 from that same cached copy (R09.1/R09.2, shared with C09): the write-elision guards of
    # open_tx_pipe() / listen compare against it
    from . import c09
    c09.check_enter(radio, agg, radio.cls, ck.prog.method(radio.cls, "__enter__"), radio.ref, c09.havoc_regs(radio, radio.fresh()), "RF24.__enter__", ck.prog.method(radio.cls, "__enter__"))
    agg.flush()
    ck.floor("R08.2", "RX-entry scenarios", n[0], 40)
    ck.floor("R08.5", "TX-entry scenarios", n[1], 32)
    ck.floor("R08.4", "open_tx_pipe scenarios", n[2], 48)
    ck.floor("R08.1", "writers / recorder scenarios", n[3], 26)
    ck.floor("R08.3", "functions driving CE", n[4], 8)
