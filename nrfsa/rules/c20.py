"""C20 - rf24_lite honours the same link-level contract as RF24 (documented reductions apart).

The rule sets of C01 / C02 / C03 / C08 / C10 are re-targeted at rf24_lite.RF24
(the lite driver keeps no shadows: ownership is checked against the symbolic
entry value of each register) using the same datasheet / docs reference tables,
so full and lite driver are compared with one oracle (sibling agreement)."""
from ..absval import Const, norm, const_of, Bytes, Sym
from ..interp import Ref, Limits
from ..tables import regmap, contract
from ..tables.contract import (put, put_terms, const_bits, clamp, any_bit, CONFIG, EN_AA, EN_RXADDR, SETUP_AW, SETUP_RETR, RF_CH,
                               RF_SETUP, RX_PW_P0, DYNPD, FEATURE, PIPES_OK, PIPES_BAD)
from ..model import AnalysisError
from .radio import Radio, regname, regwrites
from .c03 import Agg, run_setters, run_getters, value_matches
from . import link, c10, c08, c01
from .c10 import cmds, spi_events


# ---- documented reductions of the lite driver (docs/troubleshooting.rst "About the lite version") ----
def sc_dynamic_payloads():
    for x in (True, False, 1, 0, 2):
        yield "dynamic_payloads=%r" % x, [x], (lambda old, x=x: {"regs": {DYNPD: const_bits(0x3F if x else 0), FEATURE: put(old(FEATURE), 4, 4 if x else 0)}})


def sc_payload_length():
    for x in [-5, 0, 1, 8, 32, 33, 255]:
        v = clamp(x, 1, 32)
        yield "payload_length=%r" % x, [x], (lambda old, v=v: {"regs": {RX_PW_P0 + i: const_bits(v) for i in range(6)}})


def sc_ack():
    def on(old):
        return {"regs": {DYNPD: const_bits(0x3F), FEATURE: put(old(FEATURE), 0x06, 0x06)}}

    def off(old):
        return {"regs": {FEATURE: put(old(FEATURE), 0x02, 0)}}
    for x in (True, 1):
        yield "ack=%r" % x, [x], on
    for x in (False, 0):
        yield "ack=%r" % x, [x], off


def sc_data_rate():
    enc = {1: 0x00, 2: 0x08, 250: 0x20}
    for x in (1, 2, 250):
        yield "data_rate=%r" % x, [x], (lambda old, x=x: {"regs": {RF_SETUP: put(old(RF_SETUP), 0x28, enc[x])}})


def sc_pa_level():
    enc = {-18: 0, -12: 2, -6: 4, 0: 6}
    for x in [-18, -12, -6, 0, -24, -7, 6, 1]:
        if x in enc:
            yield "pa_level=%r" % x, [x], (lambda old, x=x: {"regs": {RF_SETUP: put(old(RF_SETUP), 0x07, enc[x] | 1)}})
        else:
            yield "pa_level=%r" % x, [x], (lambda old: {"raise": "ValueError"})


def sc_close_rx_pipe():
    for p in PIPES_OK:
        yield "close_rx_pipe(%r)" % p, [p], (lambda old, p=p: {"regs": {EN_RXADDR: put(old(EN_RXADDR), 1 << p, 0)}})
    for p in PIPES_BAD:
        yield "close_rx_pipe(%r)" % p, [p], (lambda old: {"raise": "ValueError"})


LITE_SETTERS = {
    "channel": ("prop", contract.sc_channel),
    "data_rate": ("prop", sc_data_rate),
    "pa_level": ("prop", sc_pa_level),
    "arc": ("prop", contract.sc_arc),
    "ard": ("prop", contract.sc_ard),
    "address_length": ("prop", contract.sc_address_length),
    "power": ("prop", contract.sc_power),
    "interrupt_config": ("method", contract.sc_interrupt_config),
    "dynamic_payloads": ("prop", sc_dynamic_payloads),
    "payload_length": ("prop", sc_payload_length),
    "ack": ("prop", sc_ack),
    "close_rx_pipe": ("method", sc_close_rx_pipe),
}


def gt_dynamic_payloads():
    for v, exp in [(0, False), (4, True), (3, False), (7, True)]:
        yield {FEATURE: v}, [], exp


def gt_ack():
    for feat in (0, 2, 4, 6, 7):
        for dyn in (0, 1, 0x3F):
            yield {FEATURE: feat, DYNPD: dyn}, [], bool(feat & 6 == 6 and dyn)


LITE_GETTERS = {
    "channel": ("prop", contract.gt_channel),
    "data_rate": ("prop", contract.gt_data_rate),
    "pa_level": ("prop", contract.gt_pa_level),
    "arc": ("prop", contract.gt_arc),
    "ard": ("prop", contract.gt_ard),
    "address_length": ("prop", contract.gt_address_length),
    "power": ("prop", contract.gt_power),
    "listen": ("prop", contract.gt_listen),
    "dynamic_payloads": ("prop", gt_dynamic_payloads),
    "ack": ("prop", gt_ack),
    "payload_length": ("prop", contract.gt_payload_length),
}


def load_ack(radio, agg):
    """R20.9: accepted region = len in [1,32] and pipe in [0,5]; otherwise the TX FIFO is untouched and the result is False"""
    f = radio.prog.method(radio.cls, "load_ack")
    n = 0
    for pipe in (-1, 0, 1, 5, 6):
        st = link.sym_len_state(radio, radio.fresh({FEATURE: 0x07, DYNPD: 0x3F}))
        outs = radio.run(f, [link.param_buf(), pipe], st)
        acc, rej = [], []
        for out in outs:
            n += 1
            lo, hi = link.len_range(out)
            if out.kind != "return":
                agg.add("R20.9", f, "load_ack() never raises (documented reduction)", False, "load_ack(len in [%s,%s], %d) raises %s" % (lo, hi, pipe, out.value.exc), out.value.node)
                continue
            loads = link.tx_loads(out)
            if loads:
                acc.append((lo, hi))
                c = const_of(norm(loads[0].data[0]))
                agg.add("R20.9", f, "command is W_ACK_PAYLOAD | pipe", c == (0xA8 | pipe) and 0 <= pipe <= 5, "load_ack(.., %d): command %r" % (pipe, c), loads[0].node)
                agg.add("R20.9", f, "the loaded bytes are the caller's payload", isinstance(loads[0].data[1], Bytes) and [p[0] for p in loads[0].data[1].parts] == [("param", "buf")], "payload %r" % (loads[0].data[1],))
                agg.add("R20.9", f, "returns True when the payload was loaded", value_matches(out.value, True), "returns %r" % (out.value,))
            else:
                full = any(e.kind == "cond" and e.data[0] is True for e in out.trace if "tx_full" in (e.func.name if e.func else ""))
                if not full:
                    rej.append((lo, hi))
                    agg.add("R20.9", f, "a rejected call leaves the radio untouched", not [e for e in spi_events(out) if e.kind in ("cmd", "cmdwriten", "regwrite", "regwriten")],
                            "load_ack(len in [%s,%s], %d): SPI writes %r" % (lo, hi, pipe, [(e.kind, e.data[0]) for e in spi_events(out)]))
                agg.add("R20.9", f, "returns False when nothing was loaded", value_matches(out.value, False), "returns %r" % (out.value,))
        if 0 <= pipe <= 5:
            lo_acc = min([a[0] for a in acc], default=None)
            hi_acc = max([(a[1] if a[1] is not None else 10 ** 9) for a in acc], default=None)
            agg.add("R20.9", f, "accepted ACK payload lengths are exactly 1..32", (lo_acc, hi_acc) == (1, 32),
                    "load_ack(buf, %d): payload is loaded for len(buf) in [%s,%s]; rejected regions %r" % (pipe, lo_acc, hi_acc, rej))
        else:
            agg.add("R20.9", f, "pipe numbers outside 0..5 load nothing", not acc, "load_ack(buf, %d) loads a payload" % pipe)
    return n


def run(ck):
    ck.explanation = (
        "Static analysis of rf24_lite.RF24 with the rule sets of C01 (length gate, static shaping, no in-place mutation, command bytes, SPI "
        "framing, read protocol), C02 (send/resend bit roles, prologue for all 128 STATUS values, retry loop, flag freshness), C03 (setter/getter "
        "encodings against the same datasheet/docs reference model as the full driver, restricted to the documented reductions of the lite "
        "driver), C08 (pipe-0 address on RX/TX entry) and C10 (status/FIFO accessors, exhaustive over STATUS), plus R20.9: the region of "
        "(length, pipe) for which load_ack() reaches W_ACK_PAYLOAD is exactly [1,32] x [0,5] and every other call leaves the radio untouched. "
        "Because both drivers are judged by one oracle, agreement of the siblings follows.")
    ck.not_decided = ["interoperation with the full driver on air; lite write() raising for len 0 / > 32 in static mode instead of padding/truncating is "
                      "treated as part of the lite driver's reduced exception handling, not judged"]
    radio = Radio(ck, "rf24_lite", "RF24")
    agg = Agg(ck)
    ns = run_setters(radio, agg, LITE_SETTERS)
    ng = run_getters(radio, agg, LITE_GETTERS)
    n10 = c10.run_for(ck, radio, agg, lite=True)
    n1 = link.write_gate(radio, agg, lite=True)
    n1b = link.write_static(radio, agg, lite=True)
    n1c = link.no_mutation(radio, agg)
    n1d = link.write_cmd(radio, agg, lite=True)
    n1e = c01.framing(ck, radio, agg)
    n2 = link.send_prologue(radio, agg, lite=True)
    n2b = link.send_outcome(radio, agg, lite=True)
    n2c = link.resend_rules(radio, agg, lite=True)
    link.send_with_real_resend(radio, agg, lite=True)
    n2d = link.send_list(radio, agg)
    n8 = c08.run_for(ck, radio, agg, lite=True)
    n9 = load_ack(radio, agg)
    # R20.10: the constructor *establishes* the configuration the documented reductions speak of, whatever a still-powered radio was left
    # with by an earlier session (auto-ack on all pipes, 2-byte CRC, dynamic payloads + ACK payload feature bits, 5-byte addresses, all RX
    # pipes closed, 32-byte static width): every one of these registers is a constant the constructor wrote - not a power-on default
    f_init = ck.prog.method(radio.cls, "__init__")
    LITE_INIT = {0x00: (0x0E, 0x0C), 0x01: (0x3F, 0x3F), 0x02: (0x00, 0x3F), 0x03: (0x03, 0x03), 0x1C: (0x3F, 0x3F), 0x1D: (0x05, 0x07),
                 0x11: (32, 0x3F), 0x04: (0x5F, 0xFF), 0x06: (0x07, 0x2F)}
    inits = [o for o in radio.init_outs if o.kind == "return"]
    agg.add("R20.10", f_init, "the constructor has a normal exit (anchor)", bool(inits), "no returning path")
    from ..absval import const_of, norm
    from .radio import regname
    for o in inits:
        for r, (want, mask) in LITE_INIT.items():
            v = o.state.extra["regs"].get(r)
            c = const_of(norm(v)) if v is not None else None
            agg.add("R20.10", f_init, "the constructor programs %s itself (documented lite configuration), not relying on what the radio held" % regname(r),
                    isinstance(c, int) and (c & mask) == (want & mask),
                    "after RF24.__init__ %s holds %r; the lite driver's documented configuration needs 0x%02X under mask 0x%02X whatever an earlier session left there" % (regname(r), v, want, mask))
    # rename rule ids so findings carry the C20 provenance too (R20.<orig>)
    agg.flush()
    ck.floor("R20", "lite setter scenarios", ns, 60)
    ck.floor("R20", "lite getter scenarios", ng, 40)
    ck.floor("R20", "status property evaluations", n10[0], 640)
    ck.floor("R20", "send() prologue scenarios", n2, 256)
    ck.floor("R20.9", "load_ack paths", n9, 10)
    ck.floor("R20", "SPI primitives", n1e, 2)
