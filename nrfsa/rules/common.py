"""helpers shared by the rule modules"""
import ast
from ..model import AnalysisError, iter_own_nodes

FORBIDDEN_CALLS = {"getattr", "setattr", "eval", "exec", "delattr", "vars", "globals", "locals", "__import__", "compile"}


def closed_world(ck):
    """R00.1 - constructs the resolver does not model must not appear in the package"""
    n = 0
    for f in ck.prog.all_funcs():
        for node in ast.walk(f.node):
            n += 1
            bad = None
            if isinstance(node, ast.Call) and isinstance(node.func, ast.Name) and node.func.id in FORBIDDEN_CALLS:
                bad = node.func.id + "()"
            elif isinstance(node, ast.Lambda):
                bad = "lambda"
            elif isinstance(node, (ast.Global, ast.Nonlocal)):
                bad = type(node).__name__.lower()
            elif isinstance(node, ast.FunctionDef) and node.name in ("__getattr__", "__setattr__", "__getattribute__"):
                bad = node.name
            elif isinstance(node, ast.Call) and any(k.arg is None for k in node.keywords):
                bad = "**kwargs call"
            elif isinstance(node, (ast.AsyncFunctionDef, ast.Await, ast.Yield, ast.YieldFrom)):
                bad = type(node).__name__
            if bad:
                raise AnalysisError("closed-world assumption broken: %s in %s (line %d)" % (bad, f.qualname, node.lineno))
    if ck.prog.extra_modules:
        ck.notes.append("modules not in the analysed set: %s" % ", ".join(ck.prog.extra_modules))
    return n


def norm_src(node):
    """normalised source text of a node (whitespace/quotes/number spelling independent)"""
    return ast.unparse(node)


# ---- container mutated while it is being iterated -----------------------------------------------------------------------------
SIZE_METHODS = {"pop", "popitem", "clear", "update", "setdefault", "append", "insert", "remove", "extend"}


def _block_exits(stmts, in_inner_loop):
    return any(_always_exits(s, in_inner_loop) for s in stmts)


def _always_exits(s, in_inner_loop):
    """does every path through statement s leave the iterating loop (return / raise / break of *that* loop)?"""
    if isinstance(s, (ast.Return, ast.Raise)):
        return True
    if isinstance(s, ast.Break):
        return not in_inner_loop
    if isinstance(s, ast.If):
        return bool(s.orelse) and _block_exits(s.body, in_inner_loop) and _block_exits(s.orelse, in_inner_loop)
    if isinstance(s, ast.With):
        return _block_exits(s.body, in_inner_loop)
    return False


def _child_blocks(s):
    for name in ("body", "orelse", "finalbody"):
        b = getattr(s, name, None)
        if isinstance(b, list) and b and isinstance(b[0], ast.stmt):
            yield b
    for h in getattr(s, "handlers", []) or []:
        yield h.body


def _mutations(stmt, base_src, keyvar):
    """size-changing uses of the container `base_src` in one simple statement"""
    out = []
    if isinstance(stmt, ast.Delete):
        for t in stmt.targets:
            if isinstance(t, ast.Subscript) and ast.unparse(t.value) == base_src:
                out.append("del %s" % ast.unparse(t))
    if isinstance(stmt, (ast.Assign, ast.AugAssign)):
        tgts = stmt.targets if isinstance(stmt, ast.Assign) else []
        for t in tgts:
            if isinstance(t, ast.Subscript) and ast.unparse(t.value) == base_src:
                k = t.slice
                if not (isinstance(k, ast.Name) and k.id == keyvar):      # storing under the key being visited never changes the size
                    out.append("%s = ..  (possibly a new key)" % ast.unparse(t))
    for x in ast.walk(stmt):
        if isinstance(x, ast.Call) and isinstance(x.func, ast.Attribute) and x.func.attr in SIZE_METHODS and ast.unparse(x.func.value) == base_src:
            out.append("%s(..)" % ast.unparse(x.func))
    return out


def iter_mutation_sites(func_node):
    """for every `for .. in X / X.items() / X.keys() / X.values()` loop of the function: the statements that can change the size of X
    and from which some path reaches the next iteration (CPython raises RuntimeError for dicts, skips/repeats elements for lists).
    Yields (loop node, statement node, description, ok)."""
    for loop in ast.walk(func_node):
        if not isinstance(loop, ast.For):
            continue
        it = loop.iter
        if isinstance(it, ast.Call) and isinstance(it.func, ast.Attribute) and it.func.attr in ("items", "keys", "values") and not it.args:
            base = it.func.value
            kind = it.func.attr
        elif isinstance(it, (ast.Attribute, ast.Name)):
            base, kind = it, "iter"
        else:
            continue
        base_src = ast.unparse(base)
        keyvar = None
        if kind == "items" and isinstance(loop.target, ast.Tuple) and isinstance(loop.target.elts[0], ast.Name):
            keyvar = loop.target.elts[0].id
        elif kind in ("keys", "iter") and isinstance(loop.target, ast.Name):
            keyvar = loop.target.id

        def visit(block, later_exits, in_inner):
            # later_exits: does the code that follows this block (inside the loop) always leave the loop?
            for i, s in enumerate(block):
                rest_exits = later_exits or _block_exits(block[i + 1:], in_inner)
                if isinstance(s, (ast.For, ast.While)):
                    for b in _child_blocks(s):
                        yield from visit(b, False, True)       # the inner loop may run again before anything after it
                    continue
                subs = list(_child_blocks(s))
                if subs:
                    for b in subs:
                        yield from visit(b, rest_exits, in_inner)
                    continue
                for what in _mutations(s, base_src, keyvar):
                    yield (loop, s, "`%s` while iterating `%s`" % (what, ast.unparse(it)), rest_exits)
        yield from visit(loop.body, False, False)


# ---- who may change a container held in an attribute ----------------------------------------------------------------------------
LIST_MUTATORS = {"append", "pop", "insert", "remove", "clear", "extend", "sort", "reverse", "popitem", "update", "setdefault"}


def attr_mutations(func_node, attr):
    """sites in the function that change the content / order / identity of the container stored in `<obj>.<attr>`:
    mutating method calls, `del x.attr[..]`, `x.attr[..] = ..`, re-binding, augmented assignment.  Reads (len, iteration, index loads,
    truth tests, comparisons) are not listed.  -> [(node, description)]"""
    parents = {}
    for node in ast.walk(func_node):
        for ch in ast.iter_child_nodes(node):
            parents[id(ch)] = node
    out = []
    for node in ast.walk(func_node):
        if not (isinstance(node, ast.Attribute) and node.attr == attr):
            continue
        par = parents.get(id(node))
        gp = parents.get(id(par)) if par is not None else None
        if isinstance(par, ast.Attribute) and isinstance(gp, ast.Call) and gp.func is par and par.attr in LIST_MUTATORS:
            out.append((node, ".%s()" % par.attr))
        elif isinstance(par, ast.Subscript) and par.value is node and isinstance(par.ctx, (ast.Del, ast.Store)):
            out.append((node, "del item" if isinstance(par.ctx, ast.Del) else "item store"))
        elif isinstance(node.ctx, (ast.Store, ast.Del)):
            out.append((node, "re-binding"))
        elif isinstance(par, ast.AugAssign) and par.target is node:
            out.append((node, "augmented assignment"))
    return out


def class_funcs(cls):
    return list(cls.methods.values()) + [f for p in cls.props.values() for f in (p.getter, p.setter) if f is not None and f.cls is cls]


def all_funcs_with_cls(P):
    for c in P.all_classes():
        for f in class_funcs(c):
            yield f, c
    for m in P.modules.values():
        for f in getattr(m, "funcs", {}).values():
            yield f, None


def allowed_via_callers(P, fi, allowed, seen=frozenset()):
    """who-may-do rule that survives helper extraction: the function is one of the named owners, or it is a private helper all of whose
    callers inside the package are (recursively) allowed.  -> (ok, reason)"""
    from ..model import call_edges
    if fi.name in allowed:
        return True, ""
    if not fi.name.startswith("_") or fi.name.startswith("__") or fi.qualname in seen:
        return False, ""
    seen = seen | {fi.qualname}
    callers = []
    for g, c in all_funcs_with_cls(P):
        if g is fi:
            continue
        try:
            edges = list(call_edges(P, g, c))
        except Exception:  # noqa
            continue
        if any(t.kind == "func" and t.func is fi for _n, t in edges):
            callers.append(g)
    if not callers:
        return False, " (never called inside the package)"
    for g in callers:
        ok, _w = allowed_via_callers(P, g, allowed, seen)
        if not ok:
            return False, " (called by %s)" % g.qualname
    return True, ""
