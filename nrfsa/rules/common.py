"""helpers shared by the rule modules"""
import ast
from ..model import AnalysisError, iter_own_nodes

FORBIDDEN_CALLS = {"getattr", "setattr", "eval", "exec", "delattr", "vars", "globals", "locals", "__import__", "compile"}


def closed_world(ck):
    """R00.1 - constructs the resolver does not model must not appear in the package"""
    n = 0
    for f in ck.prog.all_funcs():
        for node in ast.walk(f.node):
            n += 1
            bad = None
            if isinstance(node, ast.Call) and isinstance(node.func, ast.Name) and node.func.id in FORBIDDEN_CALLS:
                bad = node.func.id + "()"
            elif isinstance(node, ast.Lambda):
                bad = "lambda"
            elif isinstance(node, (ast.Global, ast.Nonlocal)):
                bad = type(node).__name__.lower()
            elif isinstance(node, ast.FunctionDef) and node.name in ("__getattr__", "__setattr__", "__getattribute__"):
                bad = node.name
            elif isinstance(node, ast.Call) and any(k.arg is None for k in node.keywords):
                bad = "**kwargs call"
            elif isinstance(node, (ast.AsyncFunctionDef, ast.Await, ast.Yield, ast.YieldFrom)):
                bad = type(node).__name__
            if bad:
                raise AnalysisError("closed-world assumption broken: %s in %s (line %d)" % (bad, f.qualname, node.lineno))
    if ck.prog.extra_modules:
        ck.notes.append("modules not in the analysed set: %s" % ", ".join(ck.prog.extra_modules))
    return n


def norm_src(node):
    """normalised source text of a node (whitespace/quotes/number spelling independent)"""
    return ast.unparse(node)
