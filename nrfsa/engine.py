"""assembled interpreter + convenience entry points"""
from .interp import InterpBase, State, Frame, Model, Limits, Ref, Raised, Event, path_text
from .interp_expr import ExprMixin, deps_of, ty_of
from .interp_stmt import StmtMixin
from .interp_flow import FlowMixin
from .interp_ext import ExtMixin
from .model import Ctx, AnalysisError
from .absval import Const


class Interp(InterpBase, ExprMixin, StmtMixin, FlowMixin, ExtMixin):
    def run(self, func, recv=None, self_val=None, args=(), kwargs=None, st=None):
        """analyse `func`; returns list of Outcome(kind, state, value)"""
        st = st or State()
        self.stack = []
        res = self.call_func(st, None, func.node, func, recv, self_val, list(args), kwargs or {})
        outs = []
        for s, v in res:
            if getattr(self, "decide_results", False) and not isinstance(v, Raised):
                # a predicate that *returns* an undecided comparison (`return not address`): one outcome per truth value, with the
                # comparison decided on each (events + refinement), exactly as if the caller had branched on the result
                from .absval import Unknown, norm
                from .interp import Frame
                nv = norm(v) if hasattr(v, "key") and not isinstance(v, Ref) else v
                if isinstance(nv, Unknown) and nv.ty == "bool" and nv.cmp is not None:
                    tmp = Frame(func, recv, Ctx(self.prog, func, recv), s, {}, 0, self_val)
                    for s2, pol in self.decide(func.node, None, s, tmp, True, nv):
                        s2.envs.pop(tmp.fid, None)
                        outs.append(Outcome("return", s2, Const(bool(pol))))
                    continue
            outs.append(Outcome("raise" if isinstance(v, Raised) else "return", s, v))
        return outs


class Outcome:
    def __init__(self, kind, state, value):
        self.kind, self.state, self.value = kind, state, value

    @property
    def trace(self):
        return self.state.trace

    def events(self, *kinds):
        return [e for e in self.state.trace if e.kind in kinds]

    def conds(self):
        return [e for e in self.state.trace if e.kind == "cond"]

    def __repr__(self):
        return "<Outcome %s %r>" % (self.kind, self.value)
