"""L3 - abstract values: constants, known-bits vectors with per-bit provenance,
intervals, sequences of known length, heap objects, opaque symbols.

Bit terms:   0 | 1 | ('s', src, neg) | ('m', frozenset(srcs))
  src is any hashable naming an input bit, e.g. ('reg', 6, 3) = bit 3 of the
  value register 6 held on entry, ('arg', 'is_rx', 't') = truthiness of a
  parameter, ('status', n, 5) = bit 5 of the STATUS byte clocked out by SPI
  transaction n.
"""

NBITS = 16


class V:
    pass


class Const(V):
    __slots__ = ("v",)

    def __init__(self, v):
        self.v = v

    def __repr__(self):
        return "Const(%r)" % (self.v,)

    def key(self):
        return ("C", repr(self.v))


class Unknown(V):
    """top; `deps` are the sources it may depend on, `ty` an optional type tag"""
    __slots__ = ("deps", "ty", "why", "cmp")

    def __init__(self, deps=frozenset(), ty=None, why="", cmp=None):
        self.deps, self.ty, self.why = frozenset(deps), ty, why
        # cmp = (Compare node, (lhs value, rhs value), negated, frame id): the undecided comparison this boolean stands for; it is
        # decided (fork + `cond` event on that node + refinement) when the value is branched on - `x = a == b; if x:` reads like `if a == b:`
        self.cmp = cmp

    def __repr__(self):
        return "Unknown(%s%s)" % (self.ty or "", ",".join(sorted(map(str, self.deps)))[:60])

    def key(self):
        if self.cmp is not None:
            n_, vals, neg, _fid = self.cmp
            return ("U", self.ty, tuple(sorted(map(repr, self.deps))), getattr(n_, "lineno", 0), getattr(n_, "col_offset", 0), neg,
                    tuple(v.key() if hasattr(v, "key") else repr(v) for v in vals))
        return ("U", self.ty, tuple(sorted(map(repr, self.deps))))


class Sym(V):
    """opaque symbolic value with a name and a type tag.
    ty: 'int' | 'bool' | 'bytes' | 'bytearray' | 'byteslike' | 'str' | 'float' | 'any' | 'list' ...
    attrs: e.g. {'len': V}"""
    __slots__ = ("name", "ty", "attrs")

    def __init__(self, name, ty="any", **attrs):
        self.name, self.ty, self.attrs = name, ty, attrs

    def __repr__(self):
        return "Sym(%s:%s)" % (self.name, self.ty)

    def key(self):
        return ("Y", repr(self.name), self.ty)


class Seq(V):
    """list/tuple/bytes/bytearray of known length with abstract items"""
    __slots__ = ("items", "kind", "ident")
    _n = 0

    def __init__(self, items, kind="list", ident=None):
        self.items, self.kind = list(items), kind
        if ident is None:
            Seq._n += 1
            ident = Seq._n
        self.ident = ident

    def __repr__(self):
        return "Seq<%s>%r" % (self.kind, self.items)

    def key(self):
        return ("Q", self.kind, tuple(i.key() for i in self.items))


class Obj(V):
    """heap object of a repo class (identity = allocation)"""
    _n = 0

    def __init__(self, cls, fields=None, label=None):
        Obj._n += 1
        self.ident = Obj._n
        self.cls, self.fields, self.label = cls, dict(fields or {}), label

    def __repr__(self):
        return "Obj<%s#%s>" % (self.cls.name if self.cls else "?", self.label or self.ident)

    def key(self):
        return ("O", self.cls.qualname if self.cls else None, self.label or self.ident)


class BitV(V):
    """integer as bit vector: bits[0..NBITS-1] + `hi` term for every bit >= NBITS.
    `rng`: optional (lo, hi) interval known to contain the value."""
    __slots__ = ("bits", "hi", "rng")

    def __init__(self, bits, hi=0, rng=None):
        bits = tuple(bits)
        assert len(bits) == NBITS
        self.bits, self.hi, self.rng = bits, hi, rng

    def __repr__(self):
        def t(b):
            if b in (0, 1):
                return str(b)
            if b[0] == "s":
                return ("~" if b[2] else "") + _srcname(b[1])
            return "{" + ",".join(sorted(_srcname(s) for s in b[1])) + "}"
        hi = max([i for i, b in enumerate(self.bits) if b != self.hi] + [-1]) + 1
        return "BitV[" + " ".join(t(b) for b in reversed(self.bits[:max(hi, 1)])) + (" hi=" + t(self.hi) if self.hi != 0 else "") + "]" + ("%r" % (self.rng,) if self.rng else "")

    def key(self):
        return ("B", self.bits, self.hi)

    def deps(self):
        out = set()
        for b in self.bits + (self.hi,):
            out |= term_deps(b)
        return out


def _srcname(s):
    if isinstance(s, tuple):
        return ".".join(str(x) for x in s)
    return str(s)


def term_deps(t):
    if t in (0, 1):
        return set()
    if t[0] == "s":
        return {t[1]}
    return set(t[1])


def t_not(t):
    if t == 0:
        return 1
    if t == 1:
        return 0
    if t[0] == "s":
        return ("s", t[1], not t[2])
    return t


def t_mix(*ts):
    d = set()
    for t in ts:
        d |= term_deps(t)
    if not d:
        return 0
    return ("m", frozenset(d))


def t_and(a, b):
    if a == 0 or b == 0:
        return 0
    if a == 1:
        return b
    if b == 1:
        return a
    if a == b:
        return a
    if a[0] == "s" and b[0] == "s" and a[1] == b[1] and a[2] != b[2]:
        return 0
    return t_mix(a, b)


def t_or(a, b):
    if a == 1 or b == 1:
        return 1
    if a == 0:
        return b
    if b == 0:
        return a
    if a == b:
        return a
    if a[0] == "s" and b[0] == "s" and a[1] == b[1] and a[2] != b[2]:
        return 1
    return t_mix(a, b)


def t_xor(a, b):
    if a == 0:
        return b
    if b == 0:
        return a
    if a == 1:
        return t_not(b)
    if b == 1:
        return t_not(a)
    if a == b:
        return 0
    return t_mix(a, b)


def from_int(n):
    bits = tuple((n >> i) & 1 for i in range(NBITS))
    return BitV(bits, 1 if n < 0 else 0, (n, n))


def sym_bits(src_of_bit, width=8, rng=None):
    """BitV whose low `width` bits are fresh symbols src_of_bit(i); rest 0"""
    bits = tuple(("s", src_of_bit(i), False) if i < width else 0 for i in range(NBITS))
    return BitV(bits, 0, rng if rng is not None else (0, (1 << width) - 1))


def as_bitv(v):
    """coerce Const int/bool to BitV; return None if not an int-like"""
    if isinstance(v, BitV):
        return v
    if isinstance(v, Const) and isinstance(v.v, (int, bool)) and not isinstance(v.v, float):
        return from_int(int(v.v))
    return None


def const_of(v):
    """python int if the value is fully known, else None"""
    if isinstance(v, Const):
        return v.v
    if isinstance(v, BitV):
        if all(b in (0, 1) for b in v.bits) and v.hi in (0, 1):
            n = sum(b << i for i, b in enumerate(v.bits))
            if v.hi == 1:
                n -= 1 << NBITS
            return n
    return None


def norm(v):
    """collapse fully-known BitV into Const"""
    if isinstance(v, BitV):
        c = const_of(v)
        if c is not None:
            return Const(c)
    return v


def may1_mask(v):
    """bitmask of bits that may be 1 (None if unbounded above NBITS)"""
    if v.hi != 0:
        return None
    return sum(1 << i for i, b in enumerate(v.bits) if b != 0)


def must1_mask(v):
    return sum(1 << i for i, b in enumerate(v.bits) if b == 1)


def bv_and(a, b):
    rng = None
    if a.hi == 0 or b.hi == 0:
        m = None
        for x in (a, b):
            mm = may1_mask(x)
            if mm is not None:
                m = mm if m is None else (m & mm)
        rng = (0, m)
    return BitV([t_and(x, y) for x, y in zip(a.bits, b.bits)], t_and(a.hi, b.hi), rng)


def bv_or(a, b):
    rng = None
    ma, mb = may1_mask(a), may1_mask(b)
    if ma is not None and mb is not None:
        rng = (must1_mask(a) | must1_mask(b), ma | mb)
    return BitV([t_or(x, y) for x, y in zip(a.bits, b.bits)], t_or(a.hi, b.hi), rng)


def bv_xor(a, b):
    return BitV([t_xor(x, y) for x, y in zip(a.bits, b.bits)], t_xor(a.hi, b.hi))


def bv_not(a):
    return BitV([t_not(x) for x in a.bits], t_not(a.hi))


def bv_shl(a, n):
    if n < 0:
        return None
    if n >= NBITS:
        bits = [0] * NBITS
    else:
        bits = [0] * n + list(a.bits[: NBITS - n])
    # bits shifted beyond NBITS are lost into 'hi' only if they were all equal to hi
    lost = list(a.bits[max(0, NBITS - n):])
    hi = a.hi
    if any(l != a.hi for l in lost):
        hi = t_mix(a.hi, *lost) if (a.hi != 0 or any(l != 0 for l in lost)) else 0
    rng = None
    if a.rng is not None and a.rng[0] >= 0:
        rng = (a.rng[0] << n, a.rng[1] << n)
    return BitV(bits, hi, rng)


def bv_shr(a, n):
    if n < 0:
        return None
    bits = list(a.bits[n:]) + [a.hi] * min(n, NBITS)
    bits = bits[:NBITS]
    rng = None
    if a.rng is not None:
        rng = (a.rng[0] >> n, a.rng[1] >> n)
    return BitV(bits, a.hi, rng)


def bv_add(a, b):
    """exact when may-one masks are disjoint (a+b == a|b), else ripple with mixing"""
    ma, mb = may1_mask(a), may1_mask(b)
    if ma is not None and mb is not None and not (ma & mb):
        return bv_or(a, b)
    bits, carry = [], 0
    for x, y in zip(a.bits, b.bits):
        s = t_xor(t_xor(x, y), carry)
        c1 = t_and(x, y)
        c2 = t_and(carry, t_xor(x, y))
        carry = t_or(c1, c2)
        bits.append(s)
    hi = t_mix(a.hi, b.hi, carry) if (a.hi != 0 or b.hi != 0 or carry != 0) else 0
    rng = None
    if a.rng is not None and b.rng is not None:
        rng = (a.rng[0] + b.rng[0], a.rng[1] + b.rng[1])
        if rng[0] >= 0 and rng[1] < (1 << NBITS):
            hi = 0
    return BitV(bits, hi, rng)


def interval(v):
    """(lo, hi) bounds of an int-like abstract value, or None"""
    if isinstance(v, Const) and isinstance(v.v, (int, bool)):
        return (int(v.v), int(v.v))
    if isinstance(v, BitV):
        c = const_of(v)
        if c is not None:
            return (c, c)
        lo = hi = None
        if v.hi == 0:
            lo, hi = must1_mask(v), may1_mask(v)
        if v.rng is not None:
            lo = v.rng[0] if lo is None else max(lo, v.rng[0])
            hi = v.rng[1] if hi is None else min(hi, v.rng[1])
        if lo is not None:
            return (lo, hi)
    if isinstance(v, (Sym, Unknown)) and getattr(v, "ty", None) == "bool":
        return (0, 1)
    if isinstance(v, Sym) and "rng" in v.attrs:
        return v.attrs["rng"]
    return None


def with_range(v, lo, hi):
    """refine an int-like value with an interval (used by guard refinement)"""
    if isinstance(v, BitV):
        cur = interval(v)
        if cur is not None:
            lo = cur[0] if lo is None else max(lo, cur[0])
            hi = cur[1] if hi is None else min(hi, cur[1])
        if lo is not None and hi is not None and lo == hi:
            return Const(lo)
        bits, hterm = v.bits, v.hi
        if lo is not None and lo >= 0 and hi is not None:
            # bits above the top bit of hi are 0
            top = hi.bit_length()
            bits = tuple(b if i < top else 0 for i, b in enumerate(bits))
            hterm = 0
        return BitV(bits, hterm, (lo, hi) if lo is not None and hi is not None else v.rng)
    if isinstance(v, Sym):
        cur = v.attrs.get("rng")
        if cur is not None:
            lo = cur[0] if lo is None else (max(lo, cur[0]) if cur[0] is not None else lo)
            hi = cur[1] if hi is None else (min(hi, cur[1]) if cur[1] is not None else hi)
        if lo is not None and hi is not None and lo == hi and v.ty in ("int", "bool"):
            return Const(lo)
        at = dict(v.attrs)
        at["rng"] = (lo, hi)
        return Sym(v.name, v.ty, **at)
    return v


def describe(v):
    return repr(v)


# --------------------------------------------------------------------------
# linear forms (used for buffer lengths) and byte strings with provenance
# --------------------------------------------------------------------------
class Lin(V):
    """integer linear form  sum(coef * symbol) + const  over named symbols"""
    __slots__ = ("terms", "c")

    def __init__(self, terms=None, c=0):
        self.terms = {k: v for k, v in (terms or {}).items() if v}
        self.c = c

    def __repr__(self):
        s = " + ".join(("%d*" % v if v != 1 else "") + _srcname(k) for k, v in sorted(self.terms.items(), key=lambda kv: repr(kv[0])))
        if self.c or not s:
            s = (s + " + " if s else "") + str(self.c)
        return "Lin(" + s + ")"

    def key(self):
        return ("L", tuple(sorted((repr(k), v) for k, v in self.terms.items())), self.c)


def as_lin(v):
    if isinstance(v, Lin):
        return v
    if isinstance(v, Const) and isinstance(v.v, (int, bool)) and not isinstance(v.v, float):
        return Lin({}, int(v.v))
    if isinstance(v, Sym) and v.ty in ("int", "bool"):
        return Lin({v.name: 1}, 0)
    if isinstance(v, BitV):
        c = const_of(v)
        if c is not None:
            return Lin({}, c)
    return None


def lin_norm(l):
    if not l.terms:
        return Const(l.c)
    return l


def lin_add(a, b, sign=1):
    t = dict(a.terms)
    for k, v in b.terms.items():
        t[k] = t.get(k, 0) + sign * v
    return Lin(t, a.c + sign * b.c)


def lin_scale(a, k):
    return Lin({s: v * k for s, v in a.terms.items()}, a.c * k)


class Bytes(V):
    """bytes-like value = concatenation of parts; each part is (tag, length V).
    tag examples: ('param', name) whole parameter, ('slice', basetag, lo, hi),
    ('zeros',), ('fill', byte), ('const', b'..'), ('pack', fmt, args), ('unknown', why)
    kind: 'bytes' | 'bytearray' | 'byteslike' (could be either)
    origin: identity of the caller-visible object this value aliases (or None if fresh)"""
    __slots__ = ("parts", "kind", "origin")

    def __init__(self, parts, kind="bytes", origin=None):
        self.parts, self.kind, self.origin = list(parts), kind, origin

    def __repr__(self):
        return "Bytes<%s%s>%r" % (self.kind, "@%s" % (self.origin,) if self.origin else "", self.parts)

    def key(self):
        return ("S", self.kind, repr(self.parts), repr(self.origin))

    def length(self):
        tot = Lin({}, 0)
        for _tag, ln in self.parts:
            l = as_lin(ln)
            if l is None:
                return Unknown(why="length")
            tot = lin_add(tot, l)
        return lin_norm(tot)
