"""L4 - SPI/CE effect model of the radio drivers (rf24.RF24 and rf24_lite.RF24).

SPI primitives are located by resolution (methods whose body performs
`<spi>.write_readinto(...)`) and classified by their shape; a call to one is an
effect (register read/write, command) on an abstract register file instead of
being inlined."""
import ast
from .absval import (Const, Unknown, Sym, Seq, BitV, Lin, Bytes, sym_bits, const_of, norm, interval, as_bitv,
                     must1_mask, may1_mask, NBITS)
from .interp import Model, Ref, Raised, State
from .model import AnalysisError, iter_own_nodes
from .tables import regmap


def find_primitives(prog, cls):
    """{'read1': f, 'readn': f, 'write1': f, 'writen': f} for a driver class"""
    prims = {}
    cands = []
    for c in cls.mro:
        for f in c.methods.values():
            if any(isinstance(n, ast.Call) and isinstance(n.func, ast.Attribute) and n.func.attr == "write_readinto" for n in iter_own_nodes(f.node)):
                cands.append(f)
    for f in cands:
        rets = [n for n in iter_own_nodes(f.node) if isinstance(n, ast.Return) and n.value is not None]
        a = f.node.args
        nparams = len(a.args) - 1
        role = None
        if rets:
            r = rets[-1].value
            if isinstance(r, ast.Subscript) and isinstance(r.slice, ast.Slice):
                role = "readn"
            elif isinstance(r, ast.Subscript):
                role = "read1"
        else:
            has_none_default = any(isinstance(d, ast.Constant) and d.value is None for d in a.defaults)
            if has_none_default:
                role = "write1"
            elif nparams == 2:
                # (register, buffer) or (register, one value): a buffer parameter is measured, sliced in or concatenated; a single value
                # is stored as one element
                p2 = a.args[2].arg
                as_buffer = False
                for n in iter_own_nodes(f.node):
                    if isinstance(n, ast.Call) and isinstance(n.func, ast.Name) and n.func.id == "len" and any(isinstance(x, ast.Name) and x.id == p2 for x in ast.walk(n)):
                        as_buffer = True
                    if isinstance(n, ast.BinOp) and isinstance(n.op, ast.Add) and any(isinstance(x, ast.Name) and x.id == p2 for x in (n.left, n.right)):
                        as_buffer = True
                    if isinstance(n, ast.Assign) and isinstance(n.value, ast.Name) and n.value.id == p2 and any(isinstance(t, ast.Subscript) and isinstance(t.slice, ast.Slice) for t in n.targets):
                        as_buffer = True
                role = "writen" if as_buffer else "write1"
            elif nparams == 1:
                role = "cmd"          # a data-less command (NOP, FLUSH_TX, ..): the same transfer as write1 without a value
        if role is None or role in prims:
            raise AnalysisError("cannot classify SPI primitive %s" % f.qualname)
        prims[role] = f
    # every function that touches the bus is classified (checked above); a role may be missing when that access is expressed through
    # another primitive (`_reg_read(r)` = `_reg_read_bytes(r, 1)[0]`): such a function is ordinary code and is simply interpreted
    if not prims or not ({"read1", "readn"} & set(prims)) or not ({"write1", "writen"} & set(prims)):
        raise AnalysisError("SPI primitives of %s not found (got %s)" % (cls.qualname, sorted(prims)))
    return prims


def find_ce_field(prog, cls):
    """name of the instance field that stores the constructor's ce_pin parameter"""
    for c in cls.mro:
        init = c.methods.get("__init__")
        if init is None:
            continue
        params = [a.arg for a in init.node.args.args]
        if len(params) < 4:
            continue
        ce = params[3]
        for n in iter_own_nodes(init.node):
            if isinstance(n, ast.Assign) and isinstance(n.value, ast.Name) and n.value.id == ce:
                for t in n.targets:
                    if isinstance(t, ast.Attribute) and isinstance(t.value, ast.Name) and t.value.id == "self":
                        return t.attr
    raise AnalysisError("CE pin field not found for %s" % cls.qualname)


def find_status_cache(prog, cls, prims):
    """('item', field, 0) for the full driver (MISO buffer) or ('field', name) for lite"""
    order = [prims[r] for r in ("read1", "readn", "write1", "writen", "cmd") if r in prims]
    # lite: self._status = in_buf[0]
    for f in order:
        for n in iter_own_nodes(f.node):
            if isinstance(n, ast.Assign) and isinstance(n.targets[0], ast.Attribute) and isinstance(n.value, ast.Subscript):
                if isinstance(n.value.slice, ast.Constant) and n.value.slice.value == 0:
                    return ("field", n.targets[0].attr)
    # full: the in-buffer passed to write_readinto is a field of self
    for f in order:
        for n in iter_own_nodes(f.node):
            if isinstance(n, ast.Call) and isinstance(n.func, ast.Attribute) and n.func.attr == "write_readinto" and len(n.args) >= 2:
                b = n.args[1]
                if isinstance(b, ast.Attribute) and isinstance(b.value, ast.Name) and b.value.id == "self":
                    return ("item", b.attr)
    raise AnalysisError("STATUS cache not identified in %s" % ", ".join(f.qualname for f in order))


class Regs(dict):
    def copy(self):
        return Regs(self)


def old_reg(r, nth=0):
    """symbolic content a register holds on entry (reserved bits 0, field limits as range)"""
    info = regmap.REGS.get(r)
    if info is None:
        return sym_bits(lambda i: ("reg", r, i), 8)
    name, width, reserved, _f = info
    if width > 1:
        return None
    lim = regmap.LIMITS.get(r)
    bits = tuple((0 if (reserved >> i) & 1 or i >= 8 else ("s", ("reg", r, i), False)) for i in range(NBITS))
    rng = (0, 255 & ~reserved)
    if lim:
        rng = lim
        top = lim[1].bit_length()
        bits = tuple(b if i < top else 0 for i, b in enumerate(bits))
    return BitV(bits, 0, rng)


class RadioModel(Model):
    """effects of one driver class.  State kept in st.extra:
       'regs' : Regs  register -> abstract value (absent = entry value)
       'txn'  : int   number of SPI transactions so far
       'ce'   : last CE level written (V) or absent"""

    def __init__(self, prog, cls, opaque=None):
        self.prog, self.cls = prog, cls
        self.prims = find_primitives(prog, cls)
        self.prim_role = {f: role for role, f in self.prims.items()}
        self.ce_field = find_ce_field(prog, cls)
        self.status = find_status_cache(prog, cls, self.prims)
        self.opaque = opaque or {}
        self.carrier = False

    # -- register file ----------------------------------------------------
    def reg_get(self, st, r):
        regs = st.extra.setdefault("regs", Regs())
        if r not in regs:
            v = old_reg(r)
            if v is None:
                w = regmap.REGS[r][1]
                v = Bytes([(("reg", r), Const(w))], "bytearray")
            regs[r] = v
        return regs[r]

    def reg_set(self, st, r, v):
        st.extra.setdefault("regs", Regs())[r] = v

    def new_status(self, it, st, fr, self_val, node):
        n = st.extra.get("txn", 0) + 1
        st.extra["txn"] = n
        sv = sym_bits(lambda i: ("status", n, i), 8)
        # bit 7 of STATUS is reserved (always 0)
        sv = BitV(tuple(0 if i == 7 else b for i, b in enumerate(sv.bits)), 0, (0, 127))
        pin = st.extra.get("status_pin")
        if pin is not None:
            sv = pin if not isinstance(pin, int) else Const(pin)
        if isinstance(self_val, Ref):
            cell = st.heap[self_val.ident]
            if self.status[0] == "field":
                cell.fields[self.status[1]] = sv
            else:
                buf = cell.fields.get(self.status[1])
                if isinstance(buf, Ref) and not st.heap[buf.ident].opaque and st.heap[buf.ident].items:
                    st.heap[buf.ident].items[0] = sv
                else:
                    r = st.alloc("bytearray", items=[sv] + [Unknown(ty="int", why="miso")] * 4, label="miso")
                    cell.fields[self.status[1]] = r
        return n, sv

    # -- call hook --------------------------------------------------------
    def on_call(self, it, st, fr, node, target, args, kwargs):
        f = target.func
        role = self.prim_role.get(f)
        if role is None:
            h = self.opaque.get(f.qualname)
            if h is not None:
                return h(self, it, st, fr, node, target, args, kwargs)
            return None
        self_val = args[0]
        a = [norm(x) for x in args[1:]]
        reg = a[0] if a else kwargs.get("reg")
        rc = const_of(reg)
        txn, sv = self.new_status(it, st, fr, self_val, node)
        if role == "read1":
            if rc is not None and rc < 0x20 and rc in regmap.REGS:
                v = self.reg_get(st, rc)
                it.event(st, fr, "regread", node, (rc, v, txn))
                if rc == 7:
                    v = sv
                return [(st, v)]
            it.event(st, fr, "cmdread" if (rc is not None and rc >= 0x20) else "regread", node, (reg, None, txn))
            if rc is None:
                return [(st, Sym(st.fresh_name("regval"), "int", rng=(0, 255), regexpr=reg))]
            return [(st, sym_bits(lambda i: ("cmdresp", rc, txn, i), 8))]
        if role == "readn":
            ln = a[1] if len(a) > 1 else kwargs.get(f.params[2] if len(f.params) > 2 else "buf_len")
            if ln is None:
                d = f.node.args.defaults
                ln = Const(d[-1].value) if d and isinstance(d[-1], ast.Constant) else Unknown(ty="int")
            if const_of(norm(ln)) == 1 and rc is not None and rc != regmap.R_RX_PAYLOAD and not (rc < 0x20 and rc in regmap.REGS and regmap.REGS[rc][1] > 1):
                # a one-byte read spelled through the n-byte primitive (`_reg_read(r)` = `_reg_read_bytes(r, 1)[0]`): same transaction,
                # same events and the same value as the one-byte primitive, wrapped in a 1-element buffer
                if rc < 0x20 and rc in regmap.REGS:
                    v = self.reg_get(st, rc)
                    it.event(st, fr, "regread", node, (rc, v, txn))
                    if rc == 7:
                        v = sv
                else:
                    it.event(st, fr, "cmdread" if rc >= 0x20 else "regread", node, (reg, None, txn))
                    v = sym_bits(lambda i: ("cmdresp", rc, txn, i), 8)
                return [(st, st.alloc("bytearray", items=[v], label="read1#%d" % txn))]
            it.event(st, fr, "regreadn" if (rc is not None and rc < 0x20) else "cmdreadn", node, (reg, ln, txn))
            if rc is not None and rc < 0x20 and rc in regmap.REGS and regmap.REGS[rc][1] > 1:
                cur = self.reg_get(st, rc)
                c = const_of(norm(ln))
                if c is not None and c <= 8:
                    items = [Sym(("reg", rc, "byte", i), "int", rng=(0, 255)) for i in range(c)]
                    return [(st, st.alloc("bytearray", items=items, label="reg%02X" % rc))]
                return [(st, cur)]
            r = st.alloc("bytearray", items=[], opaque=True, label="payload#%d" % txn)
            st.heap[r.ident].fields = {"len": ln, "__src__": ("cmdreadn", reg, txn)}
            return [(st, r)]
        if role == "writen":
            buf = a[1] if len(a) > 1 else None
            if rc is not None and rc < 0x20 and rc in regmap.REGS and regmap.REGS[rc][1] == 1:
                # a one-byte register written through the n-byte primitive: the same transaction as the one-byte primitive
                items = it.seq_items(buf, st) if buf is not None else None
                if items is not None and len(items) == 1:
                    it.event(st, fr, "regwrite", node, (rc, items[0], txn))
                    self.reg_set(st, rc, items[0])
                    return [(st, Const(None))]
            kind = "regwriten" if (rc is not None and rc < 0x20) else "cmdwriten"
            it.event(st, fr, kind, node, (reg, buf, txn))
            if rc == 0x0A:
                st.extra["p0_equal"] = False
            if rc is not None and rc < 0x20:
                snap = buf
                if isinstance(buf, Ref) and buf.kind == "bytearray":
                    cell = st.heap[buf.ident]
                    if cell.opaque:
                        snap = Bytes([(("unknown", "opaque buffer"), Unknown(ty="int"))], "bytes")
                    else:
                        snap = Bytes([(("items", tuple(norm(i).key() for i in cell.items), tuple(cell.items)), Const(len(cell.items)))], "bytes")
                # a write shorter than the register keeps the register's remaining bytes
                width = regmap.REGS[rc][1] if rc in regmap.REGS else 1
                if width > 1:
                    newb, oldv = it.concrete_bytes(snap, st), self.reg_get(st, rc)
                    oldb = it.concrete_bytes(oldv, st)
                    if newb is not None and len(newb) < width and oldb is not None and len(oldb) >= width:
                        merged = newb + oldb[len(newb):width]
                        snap = Bytes([(("const", merged), Const(len(merged)))], "bytes")
                self.reg_set(st, rc, snap)
            return [(st, Const(None))]
        if role == "cmd":
            it.event(st, fr, "cmd", node, (reg, None, txn))
            return [(st, Const(None))]
        if role == "write1":
            val = a[1] if len(a) > 1 else kwargs.get("value")
            if val is None or (isinstance(val, Const) and val.v is None):
                it.event(st, fr, "cmd", node, (reg, None, txn))
                return [(st, Const(None))]
            if rc is not None and rc < 0x20:
                it.event(st, fr, "regwrite", node, (rc, val, txn))
                self.reg_set(st, rc, val)
            elif rc is not None:
                it.event(st, fr, "cmd", node, (reg, val, txn))
            else:
                it.event(st, fr, "regwrite", node, (reg, val, txn))
            return [(st, Const(None))]
        return None

    def note_p0(self, st, written):
        st.extra["p0_equal"] = False

    def on_ext_store(self, it, st, fr, node, path, val):
        if path.endswith("." + self.ce_field + ".value") or path == self.ce_field + ".value":
            it.event(st, fr, "ce", node, val)
            st.extra["ce"] = val


# --------------------------------------------------------------------------
def is_driver_state_opaque(v):
    return isinstance(v, Unknown)
