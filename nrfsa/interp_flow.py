"""loops, with, try, guard refinement"""
import ast
from .absval import (V, Const, Unknown, Sym, Seq, BitV, Lin, Bytes, as_bitv, as_lin, const_of, norm,
                     interval, with_range, lin_add, lin_norm, lin_scale, NBITS)
from .interp import Ref, Raised, path_text
from .interp_expr import deps_of, ty_of
from .model import AnalysisError


class FlowMixin:
    # ---------------------------------------------------------------- loops
    def _loop_dup(self, st, fr, seen, tag):
        lk = getattr(self.model, "loop_key", None)
        if lk is None:
            return False
        k = lk(self, st, fr)  # iteration counts are deliberately not part of the key: a state seen before is a fixpoint
        if k in seen:
            return True
        seen.add(k)
        return False

    def st_While(self, n, st, fr):
        out = []
        seen_keys = set()
        work = [(st, 0, 0)]  # state, symbolic iterations, total iterations
        while work:
            s, nsym, ntot = work.pop()
            if not hasattr(self, "loop_tests"):
                self.loop_tests = []
            self.loop_tests.append((fr.func, n))
            seq0 = self.seq
            try:
                tested = self.branch(n.test, s, fr)
            finally:
                self.loop_tests.pop()
            for s1, t in tested:
                if isinstance(t, Raised):
                    out.append(("raise", s1, t))
                    continue
                forked = bool(s1.trace) and s1.trace[-1].kind == "cond" and s1.trace[-1].node is not None and (
                    self._within(n.test, s1.trace[-1].node) or (s1.trace[-1].loop is not None and s1.trace[-1].loop[1] is n and s1.trace[-1].seq > seq0))
                # `flag = True; while flag: ..` is `while True` with the exits moved into the flag: its iterations are input-driven too
                forked = forked or self._is_flag(n.test, s1.envs.get(fr.fid, {}))
                # `x = read(); while x is not None: ..; x = read()` is the read-ahead spelling of `while True: x = read(); if x is None: break`
                forked = forked or self._is_none_test(n.test)
                if not t:
                    self.event(s1, fr, "loop-exit", n, ntot)
                    out.extend(self.exec_block(n.orelse, s1, fr) if n.orelse else [("next", s1, None)])
                    continue
                if (forked or self._is_true(n.test)) and nsym >= self.lim.loop_unroll:
                    self.event(s1, fr, "cut", n, ntot)
                    out.append(("cut", s1, None))
                    continue
                if ntot >= self.lim.concrete_loop:
                    self.event(s1, fr, "cut", n, ntot)
                    out.append(("cut", s1, None))
                    continue
                self.event(s1, fr, "loop-iter", n, ntot)
                for kind, s2, v in self.exec_block(n.body, s1, fr):
                    if kind in ("next", "continue"):
                        if self._loop_dup(s2, fr, seen_keys, (nsym, ntot)):
                            continue
                        work.append((s2, nsym + (1 if (forked or self._is_true(n.test)) else 0), ntot + 1))
                    elif kind == "break":
                        self.event(s2, fr, "loop-break", n, ntot)
                        out.append(("next", s2, None))
                    else:
                        out.append((kind, s2, v))
        return out

    @staticmethod
    def _is_true(test):
        return isinstance(test, ast.Constant) and bool(test.value)

    @staticmethod
    def _is_none_test(test):
        """`name is None` / `name is not None` (possibly negated): the loop runs as long as its input delivers something"""
        while isinstance(test, ast.UnaryOp) and isinstance(test.op, ast.Not):
            test = test.operand
        return (isinstance(test, ast.Compare) and len(test.ops) == 1 and isinstance(test.ops[0], (ast.Is, ast.IsNot)) and isinstance(test.left, ast.Name)
                and isinstance(test.comparators[0], ast.Constant) and test.comparators[0].value is None)

    @staticmethod
    def _is_flag(test, env):
        """a test made only of local names holding True/False combined by not / and / or: a boolean flag, not a counter"""
        for x in ast.walk(test):
            if isinstance(x, ast.Name):
                v = env.get(x.id)
                if not (isinstance(v, Const) and isinstance(v.v, bool)):
                    return False
            elif not isinstance(x, (ast.UnaryOp, ast.Not, ast.BoolOp, ast.And, ast.Or, ast.Load)):
                return False
        return True

    @staticmethod
    def _within(root, node):
        for x in ast.walk(root):
            if x is node:
                return True
        # synthesized sub-compare nodes of chained comparisons share the location
        return getattr(node, "lineno", None) == getattr(root, "lineno", -1) and isinstance(node, ast.Compare)

    def iter_values(self, v, st, fr, node):
        """concrete list of item values, or None when the iterable is symbolic"""
        v = norm(v)
        if isinstance(v, Seq):
            return list(v.items)
        if isinstance(v, Ref) and v.kind in ("list", "bytearray", "set") and not st.heap[v.ident].opaque:
            return list(st.heap[v.ident].items)
        if isinstance(v, Bytes) and len(v.parts) == 1 and v.parts[0][0][0] == "const":
            return [Const(b) for b in v.parts[0][0][1]]
        if isinstance(v, Const) and isinstance(v.v, (tuple, list, str, bytes)):
            return [self.lift(x, st) for x in v.v]
        if isinstance(v, Bytes):
            n = const_of(norm(v.length()))
            if isinstance(n, int) and 0 <= n <= 64:
                items, k = [], 0
                for tag, ln in v.parts:
                    c = const_of(norm(ln))
                    for j in range(c):
                        if tag[0] == "const":
                            items.append(Const(tag[1][j]))
                        else:
                            from .interp_stmt import byte_name
                            items.append(Sym(byte_name(tag, j), "int", rng=(0, 255)))
                        k += 1
                return items
        if isinstance(v, Sym) and v.ty == "range":
            a = v.attrs
            lo, hi, step = const_of(a["lo"]), const_of(a["hi"]), const_of(a["step"])
            if None not in (lo, hi, step) and step != 0 and len(range(lo, hi, step)) <= self.lim.concrete_loop:
                return [Const(i) for i in range(lo, hi, step)]
            return None
        if isinstance(v, Sym) and v.ty == "enumerate":
            inner = self.iter_values(v.attrs["of"], st, fr, node)
            if inner is None:
                return None
            return [Seq([Const(i), x], "tuple") for i, x in enumerate(inner)]
        return None

    def sym_item(self, v, st, fr, node, k):
        """fresh symbolic element for iteration k over a symbolic iterable"""
        v = norm(v)
        if isinstance(v, Sym) and v.ty == "range":
            a = v.attrs
            lo, hi, step = (interval(norm(a[x])) for x in ("lo", "hi", "step"))
            cstep = const_of(a["step"])
            rng = (None, None)
            if cstep is not None and cstep > 0 and lo and hi:
                rng = (lo[0], None if hi[1] is None else hi[1] - 1)
            elif cstep is not None and cstep < 0 and lo and hi:
                rng = (None if hi[0] is None else hi[0] + 1, lo[1])
            clo = const_of(norm(a["lo"]))
            if cstep is not None and cstep > 1 and clo is not None:
                # range(lo, hi, step): the item is lo + step * n for a fresh n >= 0, so stride and offset stay visible to linear reasoning
                nm = st.fresh_name("n")
                rngs = dict(st.extra.get("symrng", {}))
                rngs[nm] = (0, None)
                st.extra["symrng"] = rngs
                item = Lin({nm: cstep}, clo)
                lh = as_lin(norm(a["hi"]))
                if lh is not None:
                    self.add_fact(st, lin_add(lh, item, -1), ">0")
                return item
            nm = st.fresh_name("i")
            rngs = dict(st.extra.get("symrng", {}))
            rngs[nm] = rng
            st.extra["symrng"] = rngs
            # relation to the bound: i < hi  (for positive steps)
            lh = as_lin(norm(a["hi"]))
            if cstep is not None and cstep > 0 and lh is not None:
                self.add_fact(st, lin_add(lh, Lin({nm: 1}, 0), -1), ">0")
            ll = as_lin(norm(a["lo"]))
            if cstep is not None and cstep > 0 and ll is not None:
                self.add_fact(st, lin_add(Lin({nm: 1}, 0), ll, -1), ">=0")
            return Sym(nm, "int", rng=rng, role=("range-index", k))
        if isinstance(v, Sym) and v.ty == "repseq":
            el = [norm(x) for x in v.attrs["elems"]]
            if el and all(isinstance(x, Const) and isinstance(x.v, int) and not isinstance(x.v, bool) for x in el):
                vals = sorted({x.v for x in el})
                nm = st.fresh_name("elem")
                rngs = dict(st.extra.get("symrng", {}))
                rngs[nm] = (vals[0], vals[-1])
                st.extra["symrng"] = rngs
                return Sym(nm, "int", rng=(vals[0], vals[-1]), oneof=tuple(vals))
            if len(el) == 1:
                return el[0]
            return Unknown(why="iter item")
        if isinstance(v, Sym) and v.ty == "enumerate":
            nm = st.fresh_name("idx")
            rngs = dict(st.extra.get("symrng", {}))
            rngs[nm] = (k, None)
            st.extra["symrng"] = rngs
            return Seq([Sym(nm, "int", rng=(k, None), role=("enum-index", k)), self.sym_item(v.attrs["of"], st, fr, node, k)], "tuple")
        if isinstance(v, Ref) and v.kind == "dict" and st.heap[v.ident].opaque:
            # iterating a dict yields its keys
            v = Sym(st.fresh_name("keys"), "dictitems", label=v.label or path_text(getattr(node, "iter", node)) or "dict", of=v, notnone=True, view="keys")
        if isinstance(v, Sym) and v.ty == "dictitems":
            base = v.attrs.get("label", "dict")
            of = v.attrs.get("of")
            vs = Sym(st.fresh_name(base + ".val"), v.attrs.get("vty", "int"), role=("dict-val", base, k))
            ks = Sym(st.fresh_name(base + ".key"), v.attrs.get("kty", "int"), role=("dict-key", base, k), pairval=vs, of_dict=of.ident if isinstance(of, Ref) else None)
            view = v.attrs.get("view", "items")
            if view == "keys":
                return ks
            if view == "values":
                return vs
            return Seq([ks, vs], "tuple")
        bt = ty_of(v)
        if bt in ("bytes", "bytearray", "byteslike"):
            return Sym(st.fresh_name("byte"), "int", rng=(0, 255), of=v)
        if isinstance(v, Ref) and v.kind in ("list", "set") and v.cls is not None:
            return st.alloc("obj", cls=v.cls, label=(v.label or "elem") + "[%d]" % k)
        if isinstance(v, Ref) and st.heap[v.ident].fields and st.heap[v.ident].fields.get("__elemcls__") is not None:
            c = st.heap[v.ident].fields["__elemcls__"]
            return st.alloc("obj", cls=c, label=(v.label or "elem") + "[%d]" % k)
        return Unknown(deps_of(v), why="iter item")

    def st_For(self, n, st, fr):
        out = []
        seen_keys = set()
        for s0, itv in self.ev(n.iter, st, fr):
            if isinstance(itv, Raised):
                out.append(("raise", s0, itv))
                continue
            items = self.iter_values(itv, s0, fr, n)
            self.event(s0, fr, "for", n, (itv, None if items is None else len(items)))
            if items is not None:
                cur = [(s0, 0)]
                for k, it in enumerate(items):
                    nxt = []
                    iter_seen = set()  # states are only merged with states of the same iteration
                    for s1, _ in cur:
                        self.event(s1, fr, "loop-iter", n, k)
                        for s2, r in self.assign(n.target, it, s1, fr, n):
                            if isinstance(r, Raised):
                                out.append(("raise", s2, r))
                                continue
                            for kind, s3, v in self.exec_block(n.body, s2, fr):
                                if kind in ("next", "continue"):
                                    if self._loop_dup(s3, fr, iter_seen, k):
                                        continue
                                    nxt.append((s3, 0))
                                elif kind == "break":
                                    self.event(s3, fr, "loop-break", n, k)
                                    out.append(("next", s3, None))
                                else:
                                    out.append((kind, s3, v))
                    cur = nxt
                for s1, _ in cur:
                    self.event(s1, fr, "loop-exit", n, len(items))
                    out.extend(self.exec_block(n.orelse, s1, fr) if n.orelse else [("next", s1, None)])
                continue
            # symbolic iterable: 0 .. loop_unroll iterations, then assume exhausted
            cur = [s0]
            for k in range(self.lim.loop_unroll + 1):
                nxt = []
                for s1 in cur:
                    # exit here
                    if k < self.lim.loop_unroll:
                        se = s1.fork()
                        self.budget()
                    else:
                        se = s1
                    self.event(se, fr, "loop-exit", n, k)
                    out.extend(self.exec_block(n.orelse, se, fr) if n.orelse else [("next", se, None)])
                    if k == self.lim.loop_unroll:
                        continue
                    self.event(s1, fr, "loop-iter", n, k)
                    it = self.sym_item(itv, s1, fr, n, k)
                    for s2, r in self.assign(n.target, it, s1, fr, n):
                        if isinstance(r, Raised):
                            out.append(("raise", s2, r))
                            continue
                        for kind, s3, v in self.exec_block(n.body, s2, fr):
                            if kind in ("next", "continue"):
                                if self._loop_dup(s3, fr, seen_keys, k):
                                    continue
                                nxt.append(s3)
                            elif kind == "break":
                                self.event(s3, fr, "loop-break", n, k)
                                out.append(("next", s3, None))
                            else:
                                out.append((kind, s3, v))
                cur = nxt
        return out

    def st_Break(self, n, st, fr):
        return [("break", st, None)]

    def st_Continue(self, n, st, fr):
        return [("continue", st, None)]

    # ----------------------------------------------------------------- with
    def st_With(self, n, st, fr):
        cur = [("next", st, [])]
        for item in n.items:
            nxt = []
            for kind, s, mgrs in cur:
                if kind != "next":
                    nxt.append((kind, s, mgrs))
                    continue
                for s1, cm in self.ev(item.context_expr, s, fr):
                    if isinstance(cm, Raised):
                        nxt.append(("raise", s1, cm))
                        continue
                    entered = [(s1, cm)]
                    if isinstance(cm, Ref) and cm.kind == "obj" and cm.cls is not None:
                        hit = cm.cls.lookup("__enter__")
                        if hit and hit[0] == "method":
                            entered = self.call_func(s1, fr, n, hit[1], cm.cls, cm, [], {})
                    else:
                        self.event(s1, fr, "with-enter", n, path_text(item.context_expr))
                    for s2, val in entered:
                        if isinstance(val, Raised):
                            nxt.append(("raise", s2, val))
                            continue
                        if item.optional_vars is not None:
                            bound = val if (isinstance(cm, Ref) and cm.kind == "obj") else Sym(("ctx", path_text(item.context_expr) or "?"), "ext", notnone=True)
                            for s3, r in self.assign(item.optional_vars, bound, s2, fr, n):
                                nxt.append(("raise", s3, r) if isinstance(r, Raised) else ("next", s3, mgrs + [(cm, item)]))
                        else:
                            nxt.append(("next", s2, mgrs + [(cm, item)]))
            cur = nxt
        out = []
        for kind, s, mgrs in cur:
            if kind != "next":
                out.append((kind, s, mgrs))
                continue
            for k2, s2, v in self.exec_block(n.body, s, fr):
                # run __exit__ of every manager, innermost first
                states = [s2]
                for cm, item in reversed(mgrs):
                    nstates = []
                    for s3 in states:
                        if isinstance(cm, Ref) and cm.kind == "obj" and cm.cls is not None:
                            hit = cm.cls.lookup("__exit__")
                            if hit and hit[0] == "method":
                                for s4, _r in self.call_func(s3, fr, n, hit[1], cm.cls, cm, [Const(None)] * 3, {}):
                                    nstates.append(s4)
                                continue
                        self.event(s3, fr, "with-exit", n, path_text(item.context_expr))
                        nstates.append(s3)
                    states = nstates
                for s3 in states:
                    out.append((k2, s3, v))
        return out

    # ------------------------------------------------------------------ try
    def st_Try(self, n, st, fr):
        out = []
        for kind, s, v in self.exec_block(n.body, st, fr):
            if kind == "raise":
                handled = False
                for h in n.handlers:
                    names = []
                    if h.type is None:
                        names = None
                    elif isinstance(h.type, ast.Name):
                        names = [h.type.id]
                    elif isinstance(h.type, ast.Tuple):
                        names = [x.id for x in h.type.elts if isinstance(x, ast.Name)]
                    if names is None or v.exc in names or "Exception" in names or (v.exc in ("UnicodeDecodeError",) and "UnicodeError" in names):
                        self.event(s, fr, "except", h, v.exc)
                        v.caught = True
                        if h.name:
                            self.env_set(s, fr, h.name, Sym(("exc", v.exc), "exc", notnone=True))
                        res = self.exec_block(h.body, s, fr)
                        out.extend(self._finally(n, res, fr))
                        handled = True
                        break
                if not handled:
                    out.extend(self._finally(n, [(kind, s, v)], fr))
            elif kind == "next" and n.orelse:
                out.extend(self._finally(n, self.exec_block(n.orelse, s, fr), fr))
            else:
                out.extend(self._finally(n, [(kind, s, v)], fr))
        return out

    def _finally(self, n, outcomes, fr):
        if not n.finalbody:
            return outcomes
        res = []
        for kind, s, v in outcomes:
            for k2, s2, v2 in self.exec_block(n.finalbody, s, fr):
                res.append((kind, s2, v) if k2 == "next" else (k2, s2, v2))
        return res

    # ----------------------------------------------------------- refinement
    def get_path_value(self, node, st, fr):
        """current value of a Name / attribute chain without side effects (or None)"""
        if isinstance(node, ast.Name):
            if node.id == "self":
                return fr.self_val
            return st.envs[fr.fid].get(node.id)
        if isinstance(node, ast.Attribute):
            base = self.get_path_value(node.value, st, fr)
            if isinstance(base, Ref) and base.kind == "obj":
                hit = base.cls.lookup(node.attr) if base.cls else None
                if hit and hit[0] in ("prop", "method"):
                    return None
                return st.heap[base.ident].fields.get(node.attr)
        return None

    def set_path_value(self, node, val, st, fr):
        if isinstance(node, ast.Name):
            if node.id in st.envs[fr.fid]:
                st.envs[fr.fid][node.id] = val
                return True
            return False
        if isinstance(node, ast.Attribute):
            base = self.get_path_value(node.value, st, fr)
            if isinstance(base, Ref) and base.kind == "obj":
                hit = base.cls.lookup(node.attr) if base.cls else None
                if hit and hit[0] in ("prop", "method"):
                    return False
                st.heap[base.ident].fields[node.attr] = val
                return True
        return False

    def refine(self, node, pol, st, fr, vals=None):
        try:
            self._refine(node, pol, st, fr, vals)
        except AnalysisError:
            raise
        except Exception as exc:  # refinement is best-effort precision, never soundness
            self.warn("refine failed: %r" % (exc,))

    def refine_deferred(self, node, pol, st, fr, vals, fid):
        """refinement for a comparison that was evaluated earlier (its result was kept in a variable / returned by a helper) and is
        decided only now: the operand *values* are the ones of that time, so only facts about values are learned; variables are
        narrowed only if they still hold the very operand value"""
        self._deferred = (fid == fr.fid)
        self._deferred_on = True
        try:
            self.refine(node, pol, st, fr, vals)
        finally:
            self._deferred_on = False

    _deferred_on = False
    _deferred = False

    def _set_pv(self, a_node, newval, st, fr, expect=None):
        """set_path_value that, for deferred comparisons, insists the variable still holds the operand value"""
        if self._deferred_on:
            if not self._deferred:
                return
            cur = self.get_path_value(a_node, st, fr)
            if cur is None or expect is None or not hasattr(cur, "key") or norm(cur).key() != norm(expect).key():
                return
        self.set_path_value(a_node, newval, st, fr)

    def _refine(self, node, pol, st, fr, vals=None):
        if isinstance(node, (ast.Name, ast.Attribute)):
            cur = self.get_path_value(node, st, fr)
            if cur is None:
                return
            cur = norm(cur)
            if isinstance(cur, Unknown) and cur.ty == "bool":
                self.set_path_value(node, Const(bool(pol)), st, fr)
                return
            if isinstance(cur, Bytes):
                l = as_lin(norm(cur.length()))
                if l is not None and l.terms:
                    self.add_fact(st, l, ">0" if pol else "==0")
                return
            if not pol:
                if isinstance(cur, Sym) and cur.ty == "bool":
                    self.set_path_value(node, Const(False), st, fr)
                elif isinstance(cur, (BitV, Lin)) or (isinstance(cur, Sym) and cur.ty == "int"):
                    self.set_path_value(node, Const(0), st, fr)
                    if isinstance(cur, BitV) and all(x in (0, 1) or (isinstance(x, tuple) and x[0] == "s") for x in cur.bits + (cur.hi,)):
                        st.extra["zero"] = set(st.extra.get("zero", ())) | {cur.key()}
                    # every local that holds the very same abstract value is zero as well
                    env = st.envs[fr.fid]
                    ck_ = cur.key()
                    for nm, vv in list(env.items()):
                        if hasattr(vv, "key") and not isinstance(vv, Ref) and norm(vv).key() == ck_:
                            env[nm] = Const(0)
                    l = as_lin(cur)
                    if l is not None:
                        self.add_fact(st, l, "==0")
                elif isinstance(cur, Sym) and "len" in cur.attrs and not cur.attrs.get("maybenone"):
                    l = as_lin(norm(cur.attrs["len"]))
                    if l is not None:
                        self.add_fact(st, l, "==0")
            else:
                if isinstance(cur, Sym) and cur.ty == "bool":
                    self.set_path_value(node, Const(True), st, fr)
                elif isinstance(cur, Sym) and cur.attrs.get("maybenone"):
                    at = dict(cur.attrs)
                    at.pop("maybenone")
                    at["notnone"] = True
                    self.set_path_value(node, Sym(cur.name, cur.ty, **at), st, fr)
                    if "len" in at:
                        l = as_lin(norm(at["len"]))
                        if l is not None:
                            self.add_fact(st, l, ">0")
                elif isinstance(cur, Sym) and "len" in cur.attrs:
                    l = as_lin(norm(cur.attrs["len"]))
                    if l is not None:
                        self.add_fact(st, l, ">0")
                else:
                    l = as_lin(cur)
                    if l is not None and l.terms:
                        self.add_fact(st, l, "!=0")
                    if isinstance(cur, BitV):
                        nz = set(st.extra.get("nonzero", ()))
                        nz.add(cur.key())
                        st.extra["nonzero"] = nz
            return
        if isinstance(node, ast.BinOp) and isinstance(node.op, ast.BitAnd) and not pol:
            # (x & mask) is zero: every bit of x selected by a constant mask is zero
            for xn, mn in ((node.left, node.right), (node.right, node.left)):
                if not isinstance(xn, (ast.Name, ast.Attribute)):
                    continue
                cur = self.get_path_value(xn, st, fr)
                mv = self.peek(mn, st, fr)
                m = const_of(norm(mv)) if mv is not None else None
                if isinstance(cur, BitV) and isinstance(m, int):
                    bf = dict(st.extra.get("bitfacts", {}))
                    for i, b in enumerate(cur.bits):
                        if (m >> i) & 1 and isinstance(b, tuple) and b[0] == "s":
                            bf[b[1]] = 1 if b[2] else 0
                    st.extra["bitfacts"] = bf
                    bits = tuple(0 if (m >> i) & 1 else b for i, b in enumerate(cur.bits))
                    hi = 0 if (m < 0 or m >> NBITS) else cur.hi
                    self.set_path_value(xn, norm(BitV(bits, hi if m < 0 else cur.hi, None)), st, fr)
                    return
            return
        if isinstance(node, ast.Call) and isinstance(node.func, ast.Name):
            if node.func.id == "isinstance" and len(node.args) == 2 and isinstance(node.args[0], (ast.Name, ast.Attribute)):
                cur = self.get_path_value(node.args[0], st, fr)
                names = self._type_names(node.args[1])
                if isinstance(cur, Sym) and names:
                    if pol:
                        at = dict(cur.attrs)
                        at.pop("maybenone", None)
                        at["notnone"] = True
                        excl = set(at.get("nottypes", ()))
                        names = [x for x in names if x not in excl] or names
                        ty = names[0] if len(names) == 1 else ("byteslike" if set(names) <= {"bytes", "bytearray"} else ("listlike" if set(names) <= {"list", "tuple"} else cur.ty))
                        if ty in ("bytes", "bytearray", "byteslike") and "len" not in at:
                            at["len"] = Sym(("len", cur.name), "int", rng=(0, None))
                            rngs = dict(st.extra.get("symrng", {}))
                            rngs[("len", cur.name)] = (0, None)
                            st.extra["symrng"] = rngs
                        self.set_path_value(node.args[0], Sym(cur.name, ty, **at), st, fr)
                    else:
                        at = dict(cur.attrs)
                        at["nottypes"] = tuple(set(at.get("nottypes", ())) | set(names))
                        self.set_path_value(node.args[0], Sym(cur.name, cur.ty, **at), st, fr)
            if node.func.id == "len" and len(node.args) == 1:
                cur = self.get_path_value(node.args[0], st, fr) if isinstance(node.args[0], (ast.Name, ast.Attribute)) else None
                if cur is not None:
                    ln = self.length_of(cur, st)
                    l = as_lin(norm(ln)) if ln is not None else None
                    if l is not None and l.terms:
                        self.add_fact(st, l, ">0" if pol else "==0")
            return
        if isinstance(node, ast.Compare) and len(node.ops) == 1:
            op, lhs, rhs = node.ops[0], node.left, node.comparators[0]
            if not pol:
                inv = {ast.Eq: ast.NotEq, ast.NotEq: ast.Eq, ast.Lt: ast.GtE, ast.LtE: ast.Gt, ast.Gt: ast.LtE,
                       ast.GtE: ast.Lt, ast.Is: ast.IsNot, ast.IsNot: ast.Is, ast.In: ast.NotIn, ast.NotIn: ast.In}
                op = inv[type(op)]()
            lv, rv = self.peek(lhs, st, fr), self.peek(rhs, st, fr)
            if self._deferred_on:
                if not (isinstance(vals, tuple) and len(vals) == 2):
                    return
                lv, rv = vals
            if isinstance(vals, tuple) and len(vals) == 2:
                # the operands as they were evaluated (covers operands peek() cannot re-evaluate without side effects)
                lv = vals[0] if lv is None else lv
                rv = vals[1] if rv is None else rv
            if lv is None or rv is None:
                return
            lv, rv = norm(lv), norm(rv)
            t = type(op)
            if t in (ast.Is, ast.IsNot) and isinstance(rv, Const) and rv.v is None:
                if isinstance(lv, Sym) and isinstance(lhs, (ast.Name, ast.Attribute)):
                    if t is ast.Is:
                        self._set_pv(lhs, Const(None), st, fr, lv)
                    else:
                        at = dict(lv.attrs)
                        at.pop("maybenone", None)
                        at["notnone"] = True
                        self._set_pv(lhs, Sym(lv.name, lv.ty, **at), st, fr, lv)
                return
            if t is ast.In and isinstance(rv, Seq) and len(rv.items) == 1:
                t, rv = ast.Eq, norm(rv.items[0])
            if t in (ast.Eq, ast.NotEq):
                # x != 0 / x == 0 for a bit-vector: remembered by value, so every copy of the value answers truth tests alike
                for a, b in ((lv, rv), (rv, lv)):
                    if isinstance(a, BitV) and isinstance(b, Const) and b.v == 0 and not isinstance(b.v, bool):
                        exact = all(x in (0, 1) or (isinstance(x, tuple) and x[0] == "s") for x in a.bits + (a.hi,))
                        if t is ast.NotEq:
                            st.extra["nonzero"] = set(st.extra.get("nonzero", ())) | {a.key()}
                        elif exact:
                            st.extra["zero"] = set(st.extra.get("zero", ())) | {a.key()}
            if t is ast.Eq:
                for a, b in ((lv, rv), (rv, lv)):
                    # a key obtained by iterating a dict equals a constant: that constant's entry is the paired value
                    if isinstance(a, Sym) and a.attrs.get("pairval") is not None and a.attrs.get("of_dict") is not None and isinstance(b, Const):
                        dk = dict(st.extra.get("dictknown", {}))
                        try:
                            dk[(a.attrs["of_dict"], b.v)] = a.attrs["pairval"]
                            st.extra["dictknown"] = dk
                        except TypeError:
                            pass
                for a_node, a, b in ((lhs, lv, rv), (rhs, rv, lv)):
                    if isinstance(b, Const) and not isinstance(a, Const) and isinstance(a_node, (ast.Name, ast.Attribute)):
                        self._set_pv(a_node, b, st, fr, a)
            la, lb = as_lin(lv), as_lin(rv)
            if la is not None and lb is not None and (la.terms or lb.terms):
                d = lin_add(la, lb, -1)  # lhs - rhs
                if t is ast.Eq:
                    self.add_fact(st, d, "==0")
                elif t is ast.NotEq:
                    self.add_fact(st, d, "!=0")
                elif t is ast.Lt:
                    self.add_fact(st, lin_scale(d, -1), ">0")
                elif t is ast.LtE:
                    self.add_fact(st, lin_scale(d, -1), ">=0")
                elif t is ast.Gt:
                    self.add_fact(st, d, ">0")
                elif t is ast.GtE:
                    self.add_fact(st, d, ">=0")
            # interval refinement of a path value against a constant
            for a_node, a, b, flip in ((lhs, lv, rv, False), (rhs, rv, lv, True)):
                c = const_of(b)
                if c is None or isinstance(a, Const) or not isinstance(a_node, (ast.Name, ast.Attribute)) or not isinstance(c, int):
                    continue
                tt = t
                if flip:
                    tt = {ast.Lt: ast.Gt, ast.LtE: ast.GtE, ast.Gt: ast.Lt, ast.GtE: ast.LtE}.get(t, t)
                lo = hi = None
                if tt is ast.Lt:
                    hi = c - 1
                elif tt is ast.LtE:
                    hi = c
                elif tt is ast.Gt:
                    lo = c + 1
                elif tt is ast.GtE:
                    lo = c
                else:
                    continue
                if isinstance(a, (BitV, Sym)) and (isinstance(a, BitV) or a.ty in ("int", "bool")):
                    self._set_pv(a_node, with_range(a, lo, hi), st, fr, a)

    def peek(self, node, st, fr):
        """side-effect free value of simple expressions used in guards"""
        if isinstance(node, ast.Constant):
            return Const(node.value)
        if isinstance(node, (ast.Name, ast.Attribute)):
            v = self.get_path_value(node, st, fr)
            if v is not None:
                return v
            if isinstance(node, ast.Name):
                try:
                    return self.lift(self.prog.const_value(fr.func.module, node.id), st)
                except ValueError:
                    return None
            return None
        if isinstance(node, ast.Tuple):
            items = [self.peek(x, st, fr) for x in node.elts]
            return None if any(i is None for i in items) else Seq(items, "tuple")
        if isinstance(node, ast.Call) and isinstance(node.func, ast.Name) and node.func.id == "len" and len(node.args) == 1:
            v = self.peek(node.args[0], st, fr)
            if v is not None:
                return self.length_of(v, st)
        if isinstance(node, ast.UnaryOp) and isinstance(node.op, ast.USub):
            v = self.peek(node.operand, st, fr)
            return None if v is None else self.unop(node.op, v)
        if isinstance(node, ast.BinOp):
            a, b = self.peek(node.left, st, fr), self.peek(node.right, st, fr)
            if a is not None and b is not None:
                r = self.binop(node.op, a, b, st, fr, node)
                return None if isinstance(r, Raised) else r
        return None

    @staticmethod
    def _type_names(node):
        if isinstance(node, ast.Name):
            return [node.id]
        if isinstance(node, ast.Tuple):
            return [x.id for x in node.elts if isinstance(x, ast.Name)]
        return []
