"""statements, attribute/subscript access, calls, refinement"""
import ast
from .absval import (V, Const, Unknown, Sym, Seq, BitV, Lin, Bytes, as_bitv, as_lin, const_of, norm,
                     from_int, interval, with_range, lin_add, lin_norm, lin_scale, NBITS)
from .interp import Ref, Raised, Frame, path_text
from .interp_expr import deps_of, ty_of
from .model import AnalysisError, Ctx, Target

PRIM_TYPES = {"int", "bool", "bytes", "bytearray", "str", "float"}


def byte_name(tag, k):
    while isinstance(tag, tuple) and tag and tag[0] == "slice" and isinstance(tag[2], int) and tag[2] >= 0:
        k += tag[2]
        tag = tag[1]
    return ("byteof", repr(tag)[:80], k)


class ForkIndex:
    """result of a table lookup whose key is not a single value: (key constant, item) cases and what happens otherwise (Raised | None)"""
    def __init__(self, cases, otherwise):
        self.cases, self.otherwise = cases, otherwise


class StmtMixin:
    # ----------------------------------------------------- lazy heap fields
    def field_kind(self, cls, attr):
        """primitive type tag of an instance field inferred from its assignments"""
        cache = self.__dict__.setdefault("_fk_cache", {})
        key = (cls.qualname, attr)
        if key in cache:
            return cache[key]
        found = set()
        maybe_none = False
        for c in cls.mro:
            fis = list(c.methods.values()) + [f for p in c.props.values() for f in (p.getter, p.setter) if f is not None and f.cls is c]
            for fi in fis:
                for node in ast.walk(fi.node):
                    tgts, val, ann = [], None, None
                    if isinstance(node, ast.AnnAssign):
                        tgts, val, ann = [node.target], node.value, node.annotation
                    elif isinstance(node, ast.Assign):
                        tgts, val = node.targets, node.value
                    for tg in tgts:
                        pairs = [(tg, val)]
                        if isinstance(tg, ast.Tuple) and isinstance(val, ast.Tuple) and len(tg.elts) == len(val.elts):
                            pairs = list(zip(tg.elts, val.elts))
                        elif isinstance(tg, ast.Tuple) and isinstance(val, ast.BinOp) and isinstance(val.left, ast.Tuple) and len(val.left.elts) == 1:
                            pairs = [(t, val.left.elts[0]) for t in tg.elts]
                        for t, v in pairs:
                            if not (isinstance(t, ast.Attribute) and isinstance(t.value, ast.Name) and t.value.id == "self" and t.attr == attr):
                                continue
                            if ann is not None:
                                for n in ast.walk(ann):
                                    if isinstance(n, ast.Name) and n.id in PRIM_TYPES:
                                        found.add(n.id)
                                    if isinstance(n, ast.Name) and n.id == "Optional":
                                        maybe_none = True
                            for alt in self.prog._value_alts(v):
                                if isinstance(alt, ast.Constant):
                                    if alt.value is None:
                                        maybe_none = True
                                    else:
                                        found.add(type(alt.value).__name__)
                                elif isinstance(alt, ast.Call) and isinstance(alt.func, ast.Name) and alt.func.id in PRIM_TYPES:
                                    found.add(alt.func.id)
                                elif isinstance(alt, ast.BinOp) and isinstance(alt.op, (ast.BitAnd, ast.BitOr, ast.LShift, ast.RShift)):
                                    found.add("int")
        if found <= {"int", "bool"} and found:
            res = "int" if "int" in found else "bool"
        elif found <= {"bytes", "bytearray"} and found:
            res = "byteslike"
        elif len(found) == 1:
            res = next(iter(found))
        else:
            res = "any"
        cache[key] = (res, maybe_none)
        return cache[key]

    def lazy_field(self, st, ref, attr):
        """create the symbolic initial content of an unset field; list of alternatives"""
        label = (ref.label or ("#%d" % ref.ident)) + "." + attr
        cls = ref.cls
        if cls is not None:
            ft = self.prog.field_types(cls).get(attr)
            if ft and ft["direct"]:
                alts = []
                for c in sorted(ft["direct"], key=lambda k: k.qualname):
                    alts.append(("obj", c))
                return [(k, c, label) for k, c in alts]
            kind, maybe_none = self.field_kind(cls, attr)
            return [("prim", (kind, maybe_none), label)]
        return [("prim", ("any", True), label)]

    def materialise(self, st, alt):
        k, c, label = alt
        if k == "obj":
            return st.alloc("obj", cls=c, label=label)
        kind, maybe_none = c
        if kind in ("int", "bool"):
            return Sym(label, kind)
        if kind in ("bytes", "bytearray", "byteslike"):
            return Sym(label, kind, len=Sym(("len", label), "int", rng=(0, None)), **({"maybenone": True} if maybe_none else {}))
        return Sym(label, kind, **({"maybenone": True} if maybe_none else {}))

    # ------------------------------------------------------------ attribute
    def ev_Attribute(self, e, st, fr):
        out = []
        v0 = e.value
        if isinstance(v0, ast.Call) and isinstance(v0.func, ast.Name) and v0.func.id == "super":
            hit = fr.recv.lookup(e.attr, after=fr.func.cls)
            if hit and hit[0] == "prop" and hit[1].getter is not None:
                return self.call_func(st, fr, e, hit[1].getter, fr.recv, fr.self_val, [], {})
            return [(st, Unknown(why="super attr"))]
        if isinstance(v0, ast.Name) and v0.id in fr.func.module.ext_modules and v0.id not in st.envs[fr.fid]:
            return [(st, Sym(("ext", v0.id + "." + e.attr), "ext", notnone=True))]
        for s, base in self.ev(v0, st, fr):
            if isinstance(base, Raised):
                out.append((s, base))
                continue
            out.extend(self.load_attr(e, base, e.attr, s, fr))
        return out

    @staticmethod
    def _owner_of(cls, attr):
        for c in cls.mro:
            if attr in c.class_attrs:
                return c
        return cls

    def load_attr(self, node, base, attr, st, fr):
        if isinstance(base, Ref) and base.kind == "obj":
            cls = base.cls
            hit = cls.lookup(attr) if cls is not None else None
            if hit and hit[0] == "prop":
                if hit[1].getter is None:
                    return [(st, Unknown(why="write-only prop"))]
                return self.call_func(st, fr, node, hit[1].getter, cls, base, [], {})
            if hit and hit[0] == "method":
                return [(st, Sym(("bound", hit[1].qualname), "method", func=hit[1], selfv=base))]
            cell = st.heap[base.ident]
            if attr in cell.fields:
                return [(st, cell.fields[attr])]
            mv = self.model.on_field_load(self, st, fr, node, base, attr)
            if mv is not None:
                cell.fields[attr] = mv
                return [(st, mv)]
            if hit and hit[0] == "classattr":
                try:
                    return [(st, self.lift(self.prog.class_const(self._owner_of(cls, attr), attr), st))]
                except ValueError:
                    pass
                vals = self.ev(hit[1], st, fr) if hit[1] is not None else [(st, Unknown())]
                return vals
            alts = self.lazy_field(st, base, attr)
            outs = []
            for k, alt in enumerate(alts):
                s = st if k == len(alts) - 1 else st.fork()
                if len(alts) > 1:
                    self.budget()
                    self.event(s, fr, "choice", node, (path_text(node) or attr, alt[1].name if alt[0] == "obj" else alt[1]))
                val = self.materialise(s, alt)
                s.heap[base.ident].fields[attr] = val
                outs.append((s, val))
            return outs
        if isinstance(base, Sym) and base.ty == "class":
            cls = base.attrs["cls"]
            hit = cls.lookup(attr)
            if hit and hit[0] == "classattr":
                key = ("classattr", cls.qualname, attr)
                if key in st.extra:
                    return [(st, st.extra[key])]
                try:
                    return [(st, self.lift(self.prog.class_const(self._owner_of(cls, attr), attr), st))]
                except ValueError:
                    pass
                if hit[1] is not None:
                    return self.ev(hit[1], st, fr)
            if hit and hit[0] == "method":
                return [(st, Sym(("unbound", hit[1].qualname), "method", func=hit[1]))]
            return [(st, Unknown(why="class attr"))]
        p = path_text(node)
        mv = self.model.on_ext_load(self, st, fr, node, p or attr)
        if mv is not None:
            return [(st, mv)]
        if isinstance(base, Const) and base.v is None:
            return [(st, Raised("AttributeError", node, fr.func, "attribute of None"))]
        return [(st, Unknown(deps_of(base), why="attr " + attr))]

    def store_attr(self, node, base, attr, val, st, fr):
        """returns list of (state, None|Raised)"""
        if isinstance(base, Ref) and base.kind == "obj":
            cls = base.cls
            hit = cls.lookup(attr) if cls is not None else None
            if hit and hit[0] == "prop":
                if hit[1].setter is None:
                    return [(st, Raised("AttributeError", node, fr.func, "no setter"))]
                res = self.call_func(st, fr, node, hit[1].setter, cls, base, [val], {})
                return [(s, v if isinstance(v, Raised) else None) for s, v in res]
            st.heap[base.ident].fields[attr] = val
            self.event(st, fr, "fieldwrite", node, (base, attr, val))
            self.model.on_field_store(self, st, fr, node, base, attr, val)
            return [(st, None)]
        if isinstance(base, Sym) and base.ty == "class":
            st.extra[("classattr", base.attrs["cls"].qualname, attr)] = val
            self.event(st, fr, "classwrite", node, (base.attrs["cls"].qualname, attr, val))
            return [(st, None)]
        p = path_text(node) or attr
        self.event(st, fr, "extstore", node, (p, val))
        self.model.on_ext_store(self, st, fr, node, p, val)
        return [(st, None)]

    # ------------------------------------------------------------ subscript
    def ev_Subscript(self, e, st, fr):
        out = []
        if isinstance(e.slice, ast.Slice):
            parts = [e.value] + [x for x in (e.slice.lower, e.slice.upper, e.slice.step) if x is not None]
            for s, vals in self.ev_list(parts, st, fr):
                if isinstance(vals, Raised):
                    out.append((s, vals))
                    continue
                it = iter(vals[1:])
                lo = next(it) if e.slice.lower is not None else None
                hi = next(it) if e.slice.upper is not None else None
                step = next(it) if e.slice.step is not None else None
                out.append((s, self.slice_of(vals[0], lo, hi, step, s, fr, e)))
            return out
        for s, vals in self.ev_list([e.value, e.slice], st, fr):
            if isinstance(vals, Raised):
                out.append((s, vals))
                continue
            r = self.index_of(vals[0], vals[1], s, fr, e)
            if isinstance(r, ForkIndex):
                out.extend(self.fork_index(r, vals[1], s, fr, e))
            else:
                out.append((s, r))
        return out

    def fork_index(self, fk, idx, st, fr, node):
        """one successor state per feasible key of a constant table, with `index == key` learned on it"""
        out = []
        idx = norm(idx)
        feas = []
        for kv, item in fk.cases:
            t = self.compare(ast.Eq(), idx, kv, st)
            if t is False:
                continue
            feas.append((kv, item, t))
        known = [c for c in feas if c[2] is True]
        if known:
            return [(st, known[0][1])]
        for j, (kv, item, _t) in enumerate(feas):
            last = j == len(feas) - 1 and fk.otherwise is None
            s = st if last else st.fork()
            if not last:
                self.budget()
            self.event(s, fr, "cond", node, (True, (idx, kv)))
            self.learn_equal(idx, kv, s)
            out.append((s, item))
        if fk.otherwise is not None:
            self.event(st, fr, "cond", node, (False, (idx, Const(None))))
            out.append((st, fk.otherwise))
        return out

    def learn_equal(self, v, c, st):
        """value-level refinement v == constant c: bit facts for single-source bits, a linear fact for linear forms"""
        v = norm(v)
        cv = const_of(c)
        if isinstance(v, BitV) and isinstance(cv, int) and not isinstance(cv, bool):
            bf = dict(st.extra.get("bitfacts", {}))
            for i, b in enumerate(v.bits):
                if isinstance(b, tuple) and b[0] == "s":
                    bf[b[1]] = int(((cv >> i) & 1) != b[2])
            st.extra["bitfacts"] = bf
        la = as_lin(v)
        if la is not None and la.terms and isinstance(cv, int):
            self.add_fact(st, lin_add(la, Lin({}, cv), -1), "==0")

    def seq_items(self, v, st):
        if isinstance(v, Seq):
            return v.items
        if isinstance(v, Ref) and v.kind in ("list", "bytearray") and not st.heap[v.ident].opaque:
            return st.heap[v.ident].items
        if isinstance(v, Bytes) and v.parts and all(p[0][0] == "const" or (p[0][0] == "items" and len(p[0]) > 2) for p in v.parts):
            out = []
            for tag, _ln in v.parts:
                out.extend([Const(b) for b in tag[1]] if tag[0] == "const" else list(tag[2]))
            return out
        return None

    def length_of(self, v, st):
        """abstract length of a sized value (V) or None"""
        v = norm(v)
        items = self.seq_items(v, st)
        if items is not None:
            return Const(len(items))
        if isinstance(v, Bytes):
            return v.length()
        if isinstance(v, Sym) and "len" in v.attrs:
            return v.attrs["len"]
        if isinstance(v, Ref) and st.heap[v.ident].fields and "len" in (st.heap[v.ident].fields or {}):
            return st.heap[v.ident].fields["len"]
        if isinstance(v, Const) and isinstance(v.v, (str, bytes, tuple, list)):
            return Const(len(v.v))
        return None

    def index_of(self, base, idx, st, fr, node):
        base, idx = norm(base), norm(idx)
        items = self.seq_items(base, st)
        k = const_of(idx)
        if isinstance(base, Const) and isinstance(base.v, (str, tuple, list)) and k is not None:
            try:
                return self.lift(base.v[k], st)
            except IndexError:
                return Raised("IndexError", node, fr.func)
        if isinstance(base, Const) and isinstance(base.v, dict):
            if isinstance(idx, Const):
                try:
                    return self.lift(base.v[idx.v], st)
                except (KeyError, TypeError):
                    return Raised("KeyError", node, fr.func, "key %r not in the table" % (idx.v,))
            return ForkIndex([(Const(kk), self.lift(vv, st)) for kk, vv in base.v.items()], Raised("KeyError", node, fr.func, "key not in the table"))
        if items is not None:
            if k is not None:
                if -len(items) <= k < len(items):
                    if k < 0:
                        self.event(st, fr, "negindex", node, (base, k))
                    return items[k]
                return Raised("IndexError", node, fr.func, "index %d out of range(%d)" % (k, len(items)))
            iv = interval(idx)
            safe = iv is not None and iv[0] is not None and iv[1] is not None and 0 <= iv[0] and iv[1] < len(items)
            self.event(st, fr, "index", node, (base, idx, len(items), safe))
            if safe and iv[1] - iv[0] <= (255 if getattr(self, "big_tables", False) and all(isinstance(norm(i_), Const) for i_ in items) else 8):
                cands = items[iv[0]: iv[1] + 1]
                if all(c.key() == cands[0].key() for c in cands):
                    return cands[0]
                # a small table indexed by a symbolic bit field: one path per index value
                return ForkIndex([(Const(j), items[j]) for j in range(iv[0], iv[1] + 1)], None)
            tys = {ty_of(i) for i in items}
            d = set()
            for i in items:
                d |= deps_of(i)
            return Unknown(d | deps_of(idx), ty=tys.pop() if len(tys) == 1 else None, why="index")
        ln = self.length_of(base, st)
        safe = False
        if ln is not None:
            li, ii = as_lin(norm(ln)), as_lin(idx)
            if li is not None and ii is not None:
                a = self.lin_sign(lin_add(li, ii, -1), st)  # len - idx > 0
                b = self.lin_sign(ii, st)
                safe = a == ">0" and b in (">0", ">=0", "==0")
            if not safe:
                iv, lv = interval(idx), interval(norm(ln))
                if iv and lv and None not in iv and lv[0] is not None:
                    safe = 0 <= iv[0] and iv[1] < lv[0]
        self.event(st, fr, "index", node, (base, idx, ln, safe))
        bt = ty_of(base)
        if bt in ("bytes", "bytearray", "byteslike"):
            if isinstance(base, Bytes) and len(base.parts) == 1 and isinstance(k, int) and k >= 0:
                # the same byte of the same value is the same symbol wherever it is read (slices from 0 share their base's bytes)
                nm = byte_name(base.parts[0][0], k)
            else:
                nm = st.fresh_name("byte")
            set_ = dict(st.extra.get("symrng", {}))
            set_.setdefault(nm, (0, 255))
            st.extra["symrng"] = set_
            return Sym(nm, "int", rng=(0, 255), of=base, at=idx, deps=frozenset(deps_of(base)))
        if isinstance(base, Ref) and base.kind == "dict" and (st.heap[base.ident].fields or {}).get("__table__") is not None:
            tbl = st.heap[base.ident].fields["__table__"]
            if isinstance(idx, Const):
                for kk, vv in tbl:
                    if kk.v == idx.v:
                        return vv
                return Raised("KeyError", node, fr.func, "key %r not in the table" % (idx.v,))
            return ForkIndex(list(tbl), Raised("KeyError", node, fr.func, "key not in the table"))
        if isinstance(base, Ref) and base.kind == "dict":
            if isinstance(idx, Sym) and idx.attrs.get("pairval") is not None and idx.attrs.get("of_dict") == base.ident:
                return idx.attrs["pairval"]        # d[k] for a key k obtained by iterating d: that entry's value
            if isinstance(idx, Const):
                try:
                    hit = st.extra.get("dictknown", {}).get((base.ident, idx.v))
                except TypeError:
                    hit = None
                if hit is not None:
                    return hit
            return Unknown(why="dict item")
        return Unknown(deps_of(base) | deps_of(idx), why="index")

    def slice_of(self, base, lo, hi, step, st, fr, node):
        base = norm(base)
        if step is not None:
            return Unknown(deps_of(base), ty=ty_of(base), why="slice step")
        klo = 0 if lo is None else const_of(lo)
        khi = None if hi is None else const_of(hi)
        items = self.seq_items(base, st)
        if items is not None and klo is not None and (hi is None or khi is not None):
            sub = items[klo:khi]
            if isinstance(base, Seq):
                return Seq(sub, base.kind)
            if isinstance(base, Bytes):
                if len(base.parts) == 1 and base.parts[0][0][0] == "const":
                    cb = base.parts[0][0][1][klo:khi]
                    return Bytes([(("const", cb), Const(len(cb)))], base.kind)
                return Bytes([(("items", tuple(norm(i).key() for i in sub), tuple(sub)), Const(len(sub)))], base.kind)
            if isinstance(base, Ref):
                if base.kind == "bytearray":
                    return st.alloc("bytearray", items=list(sub))
                return st.alloc("list", items=list(sub))
        b = self.as_bytes(base, st)
        if b is not None:
            total = b.length()
            tl = as_lin(norm(total)) if total is not None else None
            lo_v = Const(0) if lo is None else norm(lo)
            hi_v = total if hi is None else norm(hi)

            def from_end(v):
                # x[-k:] / x[:-k]: a negative constant bound counts from the end (clamped at 0)
                c = const_of(v)
                if tl is None:
                    return v
                if c is None:
                    lv_ = as_lin(norm(v))
                    if lv_ is None or self.lin_sign(lv_, st) != "<0":
                        return v
                    r = lin_add(tl, lv_, 1)           # a bound known to be negative on this path counts from the end
                    sg = self.lin_sign(r, st)
                    if sg in ("<0", "<=0"):
                        return Const(0)
                    if sg in (">0", ">=0", "==0"):
                        rn = lin_norm(r)
                        return rn
                    return v
                if c >= 0:
                    return v
                r = lin_add(tl, Lin({}, -c), -1)
                sg = self.lin_sign(r, st)
                if sg in ("<0", "<=0"):
                    return Const(0)
                if sg in (">0", ">=0", "==0"):
                    return Const(r.c) if not r.terms else r
                return v
            lo_v, hi_v = from_end(lo_v), from_end(hi_v)
            ln = self.slice_len(tl, lo_v, hi_v, st)
            src = b.parts[0][0] if len(b.parts) == 1 else ("concat", tuple(p[0] for p in b.parts))
            kind = b.kind if b.kind != "byteslike" else "byteslike"
            return Bytes([(("slice", src, self.vkey(lo_v), self.vkey(hi_v)), ln)], kind)
        return Unknown(deps_of(base), ty=ty_of(base), why="slice")

    @staticmethod
    def vkey(v):
        c = const_of(v) if v is not None else None
        return c if c is not None else (repr(v) if v is not None else None)

    def slice_len(self, total, lo, hi, st):
        """length of x[lo:hi] for len(x) = total (Lin|None), lo/hi abstract ints (non-negative forms)"""
        llo, lhi = as_lin(lo), as_lin(hi) if hi is not None else None
        if llo is None or lhi is None:
            return Unknown(ty="int")
        # clamp hi to total
        end = lhi
        if total is not None:
            d = self.lin_sign(lin_add(total, lhi, -1), st)  # total - hi
            if d in (">0", ">=0", "==0"):
                end = lhi
            elif d in ("<0", "<=0"):
                end = total
            else:
                nm = st.fresh_name("min")
                st.extra.setdefault("mins", {})[nm] = (total, lhi)
                ra, rb = self.lin_range(total, st), self.lin_range(lhi, st)
                lo_b = None if ra[0] is None or rb[0] is None else min(ra[0], rb[0])
                hi_b = None
                for x in (ra[1], rb[1]):
                    if x is not None:
                        hi_b = x if hi_b is None else min(hi_b, x)
                rngs = dict(st.extra.get("symrng", {}))
                rngs[nm] = (lo_b, hi_b)
                st.extra["symrng"] = rngs
                end = Lin({nm: 1}, 0)
        ln = lin_add(end, llo, -1)
        sgn = self.lin_sign(ln, st)
        if sgn in ("<0", "<=0"):
            return Const(0)
        if sgn in (">0", ">=0", "==0"):
            return lin_norm(ln)
        nm = st.fresh_name("slicelen")
        r = self.lin_range(ln, st)
        rngs = dict(st.extra.get("symrng", {}))
        rngs[nm] = (max(0, r[0]) if r[0] is not None else 0, max(0, r[1]) if r[1] is not None else None)
        st.extra["symrng"] = rngs
        return Lin({nm: 1}, 0)

    def lin_range(self, l, st):
        lo = hi = l.c
        for k, coef in l.terms.items():
            a, b = st.extra.get("symrng", {}).get(k, (None, None))
            if coef > 0:
                lo = None if (lo is None or a is None) else lo + coef * a
                hi = None if (hi is None or b is None) else hi + coef * b
            else:
                lo = None if (lo is None or b is None) else lo + coef * b
                hi = None if (hi is None or a is None) else hi + coef * a
        return (lo, hi)

    # --------------------------------------------------------------- calls
    def ev_Call(self, e, st, fr):
        f = e.func
        if any(isinstance(a, ast.Starred) for a in e.args) and not any(k.arg is None for k in e.keywords):
            # f(*seq): expanded when every starred operand evaluates to a sequence of known length
            outs = []
            for s, vals in self.ev_list([a.value if isinstance(a, ast.Starred) else a for a in e.args], st, fr):
                if isinstance(vals, Raised):
                    outs.append((s, vals))
                    continue
                flat, ok = [], True
                for a, v in zip(e.args, vals):
                    if isinstance(a, ast.Starred):
                        items = self.seq_items(v, s)
                        if items is None:
                            ok = False
                            break
                        flat.extend(items)
                    else:
                        flat.append(v)
                if not ok:
                    self.warn("star-args call with a sequence of unknown length in %s" % fr.func.qualname)
                    outs.append((s, Unknown(why="starargs")))
                    continue
                # re-dispatch through a synthetic call whose positional arguments are pre-evaluated values
                key = ("%star", id(e), len(flat))
                names = ["%%sa%d_%d" % (id(e) % 100000, i) for i in range(len(flat))]
                call = self._star_cache.get(key)
                if call is None:
                    call = ast.Call(func=e.func, args=[ast.Name(id=n_, ctx=ast.Load()) for n_ in names], keywords=e.keywords)
                    ast.copy_location(call, e)
                    ast.fix_missing_locations(call)
                    self._star_cache[key] = call
                env = s.envs[fr.fid]
                for n_, v in zip(names, flat):
                    env[n_] = v
                res = self.ev_Call(call, s, fr)
                for s2, _v in res:
                    e2 = s2.envs.get(fr.fid)
                    if e2 is not None:
                        for n_ in names:
                            e2.pop(n_, None)
                outs.extend(res)
            return outs
        if any(isinstance(a, ast.Starred) for a in e.args) or any(k.arg is None for k in e.keywords):
            self.warn("star-args call in %s" % fr.func.qualname)
            return [(st, Unknown(why="starargs"))]
        if isinstance(f, ast.Name) and f.id in ("any", "all") and len(e.args) == 1 and not e.keywords and isinstance(e.args[0], (ast.GeneratorExp, ast.ListComp)) \
                and f.id not in st.envs[fr.fid]:
            return self.ev_quantifier(e, f.id == "any", st, fr)
        argexprs = list(e.args) + [k.value for k in e.keywords]
        out = []
        # super().m(...)
        if isinstance(f, ast.Attribute) and isinstance(f.value, ast.Call) and isinstance(f.value.func, ast.Name) and f.value.func.id == "super":
            hit = fr.recv.lookup(f.attr, after=fr.func.cls) if fr.recv is not None else None
            for s, vals in self.ev_list(argexprs, st, fr):
                if isinstance(vals, Raised):
                    out.append((s, vals))
                    continue
                args, kw = vals[: len(e.args)], dict(zip([k.arg for k in e.keywords], vals[len(e.args):]))
                if hit is None or hit[0] != "method":
                    out.append((s, Const(None)))  # object.__init__ etc.
                else:
                    out.extend(self.call_func(s, fr, e, hit[1], fr.recv, fr.self_val, args, kw))
            return out
        if isinstance(f, ast.Attribute):
            if isinstance(f.value, ast.Name) and f.value.id in fr.func.module.ext_modules and f.value.id not in st.envs[fr.fid]:
                name = f.value.id + "." + f.attr
                for s, vals in self.ev_list(argexprs, st, fr):
                    if isinstance(vals, Raised):
                        out.append((s, vals))
                        continue
                    args, kw = vals[: len(e.args)], dict(zip([k.arg for k in e.keywords], vals[len(e.args):]))
                    out.extend(self.ext_call(name, args, kw, s, fr, e))
                return out
            for s, vals in self.ev_list([f.value] + argexprs, st, fr):
                if isinstance(vals, Raised):
                    out.append((s, vals))
                    continue
                base, rest = vals[0], vals[1:]
                args, kw = rest[: len(e.args)], dict(zip([k.arg for k in e.keywords], rest[len(e.args):]))
                out.extend(self.call_method(e, base, f.attr, args, kw, s, fr))
            return out
        if isinstance(f, ast.Name):
            nm = f.id
            for s, vals in self.ev_list(argexprs, st, fr):
                if isinstance(vals, Raised):
                    out.append((s, vals))
                    continue
                args, kw = vals[: len(e.args)], dict(zip([k.arg for k in e.keywords], vals[len(e.args):]))
                out.extend(self.call_name(e, nm, args, kw, s, fr))
            return out
        # any other callee expression (`(a if c else b)(..)`, `table[k](..)`): evaluate it; a method value is called like a method
        out = []
        for s, vals in self.ev_list([f] + argexprs, st, fr):
            if isinstance(vals, Raised):
                out.append((s, vals))
                continue
            callee, rest = vals[0], vals[1:]
            args, kw = rest[: len(e.args)], dict(zip([k.arg for k in e.keywords], rest[len(e.args):]))
            out.extend(self.call_value(e, callee, args, kw, s, fr))
        return out

    _star_cache = {}

    def call_value(self, e, callee, args, kw, st, fr):
        callee = norm(callee) if hasattr(callee, "key") and not isinstance(callee, Ref) else callee
        if isinstance(callee, Sym) and callee.ty == "method" and "func" in callee.attrs:
            sv = callee.attrs.get("selfv")
            fn = callee.attrs["func"]
            if sv is not None:
                return self.call_func(st, fr, e, fn, sv.cls, sv, args, kw)
            if fn.kind in ("static", "classmethod"):
                return self.call_func(st, fr, e, fn, fn.cls, None, args, kw)
            if args:
                a0 = args[0]
                return self.call_func(st, fr, e, fn, a0.cls if isinstance(a0, Ref) and a0.kind == "obj" else fn.cls, a0, args[1:], kw)
        if isinstance(callee, Sym) and callee.ty == "nested":
            return self.call_func(st, fr, e, callee.attrs["func"], fr.recv, fr.self_val, args, kw, closure=st.envs[fr.fid])
        if isinstance(callee, Sym) and callee.ty == "class":
            return self.construct(e, callee.attrs["cls"], args, kw, st, fr)
        if isinstance(callee, Sym) and callee.ty == "funcref":
            return self.call_func(st, fr, e, callee.attrs["func"], None, None, args, kw)
        self.warn("unmodelled call form in %s" % fr.func.qualname)
        return [(st, Unknown(why="call"))]

    def call_name(self, e, nm, args, kw, st, fr):
        holder = fr.func.parent or fr.func
        env = st.envs[fr.fid]
        if nm in env and isinstance(env[nm], Sym) and env[nm].ty == "nested":
            return self.call_func(st, fr, e, env[nm].attrs["func"], fr.recv, fr.self_val, args, kw, closure=env)
        if nm in holder.nested and nm not in env:
            return self.call_func(st, fr, e, holder.nested[nm], fr.recv, fr.self_val, args, kw, closure=env)
        if nm in env and isinstance(env[nm], Sym) and env[nm].ty in ("class", "funcref"):
            return self.call_value(e, env[nm], args, kw, st, fr)
        if nm in env and isinstance(env[nm], Sym) and env[nm].ty == "method" and "func" in env[nm].attrs:
            # a local holding a method value (`handler = self._x if .. else self._y; handler(arg)`)
            mv = env[nm]
            sv = mv.attrs.get("selfv")
            if sv is not None:
                return self.call_func(st, fr, e, mv.attrs["func"], sv.cls, sv, args, kw)
            if args:
                a0 = args[0]
                return self.call_func(st, fr, e, mv.attrs["func"], a0.cls if isinstance(a0, Ref) and a0.kind == "obj" else mv.attrs["func"].cls, a0, args[1:], kw)
        if nm in env:
            self.event(st, fr, "callback", e, nm)
            return [(st, Unknown(why="callable local"))]
        cls = self.prog.resolve_class_name(fr.func.module, nm)
        if cls is not None:
            return self.construct(e, cls, args, kw, st, fr)
        fn = self.prog.resolve_func_name(fr.func.module, nm)
        if fn is not None:
            return self.call_func(st, fr, e, fn, None, None, args, kw)
        return self.ext_call(nm, args, kw, st, fr, e)

    def construct(self, e, cls, args, kw, st, fr):
        ref = st.alloc("obj", cls=cls)
        self.event(st, fr, "new", e, (cls.qualname, ref))
        hit = cls.lookup("__init__")
        if hit is None or hit[0] != "method":
            return [(st, ref)]
        res = self.call_func(st, fr, e, hit[1], cls, ref, args, kw)
        return [(s, v if isinstance(v, Raised) else ref) for s, v in res]

    def call_method(self, e, base, attr, args, kw, st, fr):
        if isinstance(base, Ref) and base.kind == "obj" and base.cls is not None:
            hit = base.cls.lookup(attr)
            if hit and hit[0] == "method":
                return self.call_func(st, fr, e, hit[1], base.cls, base, args, kw)
            # field holding a callable (user callback)
            self.event(st, fr, "callback", e, (path_text(e.func) or attr))
            return [(st, Unknown(why="callback"))]
        if isinstance(base, Sym) and base.ty == "class":
            hit = base.attrs["cls"].lookup(attr)
            if hit and hit[0] == "method" and hit[1].kind in ("static", "classmethod"):
                return self.call_func(st, fr, e, hit[1], base.attrs["cls"], None, args, kw)
            if hit and hit[0] == "method" and args:
                return self.call_func(st, fr, e, hit[1], base.attrs["cls"], args[0], args[1:], kw)
        return self.ext_method(attr, base, args, kw, st, fr, e)

    def call_func(self, st, fr, node, func, recv, self_val, args, kw, closure=None):
        tgt = Target("func", func, recv)
        if func.kind == "static":
            self_val = None
        elif func.kind == "classmethod":
            c_ = recv if recv is not None else func.cls
            args = [Sym(("class", c_.qualname), "class", cls=c_, notnone=True)] + list(args)
            self_val = None
        r = self.model.on_call(self, st, fr, node, tgt, [self_val] + list(args) if (func.cls is not None and func.kind not in ("static", "classmethod")) else list(args), kw)
        if r is not None:
            return r
        key = (func, recv)
        if key in self.stack:
            return self.model.on_recursion(self, st, fr, node, tgt, args, kw)
        depth = (fr.depth + 1) if fr is not None else 0
        if depth > self.lim.depth:
            raise AnalysisError("inlining depth exceeded at %s" % func.qualname)
        env = dict(closure) if closure else {}
        a = func.node.args
        names = [x.arg for x in a.posonlyargs + a.args]
        if func.cls is not None and func.kind not in ("nested", "static", "classmethod"):
            if not names:
                raise AnalysisError("method without self: %s" % func.qualname)
            names = names[1:]
        defaults = list(a.defaults)
        dmap = dict(zip(names[len(names) - len(defaults):], defaults)) if defaults else {}
        vals = list(args)
        if len(vals) > len(names) and a.vararg is None:
            return [(st, Raised("TypeError", node, fr.func if fr else None, "too many arguments for %s" % func.qualname))]
        for k, nm in enumerate(names):
            if k < len(vals):
                env[nm] = vals[k]
            elif nm in kw:
                env[nm] = kw[nm]
            elif nm in dmap:
                tmp = Frame(func, recv, Ctx(self.prog, func, recv), st, {}, depth, self_val)
                dv = self.ev(dmap[nm], st, tmp)
                del st.envs[tmp.fid]
                env[nm] = dv[0][1]
            else:
                return [(st, Raised("TypeError", node, fr.func if fr else None, "missing argument %s for %s" % (nm, func.qualname)))]
        for nm in kw:
            if nm not in names:
                if a.kwarg is None:
                    return [(st, Raised("TypeError", node, fr.func if fr else None, "unexpected keyword %s for %s" % (nm, func.qualname)))]
        if a.vararg is not None:
            env[a.vararg.arg] = Seq(vals[len(names):], "tuple")
        nfr = Frame(func, recv, Ctx(self.prog, func, recv), st, env, depth, self_val if func.cls is not None else None)
        self.event(st, nfr, "enter", node, func.qualname)
        self.stack.append(key)
        try:
            outs = self.exec_block(func.node.body, st, nfr)
        finally:
            self.stack.pop()
        res = []
        for kind, s, v in outs:
            s.envs.pop(nfr.fid, None)
            if kind == "return":
                self.event(s, nfr, "leave", node, (func.qualname, v))
                res.append((s, v))
            elif kind == "next":
                self.event(s, nfr, "leave", node, (func.qualname, Const(None)))
                res.append((s, Const(None)))
            elif kind == "raise":
                res.append((s, v))
            elif kind == "cut":
                self.cuts += 1
            else:
                raise AnalysisError("break/continue escaped %s" % func.qualname)
        mk = getattr(self.model, "merge_key", None)
        if mk is not None and len(res) > 1:
            seen, merged = {}, []
            for s, v in res:
                k = mk(self, func, s, v)
                if k is None:
                    merged.append((s, v))
                elif k not in seen:
                    seen[k] = True
                    merged.append((s, v))
            res = merged
        return res

    # ----------------------------------------------------------- statements
    def exec_block(self, stmts, st, fr):
        cur = [("next", st, None)]
        for stmt in stmts:
            nxt = []
            for kind, s, v in cur:
                if kind != "next":
                    nxt.append((kind, s, v))
                    continue
                m = getattr(self, "st_" + type(stmt).__name__, None)
                if m is None:
                    self.warn("unmodelled statement %s in %s" % (type(stmt).__name__, fr.func.qualname))
                    nxt.append(("next", s, None))
                    continue
                res_ = m(stmt, s, fr)
                for k_, s_, v_ in res_:
                    if k_ == "raise" and isinstance(v_, Raised) and not getattr(v_, "noted", False):
                        v_.noted = True
                        self.event(s_, fr, "raised", v_.node if v_.node is not None else stmt, (v_.exc, v_.msg, v_))
                nxt.extend(res_)
            cur = nxt
            lk = getattr(self.model, "loop_key", None)
            if lk is not None and len(cur) > 1:
                seen, ded = set(), []
                for kind, s, v in cur:
                    if kind == "next":
                        k = lk(self, s, fr)
                        if k in seen:
                            continue
                        seen.add(k)
                    ded.append((kind, s, v))
                cur = ded
            if not any(k == "next" for k, _s, _v in cur):
                break
        return cur

    def st_Pass(self, n, st, fr):
        return [("next", st, None)]

    st_Import = st_ImportFrom = st_Global = st_Nonlocal = st_Pass

    def st_FunctionDef(self, n, st, fr):
        holder = fr.func.parent or fr.func
        fi = holder.nested.get(n.name)
        if fi is not None:
            st.envs[fr.fid][n.name] = Sym(("nested", fi.qualname), "nested", func=fi)
        return [("next", st, None)]

    def st_Expr(self, n, st, fr):
        return [("raise" if isinstance(v, Raised) else "next", s, v if isinstance(v, Raised) else None) for s, v in self.ev(n.value, st, fr)]

    def st_Return(self, n, st, fr):
        if n.value is None:
            return [("return", st, Const(None))]
        return [("raise" if isinstance(v, Raised) else "return", s, v) for s, v in self.ev(n.value, st, fr)]

    def st_Raise(self, n, st, fr):
        exc = "Exception"
        if n.exc is not None:
            c = n.exc.func if isinstance(n.exc, ast.Call) else n.exc
            if isinstance(c, ast.Name):
                exc = c.id
        out = []
        # evaluate the arguments of the exception constructor (may read properties)
        args = n.exc.args if isinstance(n.exc, ast.Call) else []
        for s, vals in self.ev_list(list(args), st, fr):
            r = vals if isinstance(vals, Raised) else Raised(exc, n, fr.func)
            self.event(s, fr, "raise", n, r.exc)
            out.append(("raise", s, r))
        return out

    def st_Assert(self, n, st, fr):
        out = []
        for s, t in self.branch(n.test, st, fr):
            if isinstance(t, Raised):
                out.append(("raise", s, t))
            elif t:
                out.append(("next", s, None))
            else:
                self.event(s, fr, "raise", n, "AssertionError")
                out.append(("raise", s, Raised("AssertionError", n, fr.func)))
        return out

    def st_Delete(self, n, st, fr):
        out = [("next", st, None)]
        for tg in n.targets:
            nxt = []
            for kind, s, v in out:
                if kind != "next":
                    nxt.append((kind, s, v))
                    continue
                if isinstance(tg, ast.Subscript):
                    for s2, vals in self.ev_list([tg.value, tg.slice] if not isinstance(tg.slice, ast.Slice) else [tg.value], s, fr):
                        if isinstance(vals, Raised):
                            nxt.append(("raise", s2, vals))
                            continue
                        base = vals[0]
                        if isinstance(tg.slice, ast.Slice) and isinstance(base, Ref) and base.kind in ("list", "bytearray") and not s2.heap[base.ident].opaque and tg.slice.step is None:
                            # `del x[a:b]` / `del x[:]` with constant (or absent) bounds on a known list
                            bounds, okb = [], True
                            for bnd in (tg.slice.lower, tg.slice.upper):
                                if bnd is None:
                                    bounds.append(None)
                                    continue
                                r_ = self.ev(bnd, s2, fr)
                                c_ = const_of(norm(r_[0][1])) if len(r_) == 1 and not isinstance(r_[0][1], Raised) else None
                                okb = okb and isinstance(c_, int)
                                bounds.append(c_)
                            if okb:
                                cell = s2.heap[base.ident]
                                gone = cell.items[bounds[0]:bounds[1]]
                                del cell.items[bounds[0]:bounds[1]]
                                self.event(s2, fr, "delslice", tg, (base, tuple(bounds), path_text(tg.value), len(gone)))
                                self.note_mutation(s2, fr, tg, base)
                                nxt.append(("next", s2, None))
                                continue
                        self.event(s2, fr, "delitem", tg, (base, vals[1] if len(vals) > 1 else None, path_text(tg.value)))
                        if isinstance(base, Ref) and base.kind in ("list", "bytearray", "dict"):
                            cell = s2.heap[base.ident]
                            k = const_of(vals[1]) if len(vals) > 1 else None
                            if not cell.opaque and k is not None and base.kind != "dict" and -len(cell.items) <= k < len(cell.items):
                                del cell.items[k]
                            else:
                                cell.opaque = True
                        nxt.append(("next", s2, None))
                elif isinstance(tg, ast.Name):
                    s.envs[fr.fid].pop(tg.id, None)
                    nxt.append(("next", s, None))
                else:
                    nxt.append(("next", s, None))
            out = nxt
        return out

    def st_If(self, n, st, fr):
        out = []
        # `if <clock test>: time.sleep(..)` has no effect on the abstract state: do not fork on it
        if not n.orelse and all(isinstance(b, ast.Expr) and isinstance(b.value, ast.Call) and isinstance(b.value.func, ast.Attribute)
                                and b.value.func.attr == "sleep" for b in n.body):
            res = self.branch(n.test, st, fr, record=False)
            if len(res) == 1 and res[0][1] is None:
                self.event(res[0][0], fr, "sleep-maybe", n, None)
                return [("next", res[0][0], None)]
        for s, t in self.branch(n.test, st, fr):
            if isinstance(t, Raised):
                out.append(("raise", s, t))
            else:
                # each forked state needs its own local environment copy
                out.extend(self.exec_block(n.body if t else n.orelse, s, self.fork_frame(fr, s)))
        return out

    def fork_frame(self, fr, st):
        """environments are per path: states carry them in st.extra['env:<id>']"""
        return fr

    # assignment -------------------------------------------------------
    def st_Assign(self, n, st, fr):
        out = []
        for s, v in self.ev(n.value, st, fr):
            if isinstance(v, Raised):
                out.append(("raise", s, v))
                continue
            cur = [(s, None)]
            for tg in n.targets:
                nxt = []
                for s1, r in cur:
                    if isinstance(r, Raised):
                        nxt.append((s1, r))
                    else:
                        nxt.extend(self.assign(tg, v, s1, fr, n))
                cur = nxt
            out.extend(("raise" if isinstance(r, Raised) else "next", s1, r if isinstance(r, Raised) else None) for s1, r in cur)
        return out

    def st_AnnAssign(self, n, st, fr):
        if n.value is None:
            return [("next", st, None)]
        out = []
        for s, v in self.ev(n.value, st, fr):
            if isinstance(v, Raised):
                out.append(("raise", s, v))
                continue
            out.extend(("raise" if isinstance(r, Raised) else "next", s1, r if isinstance(r, Raised) else None) for s1, r in self.assign(n.target, v, s, fr, n))
        return out

    def env_of(self, st, fr):
        return st.envs[fr.fid]

    def assign(self, tg, v, st, fr, stmt):
        """list of (state, None|Raised)"""
        if isinstance(tg, ast.Name):
            self.env_set(st, fr, tg.id, v)
            return [(st, None)]
        if isinstance(tg, ast.Attribute):
            out = []
            for s, base in self.ev(tg.value, st, fr):
                if isinstance(base, Raised):
                    out.append((s, base))
                else:
                    out.extend(self.store_attr(tg, base, tg.attr, v, s, fr))
            return out
        if isinstance(tg, (ast.Tuple, ast.List)):
            items = self.seq_items(norm(v), st)
            if items is None or len(items) != len(tg.elts):
                if items is not None:
                    return [(st, Raised("ValueError", stmt, fr.func, "unpack arity"))]
                items = [Unknown(deps_of(v), why="unpack") for _ in tg.elts]
                self.event(st, fr, "unpack-unknown", stmt, v)
            cur = [(st, None)]
            for t, it in zip(tg.elts, items):
                nxt = []
                for s1, r in cur:
                    if isinstance(r, Raised):
                        nxt.append((s1, r))
                    else:
                        nxt.extend(self.assign(t, it, s1, fr, stmt))
                cur = nxt
            return cur
        if isinstance(tg, ast.Subscript):
            out = []
            if isinstance(tg.slice, ast.Slice):
                parts = [tg.value] + [x for x in (tg.slice.lower, tg.slice.upper) if x is not None]
                for s, vals in self.ev_list(parts, st, fr):
                    if isinstance(vals, Raised):
                        out.append((s, vals))
                        continue
                    base = vals[0]
                    self.event(s, fr, "slicestore", tg, (base, vals[1:], v, path_text(tg.value)))
                    self.note_mutation(s, fr, tg, base)
                    if isinstance(base, Ref) and base.kind in ("list", "bytearray"):
                        cell = s.heap[base.ident]
                        it2 = iter(vals[1:])
                        lo = const_of(norm(next(it2))) if tg.slice.lower is not None else 0
                        hi = const_of(norm(next(it2))) if tg.slice.upper is not None else (len(cell.items) if not cell.opaque else None)
                        rhs = self.seq_items(norm(v), s)
                        if not cell.opaque and lo is not None and hi is not None and rhs is not None and tg.slice.step is None:
                            cell.items[lo:hi] = list(rhs)
                        else:
                            cell.opaque = True
                    out.append((s, None))
                return out
            for s, vals in self.ev_list([tg.value, tg.slice], st, fr):
                if isinstance(vals, Raised):
                    out.append((s, vals))
                    continue
                base, idx = norm(vals[0]), norm(vals[1])
                out.append((s, self.store_item(tg, base, idx, v, s, fr)))
            return out
        self.warn("unmodelled assignment target %s" % type(tg).__name__)
        return [(st, None)]

    def store_item(self, tg, base, idx, v, st, fr):
        self.note_mutation(st, fr, tg, base)
        k = const_of(idx)
        if isinstance(base, Ref) and base.kind in ("list", "bytearray"):
            cell = st.heap[base.ident]
            if cell.fields:
                cell.fields.pop("__packed__", None)
            if not cell.opaque:
                n = len(cell.items)
                if k is not None:
                    if -n <= k < n:
                        if k < 0:
                            self.event(st, fr, "negindex", tg, (base, k))
                        cell.items[k] = v
                        self.event(st, fr, "itemstore", tg, (base, idx, v, path_text(tg.value), True))
                        return None
                    return Raised("IndexError", tg, fr.func, "store index %d out of range(%d)" % (k, n))
                iv = interval(idx)
                safe = iv is not None and None not in iv and 0 <= iv[0] and iv[1] < n
                self.event(st, fr, "itemstore", tg, (base, idx, v, path_text(tg.value), safe))
                # weak update
                lo, hi = (iv if safe else (0, n - 1))
                for j in range(lo, hi + 1):
                    old = cell.items[j]
                    if old.key() != v.key():
                        cell.items[j] = Unknown(deps_of(old) | deps_of(v), ty=ty_of(old) if ty_of(old) == ty_of(v) else None, why="weak")
                return None
            ln = self.length_of(base, st)
            safe = False
            if ln is not None:
                li, ii = as_lin(norm(ln)), as_lin(idx)
                if li is not None and ii is not None:
                    safe = self.lin_sign(lin_add(li, ii, -1), st) == ">0" and self.lin_sign(ii, st) in (">0", ">=0", "==0")
            self.event(st, fr, "itemstore", tg, (base, idx, v, path_text(tg.value), safe))
            return None
        if isinstance(base, Ref) and base.kind == "dict":
            self.event(st, fr, "dictstore", tg, (base, idx, v, path_text(tg.value)))
            st.heap[base.ident].opaque = True
            return None
        self.event(st, fr, "itemstore", tg, (base, idx, v, path_text(tg.value), False))
        return None

    def note_mutation(self, st, fr, node, base):
        origin = None
        if isinstance(base, Bytes):
            origin = base.origin
        elif isinstance(base, Sym):
            origin = base.attrs.get("origin")
        elif isinstance(base, Ref):
            origin = st.heap[base.ident].fields.get("__origin__") if st.heap[base.ident].fields else None
        if origin is not None:
            self.event(st, fr, "mutate", node, origin)

    def env_set(self, st, fr, name, v):
        st.envs[fr.fid][name] = v

    def st_AugAssign(self, n, st, fr):
        tg = n.target
        out = []
        load = ast.copy_location(
            ast.Name(id=tg.id, ctx=ast.Load()) if isinstance(tg, ast.Name) else
            (ast.Attribute(value=tg.value, attr=tg.attr, ctx=ast.Load()) if isinstance(tg, ast.Attribute) else
             ast.Subscript(value=tg.value, slice=tg.slice, ctx=ast.Load())), tg)
        for s, vals in self.ev_list([load, n.value], st, fr):
            if isinstance(vals, Raised):
                out.append(("raise", s, vals))
                continue
            old, rhs = vals
            # in-place semantics for mutable sequences
            if isinstance(n.op, ast.Add):
                mutable = (isinstance(old, Bytes) and old.kind in ("bytearray", "byteslike")) or \
                          (isinstance(old, Sym) and old.ty in ("bytearray", "byteslike", "list")) or \
                          (isinstance(old, Ref) and old.kind in ("list", "bytearray"))
                if mutable:
                    self.event(s, fr, "inplace", n, (path_text(tg), old, rhs))
                    self.note_mutation(s, fr, n, old)
                    if isinstance(old, Ref):
                        s.heap[old.ident].opaque = True
            nv = self.binop(n.op, old, rhs, s, fr, n)
            if isinstance(nv, Raised):
                out.append(("raise", s, nv))
                continue
            if isinstance(old, Bytes) and isinstance(nv, Bytes) and old.origin is not None and old.kind in ("bytearray", "byteslike") and isinstance(n.op, ast.Add):
                nv = Bytes(nv.parts, nv.kind, origin=old.origin)  # still the caller's object if it was a bytearray
            out.extend(("raise" if isinstance(r, Raised) else "next", s1, r if isinstance(r, Raised) else None) for s1, r in self.assign(tg, nv, s, fr, n))
        return out
