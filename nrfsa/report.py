"""obligations, findings, known-findings matching, evidence files, exit codes"""
import json
import os
import time

VERIF = os.path.dirname(os.path.dirname(os.path.abspath(__file__)))
KNOWN_FILE = os.path.join(VERIF, "known_findings.json")

ASSUMPTIONS = [
    "closed world: the package uses no getattr/setattr/eval/exec/__getattr__/lambda/global/nonlocal/**kwargs (re-checked on every run, rule R00.1)",
    "the radio stores what is written to a register and returns STATUS in MISO byte 0 (nRF24L01+ product specification)",
    "targets are little-endian, so native struct formats equal their '<' forms; an explicit big-endian prefix is reported",
    "users do not subclass the drivers to override private methods",
    "address_prefix / address_suffix keep their documented shapes (1 and 6 bytes)",
]


class Obligation:
    __slots__ = ("rule", "file", "func", "construct", "ok", "detail", "line", "nontrivial", "na")

    def __init__(self, rule, file, func, construct, ok, detail="", line=None, nontrivial=True, na=False):
        self.rule, self.file, self.func, self.construct = rule, file, func, construct
        self.ok, self.detail, self.line, self.nontrivial, self.na = ok, detail, line, nontrivial, na

    def key(self):
        return "%s|%s|%s|%s" % (self.rule, self.file, self.func, self.construct)

    def as_dict(self):
        return {"rule": self.rule, "file": self.file, "line": self.line, "function": self.func, "construct": self.construct,
                "verdict": "discharged" if self.ok else "finding", "detail": self.detail}


class Checker:
    def __init__(self, pid, prog, tier="quick", root="/repo"):
        self.pid, self.prog, self.tier, self.root = pid, prog, tier, root
        self.obls = []
        self.floors = {}
        self.stats = {"functions_analysed": set(), "paths": 0, "cuts": 0, "calls_resolved": 0}
        self.not_decided = []
        self.explanation = ""
        self.notes = []
        self.errors = []
        self.floor_failures = []
        self.t0 = time.time()
        self.selftest = None

    # -- recording ------------------------------------------------------
    def ob(self, rule, where, construct, ok, detail="", node=None, nontrivial=True):
        """where: FuncInfo | (file, funcname)"""
        if hasattr(where, "qualname"):
            file, func = where.file, where.qualname.split(":", 1)[1]
        else:
            file, func = where
        line = getattr(node, "lineno", None)
        if line is None and hasattr(where, "node"):
            line = where.node.lineno
        o = Obligation(rule, file, func, construct, bool(ok), detail, line, nontrivial)
        self.obls.append(o)
        return bool(ok)

    def floor(self, rule, what, count, minimum):
        self.floors["%s:%s" % (rule, what)] = {"found": count, "min": minimum}
        if count < minimum:
            # judged at the end: a shrunken instance count next to real findings is a symptom of the finding, not a broken analyser;
            # next to an otherwise clean result it would be a vacuous pass and is refused (exit 2)
            self.floor_failures.append("rule %s found %d %s, expected at least %d (vanished anchor / vacuous rule)" % (rule, count, what, minimum))

    def analysed(self, func):
        self.stats["functions_analysed"].add(func.qualname if hasattr(func, "qualname") else str(func))

    def absorb(self, interp):
        self.stats["paths"] += interp.npaths
        self.stats["cuts"] += interp.cuts
        for w in interp.warnings:
            if w not in self.notes:
                self.notes.append(w)


def load_known():
    if not os.path.exists(KNOWN_FILE):
        return []
    with open(KNOWN_FILE) as fh:
        return json.load(fh).get("findings", [])


def finish(ck, seed=0):
    """write evidence, print VIOLATION / KNOWN-FINDING lines, return exit code"""
    known = [k for k in load_known() if k.get("property") == ck.pid]
    findings = [o for o in ck.obls if not o.ok]
    # de-duplicate by key
    seen, uniq = set(), []
    for o in findings:
        if o.key() not in seen:
            seen.add(o.key())
            uniq.append(o)
    findings = uniq
    kn_hits, violations = [], []
    for o in findings:
        hit = None
        for k in known:
            if k.get("status", "known") != "known":
                continue
            if k["rule"] == o.rule and k["file"] == o.file and k["function"] == o.func and k["construct"] == o.construct:
                hit = k
                break
        if hit is not None:
            kn_hits.append((o, hit))
        else:
            violations.append(o)
    ev_dir = os.environ.get("NRFSA_EVIDENCE_DIR") or os.path.join(VERIF, "evidence")   # dev runs against scratch trees write elsewhere
    rp_dir = os.path.join(ev_dir, "replay")
    os.makedirs(rp_dir, exist_ok=True)
    # clear stale replay files of this property
    for fn in os.listdir(rp_dir):
        if fn.startswith(ck.pid + "-"):
            os.remove(os.path.join(rp_dir, fn))
    for o, k in kn_hits:
        print("KNOWN-FINDING: property=%s %s [%s %s %s: %s]" % (ck.pid, k.get("what", o.detail), o.rule, o.file, o.func, o.construct))
    for i, o in enumerate(violations):
        path = os.path.join(rp_dir, "%s-%d.json" % (ck.pid, i))
        with open(path, "w") as fh:
            json.dump({"property": ck.pid, "tier": ck.tier, **o.as_dict(), "key": o.key(),
                       "how_to_replay": "./check %s --explain %s" % (ck.pid, path)}, fh, indent=1)
        print("%s:%s: [%s] %s :: %s -- %s" % (o.file, o.line, o.rule, o.func, o.construct, o.detail))
        print("VIOLATION property=%s replay=%s" % (ck.pid, path))
    distinct = {o.key() for o in ck.obls}
    nontrivial = {o.key() for o in ck.obls if o.nontrivial}
    rule_inst = {}
    for o in ck.obls:
        rule_inst[o.rule] = rule_inst.get(o.rule, 0) + 1
    samples = []
    per_rule_seen = set()
    for o in ck.obls:
        if o.rule not in per_rule_seen or not o.ok:
            per_rule_seen.add(o.rule)
            samples.append(o.as_dict())
    samples = samples[:60]
    cov = {
        "explanation": ck.explanation,
        "obligations": len(distinct),
        "discharged": len(distinct) - len(findings),
        "known_findings": len(kn_hits),
        "evaluations": len(ck.obls),
        "distinct_nontrivial": len(nontrivial),
        "rule": "one obligation per (rule, file, function, construct); non-trivial = its discharge needed path enumeration, "
                "abstract values, guard regions or call-graph reasoning rather than a constant look-up",
        "rule_instances": rule_inst,
        "floors": ck.floors,
        "functions_analysed": sorted(ck.stats["functions_analysed"]),
        "paths_enumerated": ck.stats["paths"],
        "paths_cut_at_loop_bound": ck.stats["cuts"],
        "not_decided": ck.not_decided,
        "analyser_notes": ck.notes[:40],
        "samples": samples,
        "checker_cmd": "./check %s --tier %s" % (ck.pid, ck.tier),
        "trusted_base": ["python ast module", "nrfsa analyser (this repository)", "oracle tables in nrfsa/tables (datasheet, docs, TMRh20, BLE spec)"],
        "exhaustive": False,
    }
    if ck.selftest is not None:
        cov["selftest"] = ck.selftest
    evd = {
        "property_id": ck.pid,
        "tier": ck.tier,
        "seed": int(seed),
        "level": "other",
        "coverage": cov,
        "assumptions": ASSUMPTIONS,
        "wall_s": round(time.time() - ck.t0, 3),
        "violations": len(violations),
    }
    with open(os.path.join(ev_dir, ck.pid + ".json"), "w") as fh:
        json.dump(evd, fh, indent=1, default=str)
    print("%s tier=%s obligations=%d discharged=%d known=%d violations=%d functions=%d paths=%d wall=%.2fs" % (
        ck.pid, ck.tier, len(distinct), len(distinct) - len(findings), len(kn_hits), len(violations),
        len(ck.stats["functions_analysed"]), ck.stats["paths"], time.time() - ck.t0))
    if violations:
        return 1
    if ck.floor_failures:
        from .model import AnalysisError
        raise AnalysisError("; ".join(ck.floor_failures))
    return 0
