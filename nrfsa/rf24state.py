"""abstract start states for the radio drivers.

* post_init(): abstract run of the constructor -> shape of the object
* shadow_pairs(): which instance field `__enter__` dumps into which register
* inv_state(): the inductive invariant 'every shadow equals its register'
"""
import ast
from .absval import (Const, Unknown, Sym, Seq, BitV, Lin, Bytes, sym_bits, const_of, norm, NBITS)
from .interp import State, Ref, Raised, Limits
from .engine import Interp
from .effects import RadioModel, old_reg, Regs
from .interp_expr import deps_of
from .model import AnalysisError, iter_own_nodes
from .tables import regmap


def ctor_args(cls):
    init = cls.lookup("__init__")[1]
    names = [a.arg for a in init.node.args.args][1:]
    vals = []
    for n in names:
        if n == "spi_frequency":
            vals.append(Const(10000000))
        else:
            vals.append(Sym(("ctor", n), "ext", notnone=True))
    return init, vals


def post_init(prog, cls, model=None, extra_args=None):
    """(interp, state, self Ref) after an abstract run of the constructor"""
    model = model or RadioModel(prog, cls)
    it = Interp(prog, model, Limits(max_paths=4000, loop_unroll=2))
    init, vals = ctor_args(cls)
    if extra_args:
        vals = extra_args(vals, init)
    st = State()
    ref = st.alloc("obj", cls=cls, label="self")
    outs = it.run(init, cls, ref, vals, st=st)
    good = [o for o in outs if o.kind == "return"]
    if not good:
        raise AnalysisError("constructor of %s has no normal path" % cls.qualname)
    # prefer the path where the plus-variant probe matched
    return it, good[0].state, ref, outs


def field_writers(prog, cls):
    """field -> set of method qualnames (outside __init__) that assign it"""
    out = {}
    for c in cls.mro:
        fis = list(c.methods.values()) + [f for p in c.props.values() for f in (p.getter, p.setter) if f is not None and f.cls is c]
        for fi in fis:
            for n in iter_own_nodes(fi.node):
                tgts = []
                if isinstance(n, ast.Assign):
                    tgts = n.targets
                elif isinstance(n, (ast.AugAssign, ast.AnnAssign)):
                    tgts = [n.target]
                for t in tgts:
                    for tt in (t.elts if isinstance(t, ast.Tuple) else [t]):
                        base = tt
                        while isinstance(base, ast.Subscript):
                            base = base.value
                        if isinstance(base, ast.Attribute) and isinstance(base.value, ast.Name) and base.value.id == "self":
                            if fi.name != "__init__":
                                out.setdefault(base.attr, set()).add(fi.qualname)
    return out


def _marker(st, name, val, tag):
    """shape preserving substitution of `val` by marker symbols"""
    val = norm(val)
    if isinstance(val, Ref) and val.kind == "list":
        cell = st.heap[val.ident]
        items = [_marker(st, name, it, tag + (k,)) for k, it in enumerate(cell.items)]
        return st.alloc("list", items=items, label=name)
    if isinstance(val, Ref) and val.kind == "bytearray":
        cell = st.heap[val.ident]
        n = len(cell.items) if not cell.opaque else 5
        items = [Sym(("fldbyte",) + tag + (j,), "int", rng=(0, 255)) for j in range(n)]
        return st.alloc("bytearray", items=items, label=".".join(str(x) for x in tag))
    if isinstance(val, (BitV, Lin)) or (isinstance(val, Const) and isinstance(val.v, int) and not isinstance(val.v, bool)) or (isinstance(val, Sym) and val.ty == "int"):
        nm = ("fld", tag[0], tag[1] if len(tag) > 1 else None)
        rngs = dict(st.extra.get("symrng", {}))
        rngs[nm] = (0, 255)
        st.extra["symrng"] = rngs
        return Sym(nm, "int", rng=(0, 255))
    return None


def shadow_pairs(prog, cls, model, st0, ref):
    """{reg: (field, index|None)} from an abstract run of __enter__ on marker values"""
    hit = cls.lookup("__enter__")
    if hit is None:
        return {}
    st = st0.fork()
    st.trace = []
    st.extra.pop("regs", None)
    cell = st.heap[ref.ident]
    marks = {}
    for name, val in list(cell.fields.items()):
        m = _marker(st, name, val, (name,))
        if m is not None:
            cell.fields[name] = m
            marks[name] = m
    it = Interp(prog, model, Limits(max_paths=2000, loop_unroll=2))
    outs = it.run(hit[1], cls, ref, [], st=st)
    outs = [o for o in outs if o.kind == "return"]
    if not outs:
        raise AnalysisError("__enter__ of %s: no normal path" % cls.qualname)
    # a restore that is conditional on some path (`if value != shadow: write`) still tells which field belongs to which register: the
    # pairing is read off the path that writes the most; whether every path restores every register is rule R09.1's business
    outs.sort(key=lambda o: -sum(1 for e in o.trace if e.kind in ("regwrite", "regwriten")))
    pairs, detail, offsets = {}, {}, {}
    s = outs[0].state
    for ev in outs[0].trace:
        if ev.kind == "regwrite":
            r, v, _t = ev.data
            r = const_of(norm(r)) if not isinstance(r, int) else r
            if r is None:
                continue
            norm_f = set()
            for d in deps_of(norm(v)):
                if isinstance(d, tuple) and d and d[0] == "fld":
                    norm_f.add((d[1], d[2]))
                elif isinstance(d, tuple) and d and isinstance(d[0], tuple) and d[0] and d[0][0] == "fld":
                    norm_f.add((d[0][1], d[0][2]))
            detail[r] = (ev, v)
            if len(norm_f) == 1:
                pairs[r] = next(iter(norm_f))
                vv = norm(v)
                if isinstance(vv, Lin) and len(vv.terms) == 1 and list(vv.terms.values()) == [1] and vv.c:
                    offsets[r] = -vv.c
            else:
                pairs.setdefault(r, None)
        elif ev.kind == "regwriten":
            r, buf, _t = ev.data
            r = const_of(norm(r))
            if r is None:
                continue
            found = None
            if isinstance(buf, Ref):
                for name in marks:
                    fv = s.heap[ref.ident].fields.get(name)
                    if isinstance(fv, Ref) and fv.ident == buf.ident:
                        found = (name, None)
                    elif isinstance(fv, Ref) and fv.kind == "list":
                        for k, itv in enumerate(s.heap[fv.ident].items):
                            if isinstance(itv, Ref) and itv.ident == buf.ident:
                                found = (name, k)
            pairs[r] = found
            detail[r] = (ev, buf)
    return pairs, detail, outs[0], offsets


def inv_state(prog, cls, model, st0, ref, pairs, offsets=None):
    """fresh state satisfying the invariant: shadow(field) == register for every pair.
    offsets: {reg: k} when the shadow stores register + k (address length)"""
    offsets = offsets or {}
    st = st0.fork()
    st.trace, st.facts = [], []
    st.extra = {}
    regs = Regs()
    cell = st.heap[ref.ident]
    writers = field_writers(prog, cls)
    paired_fields = {}
    for r, p in pairs.items():
        if p is not None:
            paired_fields.setdefault(p[0], []).append((r, p[1]))
    for name, lst in paired_fields.items():
        cur = cell.fields.get(name)
        for r, idx in lst:
            width = regmap.REGS[r][1] if r in regmap.REGS else 1
            if width > 1:
                n = 5
                items = [Sym(("reg", r, "byte", j), "int", rng=(0, 255)) for j in range(n)]
                val = st.alloc("bytearray", items=items, label="reg%02X" % r)
                regs[r] = val
                shadow = st.alloc("bytearray", items=list(items), label="%s%s" % (name, "" if idx is None else "[%d]" % idx))
            elif r in offsets:
                lim = regmap.LIMITS.get(r, (0, 255))
                nm = ("reg", r)
                rngs = dict(st.extra.get("symrng", {}))
                rngs[nm] = lim
                st.extra["symrng"] = rngs
                val = Sym(nm, "int", rng=lim)
                regs[r] = val
                shadow = Lin({nm: 1}, offsets[r])
            else:
                val = old_reg(r)
                regs[r] = val
                shadow = val
            if idx is None:
                cell.fields[name] = shadow
            else:
                lref = cell.fields.get(name)
                if not (isinstance(lref, Ref) and lref.kind == "list"):
                    raise AnalysisError("shadow %s is not a list" % name)
                st.heap[lref.ident].items[idx] = shadow
    # unpaired fields that are written outside __init__ are havocked to typed symbols
    for name, val in list(cell.fields.items()):
        if name in paired_fields or name not in writers:
            continue
        v = norm(val)
        if isinstance(v, Const) and v.v is None:
            cell.fields[name] = Sym("self." + name, "byteslike", maybenone=True,
                                    len=Sym(("len", "self." + name), "int", rng=(0, None)))
        elif isinstance(v, Const) and isinstance(v.v, bool):
            cell.fields[name] = Sym("self." + name, "bool")
        elif isinstance(v, Const) and isinstance(v.v, int):
            cell.fields[name] = Sym("self." + name, "int")
        elif isinstance(v, (BitV, Lin)):
            cell.fields[name] = Sym("self." + name, "int")
    for r, info in regmap.REGS.items():
        if r not in regs:
            regs[r] = old_reg(r) if info[1] == 1 else Bytes([(("reg", r), Const(info[1]))], "bytearray")
    st.extra["regs"] = regs
    return st
